package c16

import (
	"bytes"
	"context"
	"encoding/base64"
	"fmt"
	"io"
	"net/http"
	"net/url"
	"sort"
	"strings"
	"sync"
	"testing"
	"time"

	"oras.land/oras-go/v2/registry/remote/auth"
	"oras.land/oras-go/v2/registry/remote/retry"
	"pgregory.net/rapid"

	"verif/harness/vt"
)

// RegSpec describes one registry host of the world.
type RegSpec struct {
	Host      string `json:"host"`
	Scheme    string `json:"scheme"` // none, basic, bearer, oauth2
	RealmHost string `json:"realmHost,omitempty"`
	Challenge string `json:"challenge,omitempty"` // scope string in the Bearer challenge
	Redirect  string `json:"redirect,omitempty"`  // blob GETs are redirected (307) to this host
	CredKind  string `json:"credKind"`            // userpass, refresh, access, none
	// Scheme2 != "": the registry switches to it after SwitchAt requests
	Scheme2  string `json:"scheme2,omitempty"`
	SwitchAt int    `json:"switchAt,omitempty"`
	// Enforce: a bearer token is accepted only when its scopes cover what the
	// requested path needs, and the challenge names that scope (next to Challenge)
	Enforce bool `json:"enforce,omitempty"`
	// BasicLib: a Bearer registry that protects everything under /v2/lib/ with the
	// Basic scheme instead (one host, two schemes, by path)
	BasicLib bool `json:"basicLib,omitempty"`
}

// Act is one action of a history.
type Act struct {
	Kind     string   `json:"kind"` // do, burst, expire
	Host     int      `json:"host"`
	Path     string   `json:"path"`
	Method   string   `json:"method"`
	Body     int      `json:"body"` // 0 none, 1 replayable
	Hints    []string `json:"hints,omitempty"`
	HintMode int      `json:"hintMode,omitempty"` // 0 WithScopes, 1 WithScopesForHost
	K        int      `json:"k,omitempty"`
	// Mixed: the callers of a burst address different resources (different scope sets)
	Mixed bool `json:"mixed,omitempty"`
	// LeaderDeadline: the first caller of the burst starts a few milliseconds ahead
	// with a context whose deadline expires while its credential is being looked up
	// (the lookup returns the context's error); the others, with healthy contexts,
	// must still be served
	LeaderDeadline bool `json:"leaderDeadline,omitempty"`
	// LeaderAtBody: the leader's deadline expires later, while it reads the body
	// of the token response (headers already received)
	LeaderAtBody bool `json:"leaderAtBody,omitempty"`
}

type doomAtBodyKey struct{}

// stallBody delivers nothing until the request's context is done, then fails with
// the context's error (what net/http does to a body whose request is cancelled).
type stallBody struct{ ctx context.Context }

func (b stallBody) Read([]byte) (int, error) { <-b.ctx.Done(); return 0, b.ctx.Err() }
func (b stallBody) Close() error             { return nil }

// Case is one world plus a history.
type Case struct {
	Regs      []RegSpec `json:"regs"`
	Cache     string    `json:"cache"` // none, shared, single
	OAuth2    bool      `json:"forceOAuth2,omitempty"`
	OverRetry bool      `json:"overRetry,omitempty"`
	Acts      []Act     `json:"acts"`
	// ShareHeader: the caller builds its single requests on one header map that it
	// keeps using for the next request (to whatever host)
	ShareHeader bool `json:"shareHeader,omitempty"`
}

// the third registry shares its host name with the first and differs in the port
var hostNames = []string{"reg-a.test", "reg-b.example", "reg-a.test:5001", "hub.localdomain:5000"}
var realmNames = []string{"auth-x.test", "auth-y.example"}
var scopePool = []string{"repository:app:pull", "repository:app:push", "repository:app:pull,push", "repository:lib/base:pull", "repository:app:*", "registry:catalog:*", "repository:app:push,pull", "repository:app:delete"}

func genCase(t *rapid.T) Case {
	c := Case{Cache: rapid.SampledFrom([]string{"shared", "shared", "single", "none"}).Draw(t, "cache")}
	c.ShareHeader = rapid.IntRange(0, 3).Draw(t, "shareHeader") == 1
	n := rapid.IntRange(2, 4).Draw(t, "nRegs")
	c.OAuth2 = rapid.IntRange(0, 3).Draw(t, "forceOAuth2") == 0
	c.OverRetry = rapid.Bool().Draw(t, "overRetry")
	for i := 0; i < n; i++ {
		r := RegSpec{Host: hostNames[i]}
		r.Scheme = rapid.SampledFrom([]string{"basic", "bearer", "bearer", "oauth2", "none"}).Draw(t, "scheme")
		switch r.Scheme {
		case "basic":
			r.CredKind = "userpass"
		case "bearer":
			r.CredKind = rapid.SampledFrom([]string{"userpass", "access", "none"}).Draw(t, "credKind")
		case "oauth2":
			r.CredKind = rapid.SampledFrom([]string{"refresh", "userpass"}).Draw(t, "credKind2")
		default:
			r.CredKind = rapid.SampledFrom([]string{"userpass", "none"}).Draw(t, "credKind3")
		}
		if r.Scheme == "bearer" || r.Scheme == "oauth2" {
			if rapid.Bool().Draw(t, "foreignRealm") {
				r.RealmHost = rapid.SampledFrom(realmNames).Draw(t, "realmHost")
			} else {
				r.RealmHost = r.Host
			}
			k := rapid.IntRange(0, 3).Draw(t, "nChallengeScopes")
			var ss []string
			for j := 0; j < k; j++ {
				ss = append(ss, rapid.SampledFrom(scopePool).Draw(t, "cscope"))
			}
			r.Challenge = strings.Join(ss, " ")
			r.Enforce = rapid.IntRange(0, 2).Draw(t, "enforce") != 0
			if r.CredKind == "userpass" && rapid.IntRange(0, 2).Draw(t, "basicLib") == 1 {
				r.BasicLib = true
			}
		}
		if rapid.IntRange(0, 4).Draw(t, "redirect") == 0 {
			// (net/http keeps the Authorization header on a redirect to the same host
			// name on another port; whether that is "another host" is not for this
			// check to decide: redirects go to a different host name)
			for j := 1; j < n; j++ {
				if cand := hostNames[(i+j)%n]; hostOnly(cand) != hostOnly(r.Host) {
					r.Redirect = cand
					break
				}
			}
		}
		if rapid.IntRange(0, 5).Draw(t, "switch") == 0 {
			r.Scheme2 = rapid.SampledFrom([]string{"basic", "bearer"}).Draw(t, "scheme2")
			r.SwitchAt = rapid.IntRange(1, 6).Draw(t, "switchAt")
			if r.RealmHost == "" {
				r.RealmHost = r.Host
			}
			if r.CredKind == "none" || r.CredKind == "access" || r.CredKind == "refresh" {
				r.CredKind = "userpass"
			}
		}
		c.Regs = append(c.Regs, r)
	}
	m := rapid.IntRange(3, 20).Draw(t, "nActs")
	for i := 0; i < m; i++ {
		a := Act{Host: rapid.IntRange(0, n-1).Draw(t, "host")}
		switch r := rapid.IntRange(0, 9).Draw(t, "actKind"); {
		case r < 7:
			a.Kind = "do"
		case r < 9:
			a.Kind = "burst"
			a.K = rapid.IntRange(2, 8).Draw(t, "k")
			a.Mixed = rapid.IntRange(0, 2).Draw(t, "mixed") == 0
			a.LeaderDeadline = !a.Mixed && rapid.IntRange(0, 3).Draw(t, "leaderDeadline") == 0
			a.LeaderAtBody = a.LeaderDeadline && rapid.Bool().Draw(t, "leaderAtBody")
		default:
			a.Kind = "expire"
		}
		a.Path = rapid.SampledFrom([]string{"/v2/app/manifests/latest", "/v2/app/blobs/sha256:abc", "/v2/app/blobs/uploads/", "/v2/lib/base/tags/list", "/v2/_catalog"}).Draw(t, "path")
		a.Method = "GET"
		if strings.HasSuffix(a.Path, "uploads/") {
			a.Method = "POST"
			a.Body = rapid.IntRange(0, 1).Draw(t, "body")
		}
		k := rapid.IntRange(0, 3).Draw(t, "nHints")
		for j := 0; j < k; j++ {
			a.Hints = append(a.Hints, rapid.SampledFrom(scopePool).Draw(t, "hint"))
		}
		a.HintMode = rapid.IntRange(0, 1).Draw(t, "hintMode")
		c.Acts = append(c.Acts, a)
	}
	return c
}

// genMixed: histories made of bursts whose callers need different scope sets at one
// scope-enforcing bearer registry, separated by token expiry, for every cache flavour.
func genMixed(t *rapid.T) Case {
	c := Case{Cache: rapid.SampledFrom([]string{"single", "single", "shared", "none"}).Draw(t, "cache")}
	c.OAuth2 = rapid.IntRange(0, 3).Draw(t, "forceOAuth2") == 0
	for i := 0; i < 2; i++ {
		r := RegSpec{Host: hostNames[i], Scheme: rapid.SampledFrom([]string{"bearer", "oauth2"}).Draw(t, "scheme"), Enforce: true}
		if r.Scheme == "bearer" {
			r.CredKind = rapid.SampledFrom([]string{"userpass", "none"}).Draw(t, "credKind")
		} else {
			r.CredKind = rapid.SampledFrom([]string{"refresh", "userpass"}).Draw(t, "credKind2")
		}
		r.RealmHost = r.Host
		if rapid.Bool().Draw(t, "foreignRealm") {
			r.RealmHost = rapid.SampledFrom(realmNames).Draw(t, "realmHost")
		}
		if rapid.Bool().Draw(t, "extraScope") {
			r.Challenge = rapid.SampledFrom(scopePool).Draw(t, "cscope")
		}
		if r.CredKind == "userpass" && rapid.IntRange(0, 3).Draw(t, "twoSchemes") == 2 {
			// one host, two schemes: /v2/lib/ speaks Basic, the rest Bearer with a
			// challenge that names no scope; a burst then runs a credential fetch and
			// a scope-less token fetch for the same host at the same time
			r.BasicLib, r.Enforce, r.Challenge = true, false, ""
		}
		c.Regs = append(c.Regs, r)
	}
	rounds := rapid.IntRange(4, 12).Draw(t, "rounds")
	for i := 0; i < rounds; i++ {
		h := rapid.IntRange(0, 1).Draw(t, "host")
		a := Act{Kind: "burst", Host: h, K: rapid.IntRange(2, 6).Draw(t, "k"), Mixed: true, Path: mixedTargets[0].path, Method: "GET"}
		if rapid.IntRange(0, 2).Draw(t, "hinted") == 0 {
			a.Hints = []string{rapid.SampledFrom(scopePool).Draw(t, "hint")}
		}
		c.Acts = append(c.Acts, a, Act{Kind: "expire", Host: h, Path: mixedTargets[0].path, Method: "GET"})
	}
	return c
}

// ---------------------------------------------------------------------------------
// reference scope normaliser (well-formed three-part scopes)

func canon(scopes []string) []string {
	type key struct{ typ, name string }
	acts := map[key]map[string]bool{}
	for _, s := range scopes {
		i := strings.Index(s, ":")
		j := strings.LastIndex(s, ":")
		if i < 0 || j <= i {
			continue
		}
		k := key{s[:i], s[i+1 : j]}
		if acts[k] == nil {
			acts[k] = map[string]bool{}
		}
		for _, a := range strings.Split(s[j+1:], ",") {
			if a != "" {
				acts[k][a] = true
			}
		}
	}
	var out []string
	for k, as := range acts {
		if len(as) == 0 {
			continue
		}
		var l []string
		if as["*"] {
			l = []string{"*"}
		} else {
			for a := range as {
				l = append(l, a)
			}
			sort.Strings(l)
		}
		out = append(out, k.typ+":"+k.name+":"+strings.Join(l, ","))
	}
	sort.Strings(out)
	return out
}

func hostOnly(h string) string {
	if i := strings.IndexByte(h, ':'); i >= 0 {
		return h[:i]
	}
	return h
}

// required is the scope a request needs at a scope-enforcing registry.
func required(path, method string) string {
	switch {
	case path == "/v2/_catalog":
		return "registry:catalog:*"
	case strings.HasPrefix(path, "/v2/lib/base/"):
		return "repository:lib/base:pull"
	case strings.HasPrefix(path, "/v2/app/"):
		if method == http.MethodPost {
			return "repository:app:pull,push"
		}
		return "repository:app:pull"
	}
	return ""
}

// challengeFor is the scope string of the registry's Bearer challenge for a request.
func challengeFor(r *RegSpec, path, method string) string {
	if !r.Enforce {
		return r.Challenge
	}
	extras := strings.Fields(r.Challenge)
	need := required(path, method)
	if need == "" {
		return r.Challenge
	}
	if len(extras)%2 == 0 {
		return strings.Join(append([]string{need}, extras...), " ")
	}
	return strings.Join(append(extras, need), " ")
}

// covers reports whether a canonical scope list grants every action of need.
func covers(have []string, need string) bool {
	if need == "" {
		return true
	}
	j := strings.LastIndex(need, ":")
	res, acts := need[:j], strings.Split(need[j+1:], ",")
	for _, h := range have {
		k := strings.LastIndex(h, ":")
		if k < 0 || h[:k] != res {
			continue
		}
		got := map[string]bool{}
		for _, a := range strings.Split(h[k+1:], ",") {
			got[a] = true
		}
		if got["*"] {
			return true
		}
		for _, a := range acts {
			if !got[a] {
				return false
			}
		}
		return true
	}
	return false
}

var mixedTargets = []struct{ path, method string }{
	{"/v2/app/manifests/latest", "GET"}, {"/v2/lib/base/tags/list", "GET"}, {"/v2/_catalog", "GET"}, {"/v2/app/blobs/uploads/", "POST"},
}

// ---------------------------------------------------------------------------------
// the world

type minted struct {
	service string
	scopes  []string
	// alt: the registry whose redirected request drew the challenge this token
	// answers (the client attributes the token to that registry)
	alt string
}

type seenReq struct {
	host    string
	path    string
	method  string
	auth    string
	body    string
	query   string
	callID  int
	isRealm bool
}

type world struct {
	mu      sync.Mutex
	c       *Case
	regs    map[string]*RegSpec
	count   map[string]int
	tokens  map[string]minted // minted token -> what it was minted for
	expired map[string]bool
	nmint   int
	seen    []seenReq
	// advertised[h] = realm hosts that h's own challenges have named so far
	advertised      map[string]map[string]bool
	basicChallenged map[string]bool
	redirectedFrom  map[int]string // call id -> registry that answered it with a cross-host redirect
	viaRedirect     bool
	switched        map[string]bool // scheme change took place (between two calls, never inside one)
	gateUntil401    int             // burst: token endpoint waits until this many 401s were sent
	n401            int
	tokBarrier      int // mixed burst: token fetches are answered together once this many wait
	tokWaiting      int
	viol            []string
}

func user(h string) string { return "user-" + strings.ReplaceAll(h, ":", "_") } // no colon in a Basic user name
func pw(h string) string   { return "PW~" + h + "~7f3a" }
func rtok(h string) string { return "RT~" + h + "~91bc" }
func atok(h string) string { return "AT~" + h + "~55de" }

type callIDKey struct{}

func (w *world) scheme(r *RegSpec) string {
	if r.Scheme2 != "" && w.switched[r.Host] {
		return r.Scheme2
	}
	return r.Scheme
}

func resp(req *http.Request, status int, h http.Header, body string) *http.Response {
	if h == nil {
		h = http.Header{}
	}
	return &http.Response{StatusCode: status, Status: fmt.Sprintf("%d %s", status, http.StatusText(status)), Proto: "HTTP/1.1", ProtoMajor: 1, ProtoMinor: 1,
		Header: h, Body: io.NopCloser(strings.NewReader(body)), ContentLength: int64(len(body)), Request: req}
}

func (w *world) RoundTrip(req *http.Request) (*http.Response, error) {
	var body []byte
	if req.Body != nil && req.Body != http.NoBody {
		body, _ = io.ReadAll(req.Body)
		req.Body.Close()
	}
	id, _ := req.Context().Value(callIDKey{}).(int)
	w.mu.Lock()
	host := req.URL.Host
	sr := seenReq{host: host, path: req.URL.Path, method: req.Method, auth: req.Header.Get("Authorization"), body: string(body), query: req.URL.RawQuery, callID: id}
	isRealmPath := req.URL.Path == "/token"
	sr.isRealm = isRealmPath
	w.seen = append(w.seen, sr)
	if isRealmPath {
		gate := w.gateUntil401
		w.mu.Unlock()
		if gate > 0 {
			// let the other callers of the burst get their 401 and queue up
			deadline := time.Now().Add(200 * time.Millisecond)
			for time.Now().Before(deadline) {
				w.mu.Lock()
				ok := w.n401 >= gate
				w.mu.Unlock()
				if ok {
					break
				}
				time.Sleep(200 * time.Microsecond)
			}
			time.Sleep(3 * time.Millisecond)
			// callers with different scope sets fetch separately: answer them at the
			// same moment so that their cache updates coincide
			w.mu.Lock()
			barrier := w.tokBarrier
			w.tokWaiting++
			w.mu.Unlock()
			if barrier > 1 {
				deadline := time.Now().Add(8 * time.Millisecond)
				for time.Now().Before(deadline) {
					w.mu.Lock()
					ok := w.tokWaiting >= barrier
					w.mu.Unlock()
					if ok {
						break
					}
					time.Sleep(50 * time.Microsecond)
				}
			}
		}
		w.mu.Lock()
		defer w.mu.Unlock()
		rs := w.token(req, body)
		if req.Context().Value(doomAtBodyKey{}) != nil && rs.StatusCode == 200 {
			rs.Body = stallBody{req.Context()}
		}
		return rs, nil
	}
	defer w.mu.Unlock()
	r := w.regs[host]
	if r == nil {
		return nil, fmt.Errorf("dial %s: no such host", host)
	}
	w.count[host]++
	sch := w.scheme(r)
	if r.BasicLib && (sch == "bearer" || sch == "oauth2") && strings.HasPrefix(req.URL.Path, "/v2/lib/") {
		sch = "basic"
	}
	authz := req.Header.Get("Authorization")
	ok := false
	switch sch {
	case "none":
		ok = true
	case "basic":
		ok = authz == "Basic "+base64.StdEncoding.EncodeToString([]byte(user(host)+":"+pw(host)))
	default:
		if strings.HasPrefix(authz, "Bearer ") {
			tk := strings.TrimPrefix(authz, "Bearer ")
			if tk == atok(host) && r.CredKind == "access" {
				ok = true
			} else if m, has := w.tokens[tk]; has && m.service == host && !w.expired[tk] {
				ok = !r.Enforce || covers(m.scopes, required(req.URL.Path, req.Method))
			}
		}
	}
	if !ok {
		w.n401++
		h := http.Header{}
		// A challenge that reaches the client at the end of a cross-host redirect is
		// attributed by the client to the registry it originally addressed; whether
		// the realm named there counts as "advertised by" that registry is not
		// something the statement settles: realm confinement is not judged for it.
		via := w.redirectedFrom[id]
		if sch == "basic" {
			h.Set("Www-Authenticate", `Basic realm="`+host+`"`)
			w.basicChallenged[host] = true
			if via != "" {
				w.basicChallenged[via] = true
				w.viaRedirect = true
			}
		} else {
			realm := "https://" + r.RealmHost + "/token"
			ch := fmt.Sprintf(`Bearer realm=%q,service=%q`, realm, host)
			if cs := challengeFor(r, req.URL.Path, req.Method); cs != "" {
				ch += fmt.Sprintf(`,scope=%q`, cs)
			}
			h.Set("Www-Authenticate", ch)
			if w.advertised[host] == nil {
				w.advertised[host] = map[string]bool{}
			}
			w.advertised[host][r.RealmHost] = true
			if via != "" {
				if w.advertised[via] == nil {
					w.advertised[via] = map[string]bool{}
				}
				w.advertised[via][r.RealmHost] = true
				w.viaRedirect = true
			}
		}
		return resp(req, 401, h, `{"errors":[{"code":"UNAUTHORIZED"}]}`), nil
	}
	if r.Redirect != "" && strings.Contains(req.URL.Path, "/blobs/sha256:") && req.Method == "GET" && req.URL.Query().Get("redirected") == "" {
		u := *req.URL
		u.Host = r.Redirect
		u.RawQuery = "redirected=1"
		w.redirectedFrom[id] = host
		return resp(req, 307, http.Header{"Location": []string{u.String()}}, ""), nil
	}
	return resp(req, 200, nil, "ok"), nil
}

// token serves the token endpoint of whatever registry names this realm.
func (w *world) token(req *http.Request, body []byte) *http.Response {
	var service string
	var scopes []string
	credOK := false
	anonymous := false
	if req.Method == http.MethodGet {
		q := req.URL.Query()
		service = q.Get("service")
		scopes = q["scope"]
		u, p, has := req.BasicAuth()
		if !has {
			anonymous = true
		} else {
			credOK = u == user(service) && p == pw(service)
		}
	} else {
		f, _ := url.ParseQuery(string(body))
		service = f.Get("service")
		if s := f.Get("scope"); s != "" {
			scopes = strings.Split(s, " ")
		}
		switch f.Get("grant_type") {
		case "refresh_token":
			credOK = f.Get("refresh_token") == rtok(service)
		case "password":
			credOK = f.Get("username") == user(service) && f.Get("password") == pw(service)
		}
	}
	r := w.regs[service]
	if r == nil {
		return resp(req, 400, nil, `{"errors":[{"code":"UNKNOWN_SERVICE"}]}`)
	}
	if anonymous && r.CredKind != "none" {
		return resp(req, 401, nil, `{"errors":[{"code":"UNAUTHORIZED","message":"anonymous"}]}`)
	}
	if !anonymous && !credOK {
		return resp(req, 401, nil, `{"errors":[{"code":"UNAUTHORIZED","message":"bad credentials"}]}`)
	}
	w.nmint++
	tk := fmt.Sprintf("TK~%s~%d", service, w.nmint)
	id, _ := req.Context().Value(callIDKey{}).(int)
	w.tokens[tk] = minted{service: service, scopes: canon(scopes), alt: w.redirectedFrom[id]}
	if req.Method == http.MethodGet {
		return resp(req, 200, http.Header{"Content-Type": []string{"application/json"}}, fmt.Sprintf(`{"token":%q}`, tk))
	}
	return resp(req, 200, http.Header{"Content-Type": []string{"application/json"}}, fmt.Sprintf(`{"access_token":%q}`, tk))
}

// secretsOf lists marker -> owning registry host.
func (w *world) secretOwner(s string) (string, bool) {
	for h := range w.regs {
		if strings.Contains(s, pw(h)) || strings.Contains(s, rtok(h)) || strings.Contains(s, atok(h)) {
			return h, true
		}
	}
	return "", false
}

// checkConfinement scans every observed request for secrets out of place.
func (w *world) checkConfinement() *vt.Fail {
	w.mu.Lock()
	defer w.mu.Unlock()
	for i, sr := range w.seen {
		texts := []string{sr.auth, sr.body, sr.query, sr.path}
		if strings.HasPrefix(sr.auth, "Basic ") {
			if b, err := base64.StdEncoding.DecodeString(strings.TrimPrefix(sr.auth, "Basic ")); err == nil {
				texts = append(texts, string(b))
			}
		}
		if strings.HasPrefix(sr.auth, "Bearer ") {
			// something else dressed up as a bearer token (e.g. cached Basic credentials)
			tk := strings.TrimPrefix(sr.auth, "Bearer ")
			if b, err := base64.StdEncoding.DecodeString(tk); err == nil {
				texts = append(texts, string(b))
			}
			if !strings.HasPrefix(tk, "TK~") && !strings.HasPrefix(tk, "AT~") {
				return vt.Failf("C16/unknown-token", "request %d to %s presents as bearer token something that is neither a token minted by a token service nor a configured access token: %q", i, sr.host, tk)
			}
		}
		if uq, err := url.QueryUnescape(sr.body); err == nil {
			texts = append(texts, uq)
		}
		if uq, err := url.QueryUnescape(sr.query); err == nil {
			texts = append(texts, uq)
		}
		all := strings.Join(texts, "\n")
		for h, r := range w.regs {
			// long-term secrets of h
			for _, secret := range []string{pw(h), rtok(h)} {
				if !strings.Contains(all, secret) {
					continue
				}
				switch {
				case sr.host == h && !sr.isRealm && strings.HasPrefix(sr.auth, "Basic "):
					if !w.basicChallenged[h] {
						return vt.Failf("C16/basic-credentials-before-challenge", "request %d to %s carried Basic credentials although %s never challenged with Basic", i, sr.host, h)
					}
				case sr.isRealm && w.advertised[h][sr.host]:
					// to the token realm that h itself advertised
				default:
					return vt.Failf("C16/secret-sent-elsewhere", "request %d to host %s (path %s) carries the password/refresh token of registry %s (realm advertised by %s: %v)", i, sr.host, sr.path, h, h, keys(w.advertised[h]))
				}
			}
			if strings.Contains(all, atok(h)) {
				if !(sr.host == h && !sr.isRealm && strings.HasPrefix(sr.auth, "Bearer ")) {
					return vt.Failf("C16/access-token-sent-elsewhere", "request %d to host %s carries the access token of registry %s", i, sr.host, h)
				}
			}
			_ = r
		}
		if strings.HasPrefix(sr.auth, "Bearer TK~") {
			tk := strings.TrimPrefix(sr.auth, "Bearer ")
			m, ok := w.tokens[tk]
			if !ok {
				return vt.Failf("C16/unknown-token", "request %d to %s presents a token nobody minted: %s", i, sr.host, tk)
			}
			if (m.service != sr.host && m.alt != sr.host) || sr.isRealm {
				return vt.Failf("C16/token-sent-to-other-host", "request %d to host %s presents a bearer token minted for registry %s", i, sr.host, m.service)
			}
		}
		if strings.HasPrefix(sr.auth, "Basic ") && !sr.isRealm {
			if b, err := base64.StdEncoding.DecodeString(strings.TrimPrefix(sr.auth, "Basic ")); err == nil {
				if h, ok := w.secretOwner(string(b)); ok && h != sr.host {
					return vt.Failf("C16/basic-token-sent-to-other-host", "request %d to host %s carries the Basic credentials of %s", i, sr.host, h)
				}
			}
		}
	}
	return nil
}

func keys(m map[string]bool) []string {
	var out []string
	for k := range m {
		out = append(out, k)
	}
	sort.Strings(out)
	return out
}

func runCase(c Case) (res vt.Result, fail *vt.Fail) {
	fin, dump := vt.Watch(60*time.Second, func() { res, fail = runInner(c) })
	if !fin {
		vt.ReportHang("main", vt.MustJSON(c), vt.Failf("C16/hang", "auth client calls did not return"), dump)
	}
	return res, fail
}

func runInner(c Case) (res vt.Result, fail *vt.Fail) {
	w := &world{c: &c, regs: map[string]*RegSpec{}, count: map[string]int{}, tokens: map[string]minted{}, expired: map[string]bool{}, advertised: map[string]map[string]bool{}, basicChallenged: map[string]bool{}, switched: map[string]bool{}, redirectedFrom: map[int]string{}}
	for i := range c.Regs {
		w.regs[c.Regs[i].Host] = &c.Regs[i]
	}
	var tr http.RoundTripper = w
	if c.OverRetry {
		rt := retry.NewTransport(w)
		tr = rt
	}
	cl := &auth.Client{Client: &http.Client{Transport: tr}, ForceAttemptOAuth2: c.OAuth2}
	switch c.Cache {
	case "shared":
		cl.Cache = auth.NewCache()
	case "single":
		cl.Cache = auth.NewSingleContextCache()
	default:
		cl.Cache = nil
	}
	cl.Credential = func(ctx context.Context, hostport string) (auth.Credential, error) {
		if _, doomed := ctx.Deadline(); doomed && ctx.Value(doomAtBodyKey{}) == nil {
			// a slow credential store: the caller's deadline passes first
			<-ctx.Done()
			return auth.EmptyCredential, ctx.Err()
		}
		r := w.regs[hostport]
		if r == nil {
			return auth.EmptyCredential, nil
		}
		switch r.CredKind {
		case "userpass":
			return auth.Credential{Username: user(hostport), Password: pw(hostport)}, nil
		case "refresh":
			return auth.Credential{RefreshToken: rtok(hostport)}, nil
		case "access":
			return auth.Credential{AccessToken: atok(hostport)}, nil
		}
		return auth.EmptyCredential, nil
	}
	callID := 0
	covered := map[string]map[string]bool{} // host -> canonical scope sets a valid token was minted for
	hostsTouched := map[string]bool{}
	cacheHit, rechallenge, mixedOverlap := false, false, false
	leader := map[int]bool{} // call ids that run with a doomed context
	sharedHeader := http.Header{"User-Agent": []string{"verif-caller"}}
	doOne := func(a Act, id int) (*http.Response, error) {
		r := c.Regs[a.Host]
		ctx := context.WithValue(context.Background(), callIDKey{}, id)
		if a.LeaderDeadline && leader[id] {
			var cancel context.CancelFunc
			if a.LeaderAtBody {
				ctx = context.WithValue(ctx, doomAtBodyKey{}, true)
			}
			ctx, cancel = context.WithTimeout(ctx, 15*time.Millisecond)
			defer cancel()
		}
		if len(a.Hints) > 0 {
			if a.HintMode == 0 {
				ctx = auth.WithScopes(ctx, a.Hints...)
			} else {
				ctx = auth.WithScopesForHost(ctx, r.Host, a.Hints...)
			}
		}
		var body io.Reader
		if a.Body == 1 {
			body = bytes.NewReader([]byte("payload-" + fmt.Sprint(id)))
		}
		req, err := http.NewRequestWithContext(ctx, a.Method, "https://"+r.Host+a.Path, body)
		if err != nil {
			return nil, err
		}
		if c.ShareHeader && a.Kind == "do" {
			req.Header = sharedHeader // (single calls only: a map is not for concurrent use)
		}
		return cl.Do(req)
	}
	credValid := func(r RegSpec) bool {
		// can this registry be satisfied with the configured credential kind?
		schemes := []string{r.Scheme}
		if r.Scheme2 != "" {
			schemes = append(schemes, r.Scheme2)
		}
		for _, s := range schemes {
			switch s {
			case "basic":
				if r.CredKind != "userpass" {
					return false
				}
			case "oauth2":
				if r.CredKind == "none" || r.CredKind == "access" {
					return false
				}
			}
		}
		return true
	}
	for i, a := range c.Acts {
		w.mu.Lock()
		for _, rg := range c.Regs {
			if rg.Scheme2 != "" && i >= rg.SwitchAt && !w.switched[rg.Host] {
				w.switched[rg.Host] = true
				rechallenge = true
			}
		}
		w.mu.Unlock()
		r := c.Regs[a.Host]
		hostsTouched[r.Host] = true
		switch a.Kind {
		case "expire":
			w.mu.Lock()
			for tk, m := range w.tokens {
				if m.service == r.Host {
					w.expired[tk] = true
				}
			}
			w.mu.Unlock()
			rechallenge = true
			delete(covered, r.Host)
			continue
		case "do", "burst":
			k := 1
			if a.Kind == "burst" {
				k = a.K
			}
			w.mu.Lock()
			start := len(w.seen)
			if k > 1 {
				w.n401 = 0
				w.gateUntil401 = k
				w.tokBarrier, w.tokWaiting = 0, 0
				if a.Mixed {
					w.tokBarrier = min(k, len(mixedTargets))
				}
			} else {
				w.gateUntil401 = 0
			}
			w.mu.Unlock()
			type out struct {
				resp *http.Response
				err  error
			}
			outs := make([]out, k)
			var wg sync.WaitGroup
			for g := 0; g < k; g++ {
				callID++
				id := callID
				if a.LeaderDeadline && k > 1 {
					if g == 0 {
						leader[id] = true
					} else if g == 1 {
						time.Sleep(4 * time.Millisecond) // the leader is in its lookup by now
					}
				}
				wg.Add(1)
				go func(g, id int) {
					defer wg.Done()
					ag := a
					if a.Mixed {
						tg := mixedTargets[(g+a.K)%len(mixedTargets)]
						ag.Path, ag.Method, ag.Body = tg.path, tg.method, 0
					}
					rs, err := doOne(ag, id)
					outs[g] = out{rs, err}
				}(g, id)
			}
			wg.Wait()
			w.mu.Lock()
			w.gateUntil401 = 0
			reqs := append([]seenReq(nil), w.seen[start:]...)
			w.mu.Unlock()
			// per-call protocol bounds
			perCallReg := map[int]int{}
			perCallTok := map[int]int{}
			tokFetches := 0
			for _, sr := range reqs {
				if sr.isRealm {
					perCallTok[sr.callID]++
					tokFetches++
				} else if sr.host == r.Host {
					perCallReg[sr.callID]++
				}
			}
			if start > 0 && tokFetches == 0 && k == 1 {
				cacheHit = true
			}
			for id, n := range perCallReg {
				if n > 3 {
					return res, vt.Failf("C16/too-many-sends", "action %d: call %d sent %d requests to registry %s (at most 3 allowed)", i, id, n, r.Host)
				}
			}
			for id, n := range perCallTok {
				if n > 1 {
					return res, vt.Failf("C16/too-many-token-fetches", "action %d: call %d fetched %d tokens", i, id, n)
				}
			}
			for g, o := range outs {
				if a.LeaderDeadline && k > 1 && g == 0 {
					// the doomed caller may fail (with its own deadline); nothing else
					if o.err == nil {
						o.resp.Body.Close()
					}
					res.Classes = append(res.Classes, "burst-led-by-a-caller-whose-deadline-expires")
					continue
				}
				if o.err != nil {
					if credValid(r) && r.Redirect == "" {
						return res, vt.Failf("C16/request-failed-with-valid-credentials", "action %d call %d to %s%s: %v", i, g, r.Host, a.Path, o.err)
					}
					continue
				}
				st := o.resp.StatusCode
				o.resp.Body.Close()
				redirectedElsewhere := r.Redirect != "" && strings.Contains(a.Path, "/blobs/sha256:")
				if st == 401 && credValid(r) && !redirectedElsewhere && !(r.CredKind == "none" && w.scheme(&r) != "none" && false) {
					return res, vt.Failf("C16/ends-with-401", "action %d call %d to %s%s ended with 401 although the configured credentials are valid for %s (scheme %s)", i, g, r.Host, a.Path, r.Host, r.Scheme)
				}
			}
			// coalescing: a burst against a bearer registry with a shared cache needs
			// one token fetch (two tolerated for a straggler that arrives after the
			// first fetch completed and before its result was stored)
			sch := r.Scheme
			if r.BasicLib && strings.HasPrefix(a.Path, "/v2/lib/") && !a.Mixed {
				sch = "basic" // this path of the registry speaks Basic
			}
			if a.Mixed && k > 1 {
				res.Classes = append(res.Classes, "burst-with-different-scope-sets")
				if r.Enforce && (sch == "bearer" || sch == "oauth2") {
					res.Classes = append(res.Classes, "burst-with-different-scope-sets-at-enforcing-registry-cache-"+c.Cache)
					if tokFetches >= 2 {
						mixedOverlap = true
					}
				}
			}
			if a.LeaderAtBody {
				// the doomed caller's own fetch does not count
				for id, n := range perCallTok {
					if leader[id] {
						tokFetches -= n
						res.Classes = append(res.Classes, "leader-deadline-expired-in-token-body")
					}
				}
			}
			if k >= 3 && !a.Mixed && (sch == "bearer" || sch == "oauth2") && r.Scheme2 == "" && !r.BasicLib && c.Cache == "shared" && r.CredKind != "access" {
				if tokFetches > 2 {
					return res, vt.Failf("C16/token-fetch-not-shared", "action %d: a burst of %d equal requests to %s caused %d token fetches", i, k, r.Host, tokFetches)
				}
				res.Classes = append(res.Classes, "burst-coalescing-checked")
			}
			// order-insensitive reuse: once a token exists for a canonical scope set, a
			// later call whose hints + challenge scopes canonicalise to the same set
			// (in whatever order or duplication) must be served from the cache
			if k == 1 && c.Cache == "shared" && (sch == "bearer" || sch == "oauth2") && r.Scheme2 == "" && !r.BasicLib && r.CredKind != "access" && r.Redirect == "" && wellFormed(a.Hints) && outs[0].err == nil {
				key := fmt.Sprint(canon(append(append([]string(nil), a.Hints...), strings.Fields(challengeFor(&r, a.Path, a.Method))...)))
				if covered[r.Host][key] && tokFetches > 0 {
					return res, vt.Failf("C16/token-not-reused-for-equal-scope-set", "action %d: a token for host %s and scope set %s was already cached, but this call (hints %v, challenge %q) fetched a new one", i, r.Host, key, a.Hints, r.Challenge)
				}
				if covered[r.Host] == nil {
					covered[r.Host] = map[string]bool{}
				}
				covered[r.Host][key] = true
			}
			// token reuse: the bearer token on the last successful request of each call
			// was minted for canonical(hints + challenge scopes)
			// (the single-context cache is documented to fall back to a per-host token
			// whatever the scopes; the scope-set rule is judged for NewCache and no cache)
			if (sch == "bearer" || sch == "oauth2") && r.Scheme2 == "" && !r.BasicLib && r.CredKind != "access" && c.Cache != "single" {
				w.mu.Lock()
				for _, sr := range reqs {
					if sr.host != r.Host || sr.isRealm || !strings.HasPrefix(sr.auth, "Bearer TK~") {
						continue
					}
					want := canon(append(append([]string(nil), a.Hints...), strings.Fields(challengeFor(&r, sr.path, sr.method))...))
					m := w.tokens[strings.TrimPrefix(sr.auth, "Bearer ")]
					if m.alt != "" || w.redirectedFrom[sr.callID] != "" {
						continue // a challenge of this call arrived via a cross-host redirect
					}
					okScopes := fmt.Sprint(m.scopes) == fmt.Sprint(want) || fmt.Sprint(m.scopes) == fmt.Sprint(canon(a.Hints))
					if !okScopes && !wellFormed(a.Hints) {
						okScopes = true
					}
					if !okScopes {
						w.mu.Unlock()
						return res, vt.Failf("C16/token-reused-for-other-scopes", "action %d: request to %s presented a token minted for scopes %v; hints %v + challenge %q canonicalise to %v", i, r.Host, m.scopes, a.Hints, challengeFor(&r, sr.path, sr.method), want)
					}
				}
				w.mu.Unlock()
			}
		}
		if f := w.checkConfinement(); f != nil {
			return res, f
		}
	}
	res.NonTrivial = (len(hostsTouched) >= 2 && c.Cache == "shared" && cacheHit && rechallenge) || (mixedOverlap && c.Cache != "none")
	res.Classes = append(res.Classes, "cache-"+c.Cache)
	if cacheHit {
		res.Classes = append(res.Classes, "cache-hit")
	}
	if w.viaRedirect {
		res.Classes = append(res.Classes, "challenge-through-cross-host-redirect(realm-confinement-not-judged)")
	}
	if rechallenge {
		res.Classes = append(res.Classes, "re-challenge")
	}
	return res, nil
}

func wellFormed(scopes []string) bool {
	for _, s := range scopes {
		if strings.Count(s, ":") < 2 {
			return false
		}
	}
	return true
}

// ---------------------------------------------------------------------------------
// CleanScopes as a pure function

type ScopeCase struct {
	Scopes []string `json:"scopes"`
	Perm   []int    `json:"perm"`
}

func genScopes(t *rapid.T) ScopeCase {
	n := rapid.IntRange(0, 8).Draw(t, "n")
	var c ScopeCase
	for i := 0; i < n; i++ {
		typ := rapid.SampledFrom([]string{"repository", "registry"}).Draw(t, "typ")
		name := rapid.SampledFrom([]string{"app", "lib/base", "catalog", "host:5000/app"}).Draw(t, "name")
		k := rapid.IntRange(1, 3).Draw(t, "nActions")
		var as []string
		for j := 0; j < k; j++ {
			as = append(as, rapid.SampledFrom([]string{"pull", "push", "delete", "*"}).Draw(t, "action"))
		}
		c.Scopes = append(c.Scopes, typ+":"+name+":"+strings.Join(as, ","))
	}
	idx := make([]int, n)
	for i := range idx {
		idx[i] = i
	}
	c.Perm = rapid.Permutation(idx).Draw(t, "perm")
	return c
}

func runScopes(c ScopeCase) (res vt.Result, fail *vt.Fail) {
	in := append([]string(nil), c.Scopes...)
	got := auth.CleanScopes(append([]string(nil), in...))
	want := canon(in)
	res.NonTrivial = len(in) >= 2
	if fmt.Sprint(got) != fmt.Sprint(want) && !(len(got) == 0 && len(want) == 0) {
		return res, vt.Failf("C16/cleanscopes-differs", "CleanScopes(%v) = %v, reference normaliser gives %v", in, got, want)
	}
	again := auth.CleanScopes(append([]string(nil), got...))
	if fmt.Sprint(again) != fmt.Sprint(got) {
		return res, vt.Failf("C16/cleanscopes-not-idempotent", "CleanScopes(%v) = %v", got, again)
	}
	var perm []string
	for _, i := range c.Perm {
		if i < len(in) {
			perm = append(perm, in[i])
		}
	}
	pg := auth.CleanScopes(perm)
	if fmt.Sprint(pg) != fmt.Sprint(got) {
		return res, vt.Failf("C16/cleanscopes-order-sensitive", "CleanScopes of a permutation %v = %v, original order gives %v", perm, pg, got)
	}
	return res, nil
}

func TestMain(m *testing.M) {
	vt.ReplayRepeat["mixed"] = 300
	vt.Main(m, "C16",
		vt.NewLeg("main", 1200, 4000, 16, genCase, runCase),
		vt.NewLeg("scopes", 5000, 20000, 4, genScopes, runScopes),
		vt.NewLeg("mixed", 300, 1500, 8, genMixed, runCase),
	)
}

func TestLegs(t *testing.T)   { vt.TestLegs(t) }
func TestReplay(t *testing.T) { vt.TestReplay(t) }
