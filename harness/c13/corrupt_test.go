package c13

import (
	"bytes"
	"context"
	"fmt"
	"io"
	"net/http"
	"strconv"
	"strings"

	ocispec "github.com/opencontainers/image-spec/specs-go/v1"
	"oras.land/oras-go/v2/content"
	"pgregory.net/rapid"

	"verif/harness/gen"
	"verif/harness/regmodel"
	"verif/harness/vt"
)

// CorruptCase: one passing action replayed with one response field corrupted.
type CorruptCase struct {
	Manifest        bool   `json:"manifest"`
	Seed            int    `json:"seed"`
	Size            int    `json:"size"`
	Op              string `json:"op"`      // fetch, fetchref-tag, fetchref-digest, resolve-digest, resolve-tag, exists, delete, push, mount, seek
	Corrupt         string `json:"corrupt"` // digest-other, digest-malformed, length-short, length-long, ctype-other, body-flip, no-digest, status-200
	Ranges          bool   `json:"ranges"`
	NoDigestProfile bool   `json:"noDigestProfile,omitempty"`
}

var corruptOps = []string{"fetch", "fetch", "fetchref-tag", "fetchref-digest", "resolve-digest", "resolve-tag", "exists", "delete", "push", "mount", "seek"}

func genCorrupt(t *rapid.T) CorruptCase {
	c := CorruptCase{Manifest: rapid.Bool().Draw(t, "manifest"), Seed: rapid.IntRange(0, 9).Draw(t, "seed"), Size: rapid.IntRange(4, 300).Draw(t, "size")}
	c.Op = rapid.SampledFrom(corruptOps).Draw(t, "op")
	c.Ranges = rapid.Bool().Draw(t, "ranges")
	switch c.Op {
	case "fetch":
		cs := []string{"digest-other", "digest-malformed", "length-short", "length-long", "body-flip"}
		if c.Manifest {
			cs = append(cs, "ctype-other")
		}
		c.Corrupt = rapid.SampledFrom(cs).Draw(t, "corrupt")
	case "fetchref-tag":
		c.Manifest = true
		c.Corrupt = rapid.SampledFrom([]string{"digest-other", "body-flip", "digest-malformed"}).Draw(t, "corrupt")
	case "fetchref-digest":
		c.Corrupt = rapid.SampledFrom([]string{"digest-other", "digest-malformed", "body-flip"}).Draw(t, "corrupt")
	case "resolve-digest", "exists":
		c.Corrupt = rapid.SampledFrom([]string{"digest-other", "digest-malformed"}).Draw(t, "corrupt")
	case "resolve-tag":
		c.Manifest = true
		c.Corrupt = rapid.SampledFrom([]string{"no-digest", "digest-malformed"}).Draw(t, "corrupt")
	case "delete":
		c.Corrupt = rapid.SampledFrom([]string{"digest-other", "digest-malformed"}).Draw(t, "corrupt")
	case "push":
		c.Manifest = true
		c.Corrupt = rapid.SampledFrom([]string{"digest-other", "digest-malformed"}).Draw(t, "corrupt")
	case "mount":
		c.Manifest = false
		c.Corrupt = rapid.SampledFrom([]string{"digest-other", "digest-malformed"}).Draw(t, "corrupt")
	case "seek":
		c.Manifest = false
		c.Ranges = true
		c.Corrupt = "status-200"
	}
	return c
}

func runCorrupt(c CorruptCase) (res vt.Result, fail *vt.Fail) {
	ctx := context.Background()
	var body []byte
	mt := gen.MTOctet
	if c.Manifest {
		d := gen.Build([]gen.NodeSpec{{Kind: gen.KBlob, Seed: c.Seed, Size: c.Size, MT: gen.MTConfig}, {Kind: gen.KImage, Config: &gen.Ref{N: 0}, Ann: map[string]string{"pad": strings.Repeat("p", c.Size)}}})
		body, mt = d.Nodes[1].Bytes, gen.MTImage
	} else {
		body = gen.BlobBytes(c.Seed, c.Size)
	}
	desc := ocispec.Descriptor{MediaType: mt, Digest: digestOf(body), Size: int64(len(body))}
	other := regmodel.DigestOf("sha256", append([]byte("x"), body...))
	cc := Case{P: regmodel.Profile{AcceptRanges: c.Ranges, MountCreated: true}}
	e, f := newEnv(&cc)
	if f != nil {
		return res, f
	}
	reg := e.reg
	rp := reg.Repo(repoName)
	if c.Op != "push" && c.Op != "mount" {
		if c.Manifest {
			rp.Manifests[desc.Digest.String()] = &regmodel.Manifest{Bytes: body, MediaType: mt}
			rp.Tags["latest"] = desc.Digest.String()
		} else {
			rp.Blobs[desc.Digest.String()] = body
		}
	}
	if c.Op == "mount" {
		reg.Repo(sibling).Blobs[desc.Digest.String()] = body
	}
	// which response to corrupt
	wantMethod := map[string]string{"fetch": "GET", "fetchref-tag": "GET", "fetchref-digest": "GET", "resolve-digest": "HEAD", "resolve-tag": "HEAD", "exists": "HEAD", "delete": "DELETE", "push": "PUT", "mount": "POST", "seek": "GET"}[c.Op]
	applied := false
	reg.Post = func(req *http.Request, resp *http.Response) *http.Response {
		if req.Method != wantMethod || applied {
			return resp
		}
		if c.Op == "seek" && req.Header.Get("Range") == "" {
			return resp
		}
		if resp.StatusCode >= 300 {
			return resp
		}
		applied = true
		switch c.Corrupt {
		case "digest-other":
			resp.Header.Set("Docker-Content-Digest", other)
		case "digest-malformed":
			resp.Header.Set("Docker-Content-Digest", "sha256:zz")
		case "no-digest":
			resp.Header.Del("Docker-Content-Digest")
		case "length-short":
			resp.ContentLength = int64(len(body)) - 1
			resp.Header.Set("Content-Length", strconv.Itoa(len(body)-1))
			resp.Body = io.NopCloser(bytes.NewReader(body[:len(body)-1]))
		case "length-long":
			resp.ContentLength = int64(len(body)) + 1
			resp.Header.Set("Content-Length", strconv.Itoa(len(body)+1))
			resp.Body = io.NopCloser(bytes.NewReader(append(append([]byte(nil), body...), 'x')))
		case "ctype-other":
			resp.Header.Set("Content-Type", gen.MTIndex)
		case "body-flip":
			b := append([]byte(nil), body...)
			b[len(b)/2] ^= 1
			resp.Body = io.NopCloser(bytes.NewReader(b))
		case "status-200":
			resp.StatusCode, resp.Status = 200, "200 OK"
			resp.Body = io.NopCloser(bytes.NewReader(body))
			resp.ContentLength = int64(len(body))
		}
		return resp
	}
	res.NonTrivial = true
	res.Classes = []string{"op-" + c.Op, "corrupt-" + c.Corrupt}
	bad := func(what string) *vt.Fail {
		return vt.Failf("C13/inconsistent-response-accepted", "%s with response corruption %q: %s", c.Op, c.Corrupt, what)
	}
	consistent := func(d ocispec.Descriptor, rc io.ReadCloser) *vt.Fail {
		defer rc.Close()
		if _, err := content.ReadAll(rc, d); err == nil && (d.Digest != desc.Digest || c.Corrupt == "body-flip") {
			return bad(fmt.Sprintf("returned descriptor %s with a body that verifies against it, although the registry holds %s", d.Digest, desc.Digest))
		}
		return nil
	}
	switch c.Op {
	case "fetch":
		rc, err := e.repo.Fetch(ctx, desc)
		if err == nil {
			if c.Corrupt != "body-flip" {
				// a digest header, length or media type that contradicts the request
				// must make the call itself fail
				rc.Close()
				return res, bad("Fetch returned a reader")
			}
			if f := consistent(desc, rc); f != nil {
				return res, f
			}
		}
	case "fetchref-tag", "fetchref-digest":
		ref := "latest"
		if c.Op == "fetchref-digest" {
			ref = desc.Digest.String()
		}
		var d ocispec.Descriptor
		var rc io.ReadCloser
		var err error
		if c.Manifest {
			d, rc, err = e.repo.FetchReference(ctx, ref)
		} else {
			d, rc, err = e.repo.Blobs().(interface {
				FetchReference(context.Context, string) (ocispec.Descriptor, io.ReadCloser, error)
			}).FetchReference(ctx, ref)
		}
		if err == nil {
			if c.Op == "fetchref-digest" && c.Corrupt != "body-flip" {
				rc.Close()
				return res, bad("FetchReference by digest returned " + d.Digest.String())
			}
			if f := consistent(d, rc); f != nil {
				return res, f
			}
		}
	case "resolve-digest":
		var err error
		if c.Manifest {
			_, err = e.repo.Resolve(ctx, desc.Digest.String())
		} else {
			_, err = e.repo.Blobs().Resolve(ctx, desc.Digest.String())
		}
		if err == nil {
			return res, bad("Resolve by digest succeeded")
		}
	case "resolve-tag":
		d, err := e.repo.Resolve(ctx, "latest")
		if err == nil && d.Digest != desc.Digest {
			return res, bad("Resolve(tag) returned digest " + d.Digest.String())
		}
		if err == nil && c.Corrupt == "digest-malformed" {
			return res, bad("Resolve(tag) accepted a malformed digest header")
		}
	case "exists":
		ok, err := e.repo.Exists(ctx, desc)
		if err == nil {
			return res, bad(fmt.Sprintf("Exists returned %v without error", ok))
		}
	case "delete":
		if err := e.repo.Delete(ctx, desc); err == nil {
			return res, bad("Delete succeeded")
		}
	case "push":
		if err := e.repo.Push(ctx, desc, bytes.NewReader(body)); err == nil {
			return res, bad("Push of a manifest succeeded although the registry reported another digest")
		}
	case "mount":
		if err := e.repo.Mount(ctx, desc, sibling, nil); err == nil {
			return res, bad("Mount succeeded although the registry reported another digest")
		}
	case "seek":
		rc, err := e.repo.Fetch(ctx, desc)
		if err != nil {
			return res, vt.Failf("C13/fetch-failed", "%v", err)
		}
		defer rc.Close()
		rs, ok := rc.(io.ReadSeeker)
		if !ok {
			return res, vt.Failf("C13/not-seekable", "blob reader is not seekable although Accept-Ranges is announced")
		}
		if _, err := rs.Seek(2, io.SeekStart); err == nil {
			b, _ := io.ReadAll(rs)
			if !bytes.Equal(b, body[2:]) {
				return res, bad("Seek accepted a 200 response to a ranged request and now reads from the wrong offset")
			}
		}
	}
	if !applied {
		res.Classes = append(res.Classes, "corruption-not-reached")
		res.NonTrivial = false
	}
	return res, nil
}
