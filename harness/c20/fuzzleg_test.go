package c20

import (
	"testing"

	"verif/harness/vt"
)

// FuzzGrammar drives the "grammar" leg's generator with the native fuzzer's bytes
// (rapid.MakeFuzz); the leg's runner is the oracle. Thorough tier only.
func FuzzGrammar(f *testing.F) { vt.FuzzLeg(f, "grammar") }
