package c10

import (
	"bytes"
	"context"
	"encoding/base64"
	"encoding/json"
	"fmt"
	"os"
	"path/filepath"
	"sort"
	"strings"
	"sync"
	"testing"

	ocispec "github.com/opencontainers/image-spec/specs-go/v1"
	"oras.land/oras-go/v2/content/oci"
	"pgregory.net/rapid"

	"verif/harness/crash"
	"verif/harness/fsx"
	"verif/harness/gen"
	"verif/harness/vt"
)

// POp is a scripted operation over the DAG universe.
type POp struct {
	Op  string `json:"op"` // push, tag, untag, delete, gc, save
	N   int    `json:"n,omitempty"`
	Ref string `json:"ref,omitempty"`
	// Ann (tag): the tagged descriptor carries annotations (see crash.Op.Ann)
	Ann bool `json:"ann,omitempty"`
}

// Case is a prefix history plus one interrupted operation.
type Case struct {
	Specs   []gen.NodeSpec `json:"specs"`
	Big     bool           `json:"big,omitempty"` // node 0 is a blob > 1 MiB
	Prefix  []POp          `json:"prefix"`
	Last    POp            `json:"last"`
	AutoGC  bool           `json:"autoGC"`
	Cascade bool           `json:"cascade,omitempty"` // the final Delete's auto-GC removes further manifests
}

var refs = []string{"latest", "v1", "sig"}

func genCaseSeeded(seed int) Case {
	return rapid.Custom(func(t *rapid.T) Case {
		o := gen.DAGOpts{MaxNodes: 8, Referrers: true, NoBigBlobs: true, NoAbsent: true, NoForeign: true, SingleMT: true, OnlySHA256: rapid.Bool().Draw(t, "sha256only")}
		c := Case{Specs: gen.Specs(t, o), AutoGC: rapid.IntRange(0, 3).Draw(t, "autoGC") != 0}
		c.Big = rapid.IntRange(0, 5).Draw(t, "big") == 0
		d := gen.Build(c.Specs)
		ids := d.CanonIDs()
		stored := map[int]bool{}
		tags := map[string]int{}
		np := rapid.IntRange(0, 12).Draw(t, "nPrefix")
		if rapid.IntRange(0, 3).Draw(t, "fullGraph") == 0 {
			// everything is stored, referrers stay untagged: deletions cascade
			for _, n := range ids {
				c.Prefix = append(c.Prefix, POp{Op: "push", N: n})
				stored[n] = true
			}
			for _, n := range ids {
				isReferrer := false
				for _, ed := range d.Nodes[n].Edges {
					if ed.Role == "subject" {
						isReferrer = true
					}
				}
				if !isReferrer && d.IsManifest(n) && rapid.IntRange(0, 2).Draw(t, "tagRoot") == 0 {
					ref := rapid.SampledFrom(refs).Draw(t, "rootRef")
					c.Prefix = append(c.Prefix, POp{Op: "tag", N: n, Ref: ref})
					tags[ref] = n
				}
			}
			np = rapid.IntRange(0, 3).Draw(t, "nPrefixAfterFull")
		}
		for i := 0; i < np; i++ {
			switch r := rapid.IntRange(0, 9).Draw(t, "pop"); {
			case r < 6:
				n := rapid.SampledFrom(ids).Draw(t, "pushN")
				if !stored[n] {
					c.Prefix = append(c.Prefix, POp{Op: "push", N: n})
					stored[n] = true
				}
			case r < 9:
				n := rapid.SampledFrom(ids).Draw(t, "tagN")
				if stored[n] {
					ref := rapid.SampledFrom(refs).Draw(t, "ref")
					annTags := rapid.Bool().Draw(t, "annTags")
					c.Prefix = append(c.Prefix, POp{Op: "tag", N: n, Ref: ref, Ann: annTags})
					tags[ref] = n
					if rapid.IntRange(0, 2).Draw(t, "secondTag") != 1 {
						// several tags on one node: its deletion rewrites several entries
						ref2 := rapid.SampledFrom(refs).Draw(t, "ref2")
						c.Prefix = append(c.Prefix, POp{Op: "tag", N: n, Ref: ref2, Ann: annTags})
						tags[ref2] = n
						if rapid.Bool().Draw(t, "thirdTag") {
							ref3 := rapid.SampledFrom(refs).Draw(t, "ref3")
							c.Prefix = append(c.Prefix, POp{Op: "tag", N: n, Ref: ref3, Ann: annTags})
							tags[ref3] = n
						}
					}
				}
			default:
				ref := rapid.SampledFrom(refs).Draw(t, "uref")
				if _, ok := tags[ref]; ok {
					c.Prefix = append(c.Prefix, POp{Op: "untag", Ref: ref})
					delete(tags, ref)
				}
			}
		}
		// the interrupted operation, enabled in the prefix's final state
		var cands []POp
		for _, n := range ids {
			if !stored[n] {
				cands = append(cands, POp{Op: "push", N: n})
			} else {
				cands = append(cands, POp{Op: "tag", N: n, Ref: rapid.SampledFrom(refs).Draw(t, "lref")}, POp{Op: "delete", N: n})
			}
		}
		for ref := range tags {
			cands = append(cands, POp{Op: "untag", Ref: ref})
		}
		cands = append(cands, POp{Op: "gc"}, POp{Op: "save"})
		sort.Slice(cands, func(i, j int) bool { return fmt.Sprint(cands[i]) < fmt.Sprint(cands[j]) })
		kinds := []string{"push", "push", "tag", "delete", "delete", "delete", "delete", "untag", "gc", "gc", "save"}
		want := rapid.SampledFrom(kinds).Draw(t, "lastKind")
		var pool []POp
		for _, cd := range cands {
			if cd.Op == want {
				pool = append(pool, cd)
			}
		}
		if len(pool) == 0 {
			pool = cands
		}
		// prefer manifests (their pushes, tags and deletions rewrite index.json)
		var mpool []POp
		for _, cd := range pool {
			if (cd.Op == "push" || cd.Op == "delete" || cd.Op == "tag") && d.IsManifest(cd.N) {
				mpool = append(mpool, cd)
			}
		}
		if len(mpool) > 0 && rapid.IntRange(0, 3).Draw(t, "preferManifest") != 0 {
			pool = mpool
		}
		// prefer deleting / re-tagging nodes that carry tags
		var tpool []POp
		for _, cd := range pool {
			if cd.Op != "delete" && cd.Op != "tag" {
				continue
			}
			k := 0
			for _, n := range tags {
				if n == cd.N {
					k++
				}
			}
			if k >= 2 || (k >= 1 && cd.Op == "delete") {
				tpool = append(tpool, cd)
			}
		}
		if len(tpool) > 0 && rapid.Bool().Draw(t, "preferTagged") {
			pool = tpool
		}
		// deleting a node that carries several tags rewrites several entries at once
		var t2pool []POp
		for _, cd := range tpool {
			k := 0
			for _, n := range tags {
				if n == cd.N {
					k++
				}
			}
			if cd.Op == "delete" && k >= 2 {
				t2pool = append(t2pool, cd)
			}
		}
		if len(t2pool) > 0 && rapid.IntRange(0, 2).Draw(t, "preferMultiTagged") != 1 {
			pool = t2pool
		}
		// prefer deletions whose auto-GC cascade removes further manifests (stored,
		// untagged referrers of the target, or untagged child manifests that only
		// the target lists): several blobs and index entries go in one operation
		var cpool []POp
		parents := d.Parents()
		taggedNode := map[int]bool{}
		for _, n := range tags {
			taggedNode[n] = true
		}
		for _, cd := range pool {
			if cd.Op != "delete" || !d.IsManifest(cd.N) {
				continue
			}
			cascade := 0
			for _, p := range parents[cd.N] {
				if !stored[p] || taggedNode[p] {
					continue
				}
				for _, ed := range d.Nodes[p].Edges {
					if ed.Role == "subject" && ed.To == cd.N {
						cascade++
					}
				}
			}
			for _, ed := range d.Nodes[cd.N].Edges {
				if !d.IsManifest(ed.To) || !stored[ed.To] || taggedNode[ed.To] {
					continue
				}
				others := 0
				for _, p := range parents[ed.To] {
					if p != cd.N && stored[p] {
						others++
					}
				}
				if others == 0 {
					cascade++
				}
			}
			if cascade > 0 {
				cpool = append(cpool, cd)
			}
		}
		if len(cpool) > 0 && rapid.IntRange(0, 3).Draw(t, "preferCascade") != 0 {
			pool = cpool
			c.AutoGC = true
			c.Cascade = true
		}
		c.Last = rapid.SampledFrom(pool).Draw(t, "last")
		return c
	}).Example(seed)
}

func (c *Case) bytesOf(d *gen.DAG, n int) []byte {
	if c.Big && n == 0 && d.Nodes[0].Spec.Kind == gen.KBlob {
		return gen.BlobBytes(77, 1<<20+4096)
	}
	return d.Nodes[n].Bytes
}

func (c *Case) descOf(d *gen.DAG, n int) ocispec.Descriptor {
	if c.Big && n == 0 && d.Nodes[0].Spec.Kind == gen.KBlob {
		b := c.bytesOf(d, 0)
		return ocispec.Descriptor{MediaType: d.Nodes[0].Desc.MediaType, Digest: d.Nodes[0].Desc.Digest.Algorithm().FromBytes(b), Size: int64(len(b))}
	}
	return d.Nodes[n].Desc
}

func (c *Case) toOp(d *gen.DAG, p POp) crash.Op {
	op := crash.Op{Op: p.Op, Ref: p.Ref, Ann: p.Ann}
	if p.Op == "push" || p.Op == "tag" || p.Op == "delete" {
		desc := c.descOf(d, p.N)
		op.MediaType, op.Digest, op.Size = desc.MediaType, desc.Digest.String(), desc.Size
		if p.Op == "push" {
			if c.Big && p.N == 0 && d.Nodes[0].Spec.Kind == gen.KBlob {
				op.Seed, op.GenSize = 77, 1<<20+4096
			} else {
				op.Data = base64.StdEncoding.EncodeToString(d.Nodes[p.N].Bytes)
			}
		}
	}
	return op
}

// state is what the oracle reads from a directory.
type state struct {
	tags   map[string]string // ref -> digest
	exists map[int]bool
}

func readState(c *Case, d *gen.DAG, dir string) (*state, error) {
	ctx := context.Background()
	s, err := oci.New(dir)
	if err != nil {
		return nil, err
	}
	st := &state{tags: map[string]string{}, exists: map[int]bool{}}
	var names []string
	if err := s.Tags(ctx, "", func(t []string) error { names = append(names, t...); return nil }); err != nil {
		return nil, err
	}
	for _, n := range names {
		desc, err := s.Resolve(ctx, n)
		if err != nil {
			return nil, fmt.Errorf("Resolve(%q): %w", n, err)
		}
		st.tags[n] = desc.Digest.String()
	}
	for _, id := range d.CanonIDs() {
		desc := c.descOf(d, id)
		ok, err := s.Exists(ctx, desc)
		if err != nil {
			return nil, err
		}
		if ok {
			b, err := gen.ReadBack(ctx, s, desc)
			if err != nil || !bytes.Equal(b, c.bytesOf(d, id)) {
				return nil, fmt.Errorf("node %d exists but reads back %d bytes (err %v)", id, len(b), err)
			}
			st.exists[id] = true
		}
	}
	return st, nil
}

func tagsEqual(a, b map[string]string) bool {
	if len(a) != len(b) {
		return false
	}
	for k, v := range a {
		if b[k] != v {
			return false
		}
	}
	return true
}

func runCase(c Case, child string) (res vt.Result, fail *vt.Fail) {
	d := gen.Build(c.Specs)
	root := vt.Scratch("c10-")
	defer func() {
		os.RemoveAll(root)
	}()
	dir := filepath.Join(root, "layout")
	r := &crash.Runner{Child: child, Work: root}
	sc := &crash.Script{Kind: "oci", Dir: dir, Marker: filepath.Join(root, "MARK"), AutoGC: c.AutoGC}
	for _, p := range c.Prefix {
		sc.Prefix = append(sc.Prefix, c.toOp(d, p))
	}
	sc.Op = c.toOp(d, c.Last)
	if err := r.RunPlain("prefix", sc); err != nil {
		return res, vt.Failf("harness/prefix", "%v", err)
	}
	snap := filepath.Join(root, "snap")
	if err := fsx.CopyTree(dir, snap); err != nil {
		return res, vt.Failf("harness/snapshot", "%v", err)
	}
	restore := func() error {
		os.RemoveAll(dir)
		os.Remove(sc.Marker)
		return fsx.CopyTree(snap, dir)
	}
	before, err := readState(&c, d, dir)
	if err != nil {
		return res, vt.Failf("harness/before-state", "%v", err)
	}
	if err := restore(); err != nil {
		return res, vt.Failf("harness/restore", "%v", err)
	}
	pts, err := r.Baseline(sc)
	if err != nil {
		return res, vt.Failf("harness/baseline", "%v", err)
	}
	after, err := readState(&c, d, dir)
	if err != nil {
		return res, vt.Failf("C10/completed-op-unreadable", "after the un-interrupted %s the layout does not read back: %v", c.Last.Op, err)
	}
	// what the operations that returned were told to do with the tags is known
	// without looking at the store: both states must show exactly that
	modelTags := func(ops []POp) map[string]string {
		m := map[string]int{}
		for _, p := range ops {
			switch p.Op {
			case "tag":
				m[p.Ref] = d.Nodes[p.N].Canon
			case "untag":
				delete(m, p.Ref)
			case "delete":
				for r, n := range m {
					if d.Nodes[n].DCanon == d.Nodes[d.Nodes[p.N].Canon].DCanon {
						delete(m, r)
					}
				}
			}
		}
		out := map[string]string{}
		for r, n := range m {
			out[r] = c.descOf(d, n).Digest.String()
		}
		return out
	}
	if want := modelTags(c.Prefix); !tagsEqual(before.tags, want) {
		return res, vt.Failf("C10/returned-effect-lost", "after the prefix %v returned, the reopened layout maps tags %v; the operations set %v", c.Prefix, short(before.tags), short(want))
	}
	if want := modelTags(append(append([]POp(nil), c.Prefix...), c.Last)); !tagsEqual(after.tags, want) {
		return res, vt.Failf("C10/returned-effect-lost", "after the prefix and %v returned, the reopened layout maps tags %v; the operations set %v", c.Last, short(after.tags), short(want))
	}
	if probs := fsx.ValidateLayout(dir, false); len(probs) > 0 {
		return res, vt.Failf("C10/layout-invalid-after-completion/"+probs[0].Kind, "after the un-interrupted %v: %v", c.Last, probs)
	}
	changes := !tagsEqual(before.tags, after.tags) || fmt.Sprint(before.exists) != fmt.Sprint(after.exists)
	res.Evals = len(pts)
	res.Classes = []string{"interrupted-" + c.Last.Op}
	if c.Big {
		res.Classes = append(res.Classes, "blob-over-1MiB")
	}
	for k, pt := range pts {
		if err := restore(); err != nil {
			return res, vt.Failf("harness/restore", "%v", err)
		}
		killed, err := r.RunKilled(sc, pt)
		if err != nil {
			return res, vt.Failf("harness/run-killed", "%v", err)
		}
		if !killed {
			continue
		}
		where := fmt.Sprintf("%s killed before syscall %d/%d [%s]", c.Last.Op, k+1, len(pts), pt.Line)
		if k > 0 && k < len(pts)-1 && changes {
			res.SubNonTrivial = append(res.SubNonTrivial, fmt.Sprintf("%s#%d", vt.MustJSON(c), k))
		}
		// 1. the directory opens again
		got, err := readState(&c, d, dir)
		if err != nil {
			key := "C10/layout-unreadable-after-crash"
			if idx, rerr := os.ReadFile(filepath.Join(dir, "index.json")); rerr == nil {
				var tmp any
				if json.Unmarshal(idx, &tmp) != nil {
					key = "C10/index-json-truncated"
				}
			}
			return res, vt.Failf(key, "%s: %v", where, err)
		}
		if _, err := oci.NewFromFS(context.Background(), os.DirFS(dir)); err != nil {
			return res, vt.Failf("C10/layout-unreadable-after-crash", "%s: NewFromFS: %v", where, err)
		}
		// 2. blobs complete, index entries name existing blobs
		if probs := fsx.ValidateLayout(dir, true); len(probs) > 0 {
			return res, vt.Failf("C10/layout-invalid-after-crash/"+probs[0].Kind, "%s: %v", where, probs)
		}
		// 3. tag mapping is the old or the new one
		if !tagsEqual(got.tags, before.tags) && !tagsEqual(got.tags, after.tags) {
			return res, vt.Failf("C10/tag-mapping-half-updated", "%s: tags %v are neither the mapping before (%v) nor after (%v) the operation", where, short(got.tags), short(before.tags), short(after.tags))
		}
		// 4. effects of operations that had returned are present
		for id := range before.exists {
			if !got.exists[id] && after.exists[id] {
				return res, vt.Failf("C10/returned-effect-lost", "%s: node %d, stored by an operation that had returned, is gone although the interrupted %s does not remove it", where, id, c.Last.Op)
			}
		}
	}
	res.NonTrivial = len(res.SubNonTrivial) > 0
	return res, nil
}

func short(m map[string]string) map[string]string {
	out := map[string]string{}
	for k, v := range m {
		if i := strings.IndexByte(v, ':'); i >= 0 && len(v) > i+9 {
			v = v[i+1 : i+9]
		}
		out[k] = v
	}
	return out
}

func crashLeg(t *testing.T, env vt.Env) ([]byte, *vt.Fail) {
	if err := crash.Available(); err != nil {
		vt.Infra("%v", err)
	}
	child := os.Getenv("VERIF_BIN_CHILD")
	if child == "" {
		vt.Infra("VERIF_BIN_CHILD not set")
	}
	n := 96
	if env.Tier == "thorough" {
		n = 160
	}
	// histories are independent: run them on a few workers
	type outcome struct {
		js []byte
		f  *vt.Fail
	}
	jobs := make(chan int)
	results := make(chan outcome, n)
	var wg sync.WaitGroup
	workers := 8
	if env.Tier == "thorough" {
		workers = 2 // 16 shard processes already run side by side
	}
	for w := 0; w < workers; w++ {
		wg.Add(1)
		go func() {
			defer wg.Done()
			for i := range jobs {
				c := genCaseSeeded(int(env.Seed)*100000 + env.Shard*1000 + i)
				js := vt.MustJSON(c)
				r, f := runCase(c, child)
				results <- outcome{js, vt.Record("crash", js, r, f)}
			}
		}()
	}
	for i := 0; i < n; i++ {
		jobs <- i
	}
	close(jobs)
	wg.Wait()
	close(results)
	for o := range results {
		if o.f != nil {
			return o.js, o.f
		}
	}
	return nil, nil
}

func replay(raw json.RawMessage) (vt.Result, *vt.Fail) {
	var c Case
	if err := json.Unmarshal(raw, &c); err != nil {
		return vt.Result{}, vt.Failf("harness/replay", "%v", err)
	}
	return runCase(c, os.Getenv("VERIF_BIN_CHILD"))
}

func TestMain(m *testing.M) {
	vt.ReplayRepeat["sample"] = 50
	vt.Main(m, "C10",
		vt.NewPlainLeg("crash", 16, crashLeg, replay),
		vt.NewLeg("sample", 150, 800, 4, genSample, runSample),
	)
}

func TestLegs(t *testing.T)   { vt.TestLegs(t) }
func TestReplay(t *testing.T) { vt.TestReplay(t) }
