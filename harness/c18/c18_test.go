package c18

import (
	"bytes"
	"context"
	"encoding/base64"
	"encoding/json"
	"errors"
	"fmt"
	"os"
	"path/filepath"
	"reflect"
	"sort"
	"strings"
	"sync"
	"testing"

	"oras.land/oras-go/v2/registry/remote/auth"
	"oras.land/oras-go/v2/registry/remote/credentials"
	"pgregory.net/rapid"

	"verif/harness/crash"
	"verif/harness/vt"
)

// Cred is a credential in a case.
type Cred struct {
	User, Pass, Refresh, Access string
}

// Entry is a pre-existing auths entry.
type Entry struct {
	Key    string `json:"key"`
	Form   string `json:"form"` // auth, legacy, tokens, unknown-fields
	Cred   Cred   `json:"cred"`
	Extras bool   `json:"extras,omitempty"`
}

// Doc describes the pre-existing config document.
type Doc struct {
	Absent     bool     `json:"absent,omitempty"`
	Unknown    []string `json:"unknown,omitempty"` // kinds of unknown top-level members
	CredsStore string   `json:"credsStore,omitempty"`
	Helpers    bool     `json:"helpers,omitempty"`
	Entries    []Entry  `json:"entries,omitempty"`
	NoAuths    bool     `json:"noAuths,omitempty"`
}

// Step is one operation of the history.
type Step struct {
	Op   string `json:"op"` // put, get, delete
	Addr int    `json:"addr"`
	Cred Cred   `json:"cred"`
	// Key, when set, is the server address used instead of addrs[Addr] (a key of
	// another form that the document holds, e.g. https://legacy.io/v1/)
	Key string `json:"key,omitempty"`
	// Same (put): store the credential Get returns for the address right now
	Same bool `json:"same,omitempty"`
}

// Case is a document plus a history.
type Case struct {
	Doc   Doc    `json:"doc"`
	Steps []Step `json:"steps"`
}

var addrs = []string{"reg.example.com", "localhost:5000", "legacy.io"}
var otherKeys = []string{"other.example.org", "https://index.docker.io/v1/", "https://legacy.io/v1/", "http://legacy.io", "10.0.0.1:443"}
var fieldVals = []string{"", "alice", "p@ss:w:rd", "with space", `q"uo'te`, "<>& ", "пароль-密码-🔑", strings.Repeat("k", 4096), "a\\b\tc", "\x00lead", "trail\x00", "\x00", "mid\x00dle", "s3cr:et\n", "cr\r", "crlf\r\n", "\nlead"}
var userVals = []string{"", "alice", "bob smith", `q"uo`, "ユーザー", "colon:name"}

func genCred(t *rapid.T, label string) Cred {
	return Cred{
		User:    rapid.SampledFrom(userVals).Draw(t, label+"User"),
		Pass:    rapid.SampledFrom(fieldVals).Draw(t, label+"Pass"),
		Refresh: rapid.SampledFrom(fieldVals[:7]).Draw(t, label+"Refresh"),
		Access:  rapid.SampledFrom(fieldVals[:7]).Draw(t, label+"Access"),
	}
}

func genDoc(t *rapid.T) Doc {
	d := Doc{}
	switch rapid.IntRange(0, 7).Draw(t, "docMode") {
	case 0:
		d.Absent = true
		return d
	case 1:
		d.NoAuths = true
		return d
	}
	n := rapid.IntRange(0, 4).Draw(t, "nUnknown")
	for i := 0; i < n; i++ {
		d.Unknown = append(d.Unknown, rapid.SampledFrom([]string{"object", "array", "bigint", "float", "string", "null", "bool", "dupkeys"}).Draw(t, "unknownKind"))
	}
	if rapid.IntRange(0, 3).Draw(t, "credsStore") == 0 {
		d.CredsStore = "desktop"
	}
	d.Helpers = rapid.Bool().Draw(t, "helpers")
	d.NoAuths = rapid.IntRange(0, 5).Draw(t, "noAuths") == 0
	if !d.NoAuths {
		k := rapid.IntRange(0, 4).Draw(t, "nEntries")
		used := map[string]bool{}
		for i := 0; i < k; i++ {
			key := rapid.SampledFrom(append(append([]string(nil), otherKeys...), addrs...)).Draw(t, "entryKey")
			if used[key] {
				continue
			}
			used[key] = true
			e := Entry{Key: key, Form: rapid.SampledFrom([]string{"auth", "legacy", "tokens", "auth"}).Draw(t, "form"), Cred: genCred(t, "entry"), Extras: rapid.Bool().Draw(t, "extras")}
			if e.Cred.User == "colon:name" {
				e.Cred.User = "alice"
			}
			d.Entries = append(d.Entries, e)
		}
	}
	return d
}

func genCase(t *rapid.T) Case {
	c := Case{Doc: genDoc(t)}
	n := rapid.IntRange(1, 15).Draw(t, "nSteps")
	if !c.Doc.Absent && rapid.IntRange(0, 39).Draw(t, "hugeDoc") == 23 {
		// (main leg only, short histories: every step re-reads the document)
		c.Doc.Unknown = append(c.Doc.Unknown, "huge")
		if n > 3 {
			n = 3
		}
	}
	for i := 0; i < n; i++ {
		s := Step{Addr: rapid.IntRange(0, len(addrs)-1).Draw(t, "addr")}
		switch r := rapid.IntRange(0, 9).Draw(t, "op"); {
		case r < 5:
			s.Op = "put"
			s.Cred = genCred(t, "put")
		case r < 8:
			s.Op = "get"
		default:
			s.Op = "delete"
		}
		if s.Op != "get" && rapid.IntRange(0, 5).Draw(t, "otherKey") == 0 {
			// address the entry of another key form directly
			s.Key = rapid.SampledFrom(otherKeys).Draw(t, "stepKey")
		}
		if s.Op == "put" && rapid.IntRange(0, 5).Draw(t, "same") == 0 {
			s.Same = true
		}
		c.Steps = append(c.Steps, s)
	}
	// a host known only through a key of another form: store what Get answers for the
	// bare host under the bare host, drop the other key, ask again
	for _, e := range c.Doc.Entries {
		if !c.Doc.NoAuths && e.Key != toHostname(e.Key) && rapid.IntRange(0, 2).Draw(t, "legacyScenario") == 0 {
			for i, a := range addrs {
				if a == toHostname(e.Key) {
					c.Steps = append(c.Steps, Step{Op: "put", Addr: i, Same: true}, Step{Op: "delete", Addr: i, Key: e.Key}, Step{Op: "get", Addr: i})
				}
			}
			break
		}
	}
	return c
}

// render builds the document text.
func (d Doc) render() []byte {
	if d.Absent {
		return nil
	}
	var parts []string
	for i, k := range d.Unknown {
		name := fmt.Sprintf("x-unknown-%d", i)
		switch k {
		case "object":
			parts = append(parts, fmt.Sprintf(`%q: {"a": {"b": [1, 2, {"c": null}]}, "z": "é"}`, name))
		case "array":
			parts = append(parts, fmt.Sprintf(`%q: [true, "x", 3.50, []]`, name))
		case "bigint":
			parts = append(parts, fmt.Sprintf(`%q: 123456789012345678901234567890`, name))
		case "float":
			parts = append(parts, fmt.Sprintf(`%q: 1.0`, name))
		case "string":
			parts = append(parts, fmt.Sprintf(`%q: "pläin \"quoted\" \\  "`, name))
		case "null":
			parts = append(parts, fmt.Sprintf(`%q: null`, name))
		case "bool":
			parts = append(parts, fmt.Sprintf(`%q: false`, name))
		case "dupkeys":
			parts = append(parts, fmt.Sprintf(`%q: {"k": 1, "k": 2}`, name))
		case "huge":
			// a document well over a megabyte
			parts = append(parts, fmt.Sprintf(`%q: %q`, name, strings.Repeat("0123456789abcdef", 80000)))
		}
	}
	if d.CredsStore != "" {
		parts = append(parts, fmt.Sprintf(`"credsStore": %q`, d.CredsStore))
	}
	if d.Helpers {
		parts = append(parts, `"credHelpers": {"gcr.io": "gcloud", "x.azurecr.io": "acr"}`)
	}
	if !d.NoAuths {
		var es []string
		for _, e := range d.Entries {
			var fs []string
			switch e.Form {
			case "auth":
				if e.Cred.User != "" || e.Cred.Pass != "" {
					fs = append(fs, fmt.Sprintf(`"auth": %q`, base64.StdEncoding.EncodeToString([]byte(e.Cred.User+":"+e.Cred.Pass))))
				}
			case "legacy":
				fs = append(fs, fmt.Sprintf(`"username": %s, "password": %s`, jstr(e.Cred.User), jstr(e.Cred.Pass)))
			case "tokens":
				fs = append(fs, fmt.Sprintf(`"identitytoken": %s, "registrytoken": %s`, jstr(e.Cred.Refresh), jstr(e.Cred.Access)))
			}
			if e.Extras {
				fs = append(fs, `"email": "dev@example.com", "x-extra": {"n": 10000000000000000000001, "l": [1.0]}`)
			}
			es = append(es, fmt.Sprintf("%s: {%s}", jstr(e.Key), strings.Join(fs, ", ")))
		}
		parts = append(parts, `"auths": {`+strings.Join(es, ", ")+`}`)
	}
	return []byte("{\n  " + strings.Join(parts, ",\n  ") + "\n}\n")
}

func jstr(s string) string {
	b, _ := json.Marshal(s)
	return string(b)
}

// seedModel derives the exact-key credential map from the document description.
func (d Doc) seedModel() map[string]Cred {
	m := map[string]Cred{}
	if d.Absent || d.NoAuths {
		return m
	}
	for _, e := range d.Entries {
		var c Cred
		switch e.Form {
		case "auth", "legacy":
			c.User, c.Pass = e.Cred.User, e.Cred.Pass
		case "tokens":
			c.Refresh, c.Access = e.Cred.Refresh, e.Cred.Access
		}
		m[e.Key] = c
	}
	return m
}

func toHostname(addr string) string {
	addr = strings.TrimPrefix(addr, "http://")
	addr = strings.TrimPrefix(addr, "https://")
	if i := strings.IndexByte(addr, '/'); i >= 0 {
		addr = addr[:i]
	}
	return addr
}

func parseDoc(b []byte) (map[string]any, error) {
	dec := json.NewDecoder(bytes.NewReader(b))
	dec.UseNumber()
	var v map[string]any
	if err := dec.Decode(&v); err != nil {
		return nil, err
	}
	return v, nil
}

// preserved compares two documents outside auths[except].
func preserved(before, after map[string]any, except string) string {
	for k, v := range before {
		if k == "auths" {
			continue
		}
		if !reflect.DeepEqual(v, after[k]) {
			return fmt.Sprintf("top-level member %q changed from %v to %v", k, v, after[k])
		}
	}
	for k := range after {
		if _, ok := before[k]; !ok && k != "auths" {
			return fmt.Sprintf("top-level member %q appeared", k)
		}
	}
	ba, _ := before["auths"].(map[string]any)
	aa, _ := after["auths"].(map[string]any)
	for k, v := range ba {
		if k == except {
			continue
		}
		if !reflect.DeepEqual(v, aa[k]) {
			return fmt.Sprintf("auths entry %q of another registry changed from %v to %v", k, v, aa[k])
		}
	}
	for k := range aa {
		if _, ok := ba[k]; !ok && k != except {
			return fmt.Sprintf("auths entry %q appeared", k)
		}
	}
	return ""
}

func credOf(c Cred) auth.Credential {
	return auth.Credential{Username: c.User, Password: c.Pass, RefreshToken: c.Refresh, AccessToken: c.Access}
}

func runCase(c Case) (res vt.Result, fail *vt.Fail) {
	ctx := context.Background()
	root := vt.Scratch("c18-")
	defer os.RemoveAll(root)
	dir := filepath.Join(root, "cfgdir")
	os.MkdirAll(dir, 0o700)
	path := filepath.Join(dir, "config.json")
	if doc := c.Doc.render(); doc != nil {
		if err := os.WriteFile(path, doc, 0o644); err != nil {
			return res, vt.Failf("harness/write", "%v", err)
		}
		if _, err := parseDoc(doc); err != nil {
			return res, vt.Failf("harness/doc-invalid", "%v: %s", err, doc)
		}
	}
	fs, err := credentials.NewFileStore(path)
	if err != nil {
		return res, vt.Failf("C18/open-failed", "NewFileStore on a valid document: %v", err)
	}
	model := c.Doc.seedModel()
	putAfterPut, deleted := false, false
	lastPut := map[string]bool{}
	for i, st := range c.Steps {
		addr := addrs[st.Addr]
		if st.Key != "" {
			addr = st.Key
		}
		if st.Op == "put" && st.Same {
			cur, err := fs.Get(ctx, addr)
			if err != nil {
				return res, vt.Failf("C18/get-failed", "step %d: %v", i, err)
			}
			if cur == auth.EmptyCredential || strings.Contains(cur.Username, ":") {
				continue
			}
			st.Cred = Cred{User: cur.Username, Pass: cur.Password, Refresh: cur.RefreshToken, Access: cur.AccessToken}
			res.Classes = append(res.Classes, "put-of-the-credential-already-answered")
		}
		when := fmt.Sprintf("step %d (%s %s)", i, st.Op, addr)
		var before []byte
		if b, err := os.ReadFile(path); err == nil {
			before = b
		}
		switch st.Op {
		case "get":
			got, err := fs.Get(ctx, addr)
			if err != nil {
				return res, vt.Failf("C18/get-failed", "%s: %v", when, err)
			}
			var cands []Cred
			if m, ok := model[addr]; ok {
				cands = []Cred{m}
			} else {
				for k, m := range model {
					if toHostname(k) == addr {
						cands = append(cands, m)
					}
				}
				if len(cands) == 0 {
					cands = []Cred{{}}
				}
			}
			ok := false
			for _, cd := range cands {
				if got == credOf(cd) {
					ok = true
				}
			}
			if !ok {
				return res, vt.Failf("C18/get-wrong-credential", "%s: Get returned {%q %q %q %q}, the file holds one of %+v", when, got.Username, trunc(got.Password), trunc(got.RefreshToken), trunc(got.AccessToken), truncCreds(cands))
			}
			continue
		case "put":
			err := fs.Put(ctx, addr, credOf(st.Cred))
			if strings.Contains(st.Cred.User, ":") {
				if !errors.Is(err, credentials.ErrBadCredentialFormat) {
					return res, vt.Failf("C18/colon-username-accepted", "%s: Put with a colon in the username returned %v", when, err)
				}
				after, _ := os.ReadFile(path)
				if !bytes.Equal(before, after) {
					return res, vt.Failf("C18/rejected-put-changed-file", "%s", when)
				}
				continue
			}
			if err != nil {
				return res, vt.Failf("C18/put-failed", "%s: %v", when, err)
			}
			if lastPut[addr] {
				putAfterPut = true
			}
			lastPut[addr] = true
			model[addr] = st.Cred
		case "delete":
			if err := fs.Delete(ctx, addr); err != nil {
				return res, vt.Failf("C18/delete-failed", "%s: %v", when, err)
			}
			if _, ok := model[addr]; ok {
				deleted = true
			} else {
				after, rerr := os.ReadFile(path)
				if (rerr == nil) != (before != nil) || !bytes.Equal(before, after) {
					return res, vt.Failf("C18/noop-delete-changed-file", "%s: deleting an address without an entry changed the file", when)
				}
			}
			delete(model, addr)
			lastPut[addr] = false
		}
		// after a mutating step
		after, err := os.ReadFile(path)
		if err != nil {
			if before == nil && st.Op == "delete" {
				continue
			}
			return res, vt.Failf("C18/file-missing", "%s: %v", when, err)
		}
		av, err := parseDoc(after)
		if err != nil {
			return res, vt.Failf("C18/file-unparsable", "%s: %v", when, err)
		}
		bv := map[string]any{}
		if before != nil {
			bv, _ = parseDoc(before)
		}
		if msg := preserved(bv, av, addr); msg != "" {
			return res, vt.Failf("C18/other-content-not-preserved", "%s: %s", when, msg)
		}
		st2, err := os.Stat(path)
		if err != nil || (!bytes.Equal(before, after) && st2.Mode().Perm() != 0o600) {
			return res, vt.Failf("C18/file-mode", "%s: mode %v (err %v), expected 0600", when, st2.Mode().Perm(), err)
		}
		ents, _ := os.ReadDir(dir)
		for _, e := range ents {
			if strings.HasPrefix(e.Name(), "oras_credstore_temp_") {
				return res, vt.Failf("C18/temp-file-left", "%s: %s left behind", when, e.Name())
			}
		}
		// round trip through the file: a fresh store sees the same credential
		fs2, err := credentials.NewFileStore(path)
		if err != nil {
			return res, vt.Failf("C18/reopen-failed", "%s: %v", when, err)
		}
		if m, ok := model[addr]; ok {
			got, err := fs2.Get(ctx, addr)
			if err != nil || got != credOf(m) {
				return res, vt.Failf("C18/round-trip", "%s: a fresh store returns {%q %q %q %q} (err %v), stored was {%q %q %q %q}", when, got.Username, trunc(got.Password), trunc(got.RefreshToken), trunc(got.AccessToken), err, m.User, trunc(m.Pass), trunc(m.Refresh), trunc(m.Access))
			}
			got2, _ := fs.Get(ctx, addr)
			if got2 != credOf(m) {
				return res, vt.Failf("C18/round-trip", "%s: the same store returns a different credential than it stored", when)
			}
		}
	}
	foreignUnknown := false
	for _, e := range c.Doc.Entries {
		if e.Extras {
			foreignUnknown = true
		}
	}
	res.NonTrivial = len(c.Doc.Unknown) > 0 && foreignUnknown && putAfterPut && deleted
	if len(c.Doc.Unknown) > 0 {
		res.Classes = append(res.Classes, "unknown-top-level-members")
	}
	for _, u := range c.Doc.Unknown {
		if u == "huge" {
			res.Classes = append(res.Classes, "document-over-1MiB")
		}
	}
	if foreignUnknown {
		res.Classes = append(res.Classes, "foreign-entry-with-unknown-fields")
	}
	if c.Doc.Absent {
		res.Classes = append(res.Classes, "no-file-at-start")
	}
	return res, nil
}

func trunc(s string) string {
	if len(s) > 24 {
		return s[:24] + "…"
	}
	return s
}

func truncCreds(cs []Cred) []Cred {
	var out []Cred
	for _, c := range cs {
		out = append(out, Cred{c.User, trunc(c.Pass), trunc(c.Refresh), trunc(c.Access)})
	}
	return out
}

// ---------------------------------------------------------------------------------
// concurrent callers on one store

type ConcCase struct {
	Doc   Doc      `json:"doc"`
	Lists [][]Step `json:"lists"`
}

func genConc(t *rapid.T) ConcCase {
	c := ConcCase{Doc: genDoc(t)}
	k := rapid.IntRange(2, 4).Draw(t, "k")
	for g := 0; g < k; g++ {
		var l []Step
		n := rapid.IntRange(1, 3).Draw(t, "n")
		for i := 0; i < n; i++ {
			s := Step{Addr: rapid.IntRange(0, 1).Draw(t, "addr")}
			switch rapid.IntRange(0, 4).Draw(t, "op") {
			case 0:
				s.Op = "get"
			case 1:
				s.Op = "delete"
			default:
				s.Op = "put"
				s.Cred = Cred{User: fmt.Sprintf("u%d-%d", g, i), Pass: rapid.SampledFrom(fieldVals[:6]).Draw(t, "pass")}
			}
			l = append(l, s)
		}
		c.Lists = append(c.Lists, l)
	}
	return c
}

func runConc(c ConcCase) (res vt.Result, fail *vt.Fail) {
	ctx := context.Background()
	root := vt.Scratch("c18c-")
	defer os.RemoveAll(root)
	path := filepath.Join(root, "config.json")
	doc := c.Doc.render()
	if doc != nil {
		os.WriteFile(path, doc, 0o600)
	}
	fs, err := credentials.NewFileStore(path)
	if err != nil {
		return res, vt.Failf("C18/open-failed", "%v", err)
	}
	var wg sync.WaitGroup
	errs := make([]error, len(c.Lists))
	for g, l := range c.Lists {
		wg.Add(1)
		go func(g int, l []Step) {
			defer wg.Done()
			for _, s := range l {
				var err error
				switch s.Op {
				case "put":
					err = fs.Put(ctx, addrs[s.Addr], credOf(s.Cred))
				case "delete":
					err = fs.Delete(ctx, addrs[s.Addr])
				default:
					_, err = fs.Get(ctx, addrs[s.Addr])
				}
				if err != nil {
					errs[g] = err
					return
				}
			}
		}(g, l)
	}
	wg.Wait()
	for g, e := range errs {
		if e != nil {
			return res, vt.Failf("C18/concurrent-op-failed", "goroutine %d: %v", g, e)
		}
	}
	res.NonTrivial = true
	after, rerr := os.ReadFile(path)
	seed := c.Doc.seedModel()
	mutated := false
	for _, l := range c.Lists {
		for _, s := range l {
			if s.Op != "get" {
				mutated = true
			}
		}
	}
	if rerr != nil {
		if !mutated || doc == nil {
			return res, nil
		}
		return res, vt.Failf("C18/file-missing", "%v", rerr)
	}
	av, err := parseDoc(after)
	if err != nil {
		return res, vt.Failf("C18/file-unparsable", "after concurrent operations: %v", err)
	}
	aa, _ := av["auths"].(map[string]any)
	// per address: the final entry is the effect of the last mutating op of SOME goroutine
	for ai := 0; ai < 2; ai++ {
		addr := addrs[ai]
		type eff struct {
			del  bool
			cred Cred
		}
		var cands []eff
		for _, l := range c.Lists {
			var last *eff
			for _, s := range l {
				if s.Addr != ai || s.Op == "get" {
					continue
				}
				e := eff{del: s.Op == "delete", cred: s.Cred}
				last = &e
			}
			if last != nil {
				cands = append(cands, *last)
			}
		}
		fs2, _ := credentials.NewFileStore(path)
		got, _ := fs2.Get(ctx, addr)
		// the store the callers shared answers like one that reads the file afresh
		if liveGot, lerr := fs.Get(ctx, addr); lerr != nil || liveGot != got {
			return res, vt.Failf("C18/store-and-file-disagree", "after the concurrent calls returned, Get(%s) on the shared store = {%q %q} (err %v), a store opened on the same file = {%q %q}", addr, liveGot.Username, trunc(liveGot.Password), lerr, got.Username, trunc(got.Password))
		}
		_, exact := aa[addr]
		if len(cands) == 0 {
			if sc, ok := seed[addr]; ok && got != credOf(sc) {
				return res, vt.Failf("C18/concurrent-untouched-entry-changed", "%s", addr)
			}
			continue
		}
		ok := false
		for _, e := range cands {
			if e.del && !exact {
				ok = true
			}
			if !e.del && exact && got == credOf(e.cred) {
				ok = true
			}
		}
		if !ok {
			return res, vt.Failf("C18/not-a-sequential-outcome", "address %s ends as exact-entry=%v cred={%q %q}; no sequential order of the %d lists produces that (candidates %+v)", addr, exact, got.Username, trunc(got.Password), len(c.Lists), cands)
		}
	}
	bv := map[string]any{}
	if doc != nil {
		bv, _ = parseDoc(doc)
	}
	// everything outside the two touched addresses is preserved
	for _, ex := range []string{addrs[0]} {
		tmpB := cloneWithout(bv, addrs[1])
		tmpA := cloneWithout(av, addrs[1])
		if msg := preserved(tmpB, tmpA, ex); msg != "" && mutated {
			return res, vt.Failf("C18/other-content-not-preserved", "after concurrent operations: %s", msg)
		}
	}
	return res, nil
}

func cloneWithout(doc map[string]any, addr string) map[string]any {
	out := map[string]any{}
	for k, v := range doc {
		out[k] = v
	}
	if a, ok := doc["auths"].(map[string]any); ok {
		na := map[string]any{}
		for k, v := range a {
			if k != addr {
				na[k] = v
			}
		}
		out["auths"] = na
	}
	return out
}

// ---------------------------------------------------------------------------------
// crash leg: kill before every system call of one save

type CrashCase struct {
	Doc  Doc  `json:"doc"`
	Step Step `json:"step"`
	// NoDir: the directory of the config file does not exist yet (first save on a
	// fresh machine); implies that there is no old document
	NoDir bool `json:"noDir,omitempty"`
}

func crashLeg(t *testing.T, env vt.Env) ([]byte, *vt.Fail) {
	if err := crash.Available(); err != nil {
		vt.Infra("%v", err)
	}
	child := os.Getenv("VERIF_BIN_CHILD")
	if child == "" {
		vt.Infra("VERIF_BIN_CHILD not set")
	}
	pairs := 10
	if env.Tier == "thorough" {
		pairs = 40
	}
	gen := rapid.Custom(func(t *rapid.T) CrashCase {
		c := CrashCase{Doc: genDoc(t)}
		c.Step = Step{Op: rapid.SampledFrom([]string{"put", "put", "delete"}).Draw(t, "op"), Addr: rapid.IntRange(0, 2).Draw(t, "addr"), Cred: genCred(t, "c")}
		if strings.Contains(c.Step.Cred.User, ":") {
			c.Step.Cred.User = "alice"
		}
		c.Step.Cred.Pass = trunc(c.Step.Cred.Pass)
		if rapid.IntRange(0, 2).Draw(t, "legacyKey") == 1 {
			// the operation addresses a key of another form of one of the hosts
			c.Step.Key, c.Step.Addr = rapid.SampledFrom([]string{"https://legacy.io/v1/", "http://legacy.io"}).Draw(t, "crashKey"), 2
		}
		if c.Step.Op == "put" && rapid.IntRange(0, 3).Draw(t, "noDir") == 0 {
			c.NoDir = true
			c.Doc = Doc{Absent: true}
		}
		return c
	})
	for i := 0; i < pairs; i++ {
		c := gen.Example(int(env.Seed)*1000 + env.Shard*100 + i)
		if c.Step.Op == "delete" {
			// make sure there is something to delete
			c.Doc.Absent, c.Doc.NoAuths = false, false
			dk := addrs[c.Step.Addr]
			if c.Step.Key != "" {
				dk = c.Step.Key
			}
			c.Doc.Entries = append(c.Doc.Entries, Entry{Key: dk, Form: "auth", Cred: Cred{User: "u", Pass: "p"}})
			seen := map[string]bool{}
			var es []Entry
			for j := len(c.Doc.Entries) - 1; j >= 0; j-- {
				if !seen[c.Doc.Entries[j].Key] {
					seen[c.Doc.Entries[j].Key] = true
					es = append(es, c.Doc.Entries[j])
				}
			}
			c.Doc.Entries = es
		}
		js := vt.MustJSON(c)
		r, f := runCrash(c, child)
		if f = vt.Record("crash", js, r, f); f != nil {
			return js, f
		}
	}
	return nil, nil
}

func replayCrash(raw json.RawMessage) (vt.Result, *vt.Fail) {
	var c CrashCase
	if err := json.Unmarshal(raw, &c); err != nil {
		return vt.Result{}, vt.Failf("harness/replay", "%v", err)
	}
	return runCrash(c, os.Getenv("VERIF_BIN_CHILD"))
}

func runCrash(c CrashCase, child string) (res vt.Result, fail *vt.Fail) {
	root := vt.Scratch("c18k-")
	defer os.RemoveAll(root)
	dir := filepath.Join(root, "cfg")
	os.MkdirAll(dir, 0o700)
	path := filepath.Join(dir, "config.json")
	old := c.Doc.render()
	if c.NoDir {
		old = nil
	}
	restore := func() {
		ents, _ := os.ReadDir(dir)
		for _, e := range ents {
			os.Remove(filepath.Join(dir, e.Name()))
		}
		if c.NoDir {
			os.RemoveAll(dir)
		}
		if old != nil {
			os.WriteFile(path, old, 0o600)
		}
		os.Remove(filepath.Join(root, "MARK"))
	}
	opRef := addrs[c.Step.Addr]
	if c.Step.Key != "" {
		opRef = c.Step.Key
	}
	op := crash.Op{Op: c.Step.Op, Ref: opRef, User: c.Step.Cred.User, Pass: c.Step.Cred.Pass, Refresh: c.Step.Cred.Refresh, Access: c.Step.Cred.Access}
	sc := &crash.Script{Kind: "cred", Dir: path, Marker: filepath.Join(root, "MARK"), Op: op}
	// addresses to compare after a failed call. A bare host that several keys of
	// other forms normalise to is answered from whichever the map yields first: two
	// stores may rightly differ there, so it is left out.
	for _, a := range append(append([]string{opRef}, addrs...), otherKeys...) {
		keys := map[string]bool{opRef: true}
		for _, e := range c.Doc.Entries {
			keys[e.Key] = true
		}
		forms := 0
		for k := range keys {
			if k != a && toHostname(k) == a {
				forms++
			}
		}
		if forms <= 1 {
			sc.Probe = append(sc.Probe, a)
		}
	}
	r := &crash.Runner{Child: child, Work: root}
	restore()
	pts, err := r.Baseline(sc)
	if err != nil {
		return res, vt.Failf("harness/baseline", "%v", err)
	}
	newBytes, err := os.ReadFile(path)
	if err != nil {
		return res, vt.Failf("harness/baseline-result", "%v", err)
	}
	if bytes.Equal(newBytes, old) {
		return res, nil // the operation does not write
	}
	res.Evals = len(pts)
	for k, pt := range pts {
		restore()
		killed, err := r.RunKilled(sc, pt)
		if err != nil {
			return res, vt.Failf("harness/run-killed", "%v", err)
		}
		if !killed {
			continue
		}
		got, rerr := os.ReadFile(path)
		sub := fmt.Sprintf("%s#%d", vt.MustJSON(c), k)
		if k > 0 && k < len(pts)-1 {
			res.SubNonTrivial = append(res.SubNonTrivial, sub)
		}
		switch {
		case rerr != nil && old == nil:
			// still no file: the old state
		case rerr != nil:
			return res, vt.Failf("C18/crash-lost-file", "killed before syscall %d/%d (%s): the config file is gone: %v", k+1, len(pts), pt.Line, rerr)
		case bytes.Equal(got, old) || bytes.Equal(got, newBytes):
		default:
			return res, vt.Failf("C18/crash-partial-file", "killed before syscall %d/%d (%s): the config file holds %d bytes that are neither the old (%d) nor the new (%d) document", k+1, len(pts), pt.Line, len(got), len(old), len(newBytes))
		}
		if rerr == nil {
			if _, err := parseDoc(got); err != nil {
				return res, vt.Failf("C18/crash-unparsable", "killed before syscall %d/%d: %v", k+1, len(pts), err)
			}
		}
		// life goes on after the crash: whatever the dead process left in the directory,
		// the next save (a Put of a very short credential: the document is shorter than
		// the one the dead process was writing) yields a complete file
		{
			follow := &crash.Script{Kind: "cred", Dir: path, Marker: filepath.Join(root, "MARK2"), Op: crash.Op{Op: "put", Ref: addrs[c.Step.Addr], User: "a"}}
			os.Remove(filepath.Join(root, "MARK2"))
			if err := r.RunPlain("run", follow); err == nil {
				after, aerr := os.ReadFile(path)
				if aerr == nil && !json.Valid(after) {
					return res, vt.Failf("C18/file-damaged-after-crash-and-next-save", "killed before syscall %d/%d (%s), then a Put by a new process: the config file (%d bytes) is not one complete JSON document any more", k+1, len(pts), pt.Line, len(after))
				}
				if aerr == nil {
					if doc2, perr := parseDoc(after); perr == nil {
						if a, ok := doc2["auths"].(map[string]any); ok {
							if _, there := a[addrs[c.Step.Addr]]; !there {
								return res, vt.Failf("C18/put-after-crash-ineffective", "killed before syscall %d/%d, then Put(%s) by a new process returned nil but the entry is not in the file", k+1, len(pts), addrs[c.Step.Addr])
							}
						}
					}
				}
				res.Classes = append(res.Classes, "next-save-after-crash-checked")
			}
		}
	}
	// the same boundaries once more, this time the system call FAILS (EIO / ENOSPC)
	// and the process lives on: the operation may report the error, but the file is
	// the old or the new complete document, and the new one if it reported success
	faulted := 0
	type variant struct {
		k          int
		retried    bool
		persistent bool
	}
	var variants []variant
	for k, pt := range pts {
		if !crash.Faultable(pt.Syscall) {
			continue
		}
		// every other faulted run is followed by the caller's retry of the same call
		variants = append(variants, variant{k: k, retried: k%4 >= 2})
		if pt.Syscall == "write" || pt.Syscall == "pwrite64" {
			// a full disk does not heal: this call and every later one of its kind fails
			variants = append(variants, variant{k: k, persistent: true})
		}
	}
	for _, v := range variants {
		k, pt, retried, persistent := v.k, pts[v.k], v.retried, v.persistent
		errno := []string{"EIO", "ENOSPC"}[k%2]
		if persistent {
			errno = "ENOSPC"
		}
		restore()
		sc.Retry = retried
		exit, err := r.RunFaultedFrom(sc, pt, errno, persistent)
		sc.Retry = false
		if err != nil {
			// the runtime itself may abort on a failed call it depends on: not judged
			continue
		}
		if exit >= 81 {
			detail, _ := os.ReadFile(sc.Marker + ".disagree")
			onFile, _ := os.ReadFile(path)
			return res, vt.Failf("C18/store-and-file-disagree", "%s on syscall %d/%d (%s) during %s %s (persistent: %v): Get(%q) differs between the store the failed call ran on and a store opened on the file; %s; the file now holds: %s", errno, k+1, len(pts), pt.Line, c.Step.Op, opRef, persistent, sc.Probe[exit-81], detail, onFile)
		}
		faulted++
		res.Evals++
		res.SubNonTrivial = append(res.SubNonTrivial, fmt.Sprintf("%s#fault%d/%v/%v", vt.MustJSON(c), k, retried, persistent))
		got, rerr := os.ReadFile(path)
		switch {
		case rerr != nil && old == nil && exit != 0:
		case rerr != nil:
			return res, vt.Failf("C18/fault-lost-file", "%s on syscall %d/%d (%s), operation returned %s: the config file is gone: %v", errno, k+1, len(pts), pt.Line, exitName(exit), rerr)
		case bytes.Equal(got, newBytes):
		case bytes.Equal(got, old) && exit != 0:
		case bytes.Equal(got, old):
			return res, vt.Failf("C18/fault-swallowed", "%s on syscall %d/%d (%s) during %s (retried after an error: %v): the operation returned nil but the config file still holds the old document", errno, k+1, len(pts), pt.Line, c.Step.Op, retried)
		default:
			return res, vt.Failf("C18/fault-damaged-file", "%s on syscall %d/%d (%s), operation returned %s: the config file holds %d bytes that are neither the old (%d) nor the new (%d) document", errno, k+1, len(pts), pt.Line, exitName(exit), len(got), len(old), len(newBytes))
		}
	}
	res.NonTrivial = len(res.SubNonTrivial) > 0
	res.Classes = append(res.Classes, "crash-op-"+c.Step.Op, fmt.Sprintf("crash-points-%d", len(pts)), fmt.Sprintf("failing-syscalls-%d", faulted))
	return res, nil
}

func exitName(code int) string {
	if code == 0 {
		return "nil"
	}
	return "an error"
}

func TestMain(m *testing.M) {
	vt.Main(m, "C18",
		vt.NewLeg("main", 2500, 8000, 8, genCase, runCase),
		vt.NewLeg("conc", 800, 3000, 4, genConc, runConc),
		vt.NewPlainLeg("crash", 8, crashLeg, replayCrash),
	)
}

func TestLegs(t *testing.T)   { vt.TestLegs(t) }
func TestReplay(t *testing.T) { vt.TestReplay(t) }

var _ = sort.Strings
