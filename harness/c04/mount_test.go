package c04

import (
	"bytes"
	"errors"
	"fmt"
	"net/http"
	"strings"
	"sync"
	"time"

	"pgregory.net/rapid"

	"verif/harness/copyx"
	"verif/harness/gen"
	"verif/harness/inst"
	"verif/harness/regmodel"
	"verif/harness/vt"
)

// The mount leg: the destination is a remote repository (registry model) whose
// registry also holds sibling repositories; MountFrom answers with a generated list
// of sibling names per blob. A blob is then either mounted (OnMounted, no PreCopy,
// no bytes travel) or, when no listed sibling can provide it, copied (PreCopy,
// PostCopy). The oracle reads the registry model's request log: a 201 answer to a
// mount POST is a mount, a 201 answer to an upload PUT is a copy.

var mountRepos = []string{"lib/a", "lib/b", "lib/empty"}

func genMount(t *rapid.T) copyx.Case {
	max := 14
	if vt.Thorough() {
		max = 26
	}
	c := copyx.GenBase(t, gen.DAGOpts{MaxNodes: max, Wide: true, NoDupChild: true, NoForeign: true, NoDocker: true, OnlySHA256: true,
		SingleMT: true, UniqueBytes: true, NoAbsent: true, NoBlobSubj: true, NoBigBlobs: true, BlobRich: true}, []string{"memory"}, []string{"remote"})
	c.SrcKind, c.DstKind = "memory", "remote"
	d := gen.Build(c.Specs)
	if rapid.IntRange(0, 3).Draw(t, "blobRichRoot") != 0 {
		// the root that reaches most blobs
		best, bestN := c.Root, -1
		for _, id := range d.CanonIDs() {
			n := 0
			for r := range d.Reach(id, true) {
				if !d.IsManifest(r) {
					n++
				}
			}
			if n > bestN {
				best, bestN = id, n
			}
		}
		c.Root = best
	}
	c.API = rapid.SampledFrom([]string{"copygraph", "copy"}).Draw(t, "api")
	if !d.IsManifest(c.Root) {
		c.API = "copygraph"
	}
	c.Callbacks = true
	c.UseMount = true
	c.Conc = rapid.SampledFrom([]int{1, 2, 3, 4, 0}).Draw(t, "conc4")
	c.LatSeed = rapid.IntRange(1, 1<<20).Draw(t, "latSeed4")
	c.DstProfile = regmodel.Profile{StrictBlobs: true, MountCreated: rapid.IntRange(0, 5).Draw(t, "mountSupported") != 0,
		LocationQuery: rapid.Bool().Draw(t, "locq"), LocationAbs: rapid.Bool().Draw(t, "locabs")}
	reach := d.Reach(c.Root, true)
	c.Pre = copyx.GenPre(t, d, reach, c.Root)
	{
		pre := map[int]bool{}
		for _, p := range c.Pre {
			pre[d.Nodes[p].Canon] = true
		}
		cand := 0
		for id := range reach {
			if !d.IsManifest(id) && !pre[id] {
				cand++
			}
		}
		if cand == 0 && rapid.IntRange(0, 3).Draw(t, "dropFullPre") != 0 {
			c.Pre = nil
		}
	}
	holds := map[string][]int{}
	for _, id := range gen.SortedKeys(reach) {
		if d.IsManifest(id) {
			continue
		}
		// which siblings hold the blob
		for _, r := range mountRepos[:2] {
			if rapid.Bool().Draw(t, "holds") {
				holds[r] = append(holds[r], id)
			}
		}
		// what MountFrom answers: nothing, or 1-3 names in any order (a name may
		// not exist, or not hold the blob)
		k := rapid.SampledFrom([]int{0, 1, 2, 2, 3, 3}).Draw(t, "nRepos")
		if k == 0 {
			continue
		}
		repos := rapid.SliceOfNDistinct(rapid.SampledFrom([]string{"lib/a", "lib/a", "lib/a", "lib/b", "lib/b", "lib/b", "lib/empty", "lib/missing"}), k, k, rapid.ID[string]).Draw(t, "repos")
		c.MountFrom = append(c.MountFrom, copyx.MountSpec{Node: id, Repos: repos})
	}
	for _, r := range mountRepos[:2] {
		if len(holds[r]) > 0 {
			c.Holds = append(c.Holds, copyx.HoldSpec{Repo: r, Nodes: holds[r]})
		}
	}
	if rapid.IntRange(0, 3).Draw(t, "cbError") == 0 {
		ids := gen.SortedKeys(reach)
		n := rapid.SampledFrom(ids).Draw(t, "cbNode")
		op := rapid.SampledFrom([]string{"PreCopy", "PostCopy", "MountFrom", "OnMounted", "OnMounted"}).Draw(t, "cbOp")
		if op == "OnMounted" || op == "MountFrom" {
			// aim at a blob MountFrom has an answer for
			var cand []int
			for _, m := range c.MountFrom {
				cand = append(cand, m.Node)
			}
			if len(cand) > 0 {
				n = rapid.SampledFrom(cand).Draw(t, "cbMountNode")
			}
		}
		c.Faults = []inst.Fault{{Side: "cb", Op: op, Node: n, When: "before", Kind: "error"}}
	} else if rapid.IntRange(0, 2).Draw(t, "noOnMounted") != 1 {
		// the caller is not interested in mounts: OnMounted stays nil
		c.NoOnMounted = true
	}
	return c
}

type mountLog struct {
	pre, post, skipped, mounted, mountFrom []inst.Event
	fetch                                  int
	mount201, put201, manPut               int
}

func runMount(c copyx.Case) (res vt.Result, fail *vt.Fail) {
	e, f := copyx.Setup(&c)
	if f != nil {
		return res, f
	}
	defer e.Close()
	e.Rec.Heavy = true
	d := e.D
	reg := e.DstReg
	limit := c.Conc
	if limit <= 0 {
		limit = 3
	}
	// in-flight gauge and latency on the destination registry
	var mu sync.Mutex
	inFlight, maxFlight := 0, 0
	reg.Begin = func(req *http.Request) {
		mu.Lock()
		inFlight++
		if inFlight > maxFlight {
			maxFlight = inFlight
		}
		mu.Unlock()
	}
	reg.End = func(req *http.Request) {
		mu.Lock()
		inFlight--
		mu.Unlock()
	}
	reg.Pre = func(req *http.Request, rec *regmodel.ReqRecord) (*http.Response, error) {
		h := uint32(c.LatSeed) * 2654435761
		for _, ch := range req.Method + req.URL.Path {
			h = (h ^ uint32(ch)) * 16777619
		}
		time.Sleep(time.Duration((h>>8)%800+100) * time.Microsecond)
		return nil, nil
	}
	var out copyx.Outcome
	fin, _ := vt.Watch(60*time.Second, func() { out = e.Invoke(true) })
	if !fin {
		vt.Infra("copy call did not return within 60 s (see C02)")
	}
	reg.Lock()
	reg.Begin, reg.End, reg.Pre = nil, nil, nil
	log := append([]*regmodel.ReqRecord(nil), reg.Log...)
	viol := append([]string(nil), reg.Violations...)
	reg.Unlock()

	byKey := map[string]int{}
	byDigest := map[string]int{}
	for _, id := range d.CanonIDs() {
		byKey[gen.TripleKey(d.Nodes[id].Desc)] = id
		byDigest[d.Nodes[id].Desc.Digest.String()] = id
	}
	logs := map[int]*mountLog{}
	get := func(id int) *mountLog {
		if logs[id] == nil {
			logs[id] = &mountLog{}
		}
		return logs[id]
	}
	for _, ev := range e.Rec.Snapshot() {
		id, ok := byKey[ev.Node]
		if !ok {
			continue
		}
		l := get(id)
		if ev.Side == "cb" && ev.Ph == "begin" {
			switch ev.Op {
			case "PreCopy":
				l.pre = append(l.pre, ev)
			case "PostCopy":
				l.post = append(l.post, ev)
			case "OnCopySkipped":
				l.skipped = append(l.skipped, ev)
			case "OnMounted":
				l.mounted = append(l.mounted, ev)
			case "MountFrom":
				l.mountFrom = append(l.mountFrom, ev)
			}
		}
		if ev.Side == "src" && ev.Op == "Fetch" && ev.Ph == "begin" {
			l.fetch++
		}
	}
	preSet := map[int]bool{}
	for _, id := range c.Pre {
		preSet[d.Nodes[id].Canon] = true
	}
	for _, r := range log {
		if !strings.HasPrefix(r.Path, "/v2/dst/repo/") {
			continue
		}
		q := parseQuery(r.RawQuery)
		switch {
		case r.Method == http.MethodPost && q["mount"] != "" && r.Status == 201:
			if id, ok := byDigest[q["mount"]]; ok {
				get(id).mount201++
			}
		case r.Method == http.MethodPut && strings.Contains(r.Path, "/blobs/uploads/") && r.Status == 201:
			if id, ok := byDigest[q["digest"]]; ok {
				get(id).put201++
			}
		case r.Method == http.MethodPut && strings.Contains(r.Path, "/manifests/") && r.Status == 201:
			// by digest or (the root of Copy) by tag: identify the manifest by its bytes
			// (re-putting a manifest that was there before the call is Copy's tagging)
			if id, ok := byDigest[regmodel.DigestOf("sha256", r.Body)]; ok && !(preSet[id] && !strings.Contains(r.Path, "/manifests/sha256:")) {
				get(id).manPut++
			}
		}
	}
	nMounted, nCopied, nFallback := 0, 0, 0
	for id, l := range logs {
		if d.IsManifest(id) {
			continue
		}
		if l.mount201 > 0 {
			nMounted++
		}
		if l.put201 > 0 {
			nCopied++
			if len(l.mountFrom) > 0 {
				for _, m := range c.MountFrom {
					if d.Nodes[m.Node].Canon == id && len(m.Repos) > 0 {
						nFallback++
					}
				}
			}
		}
	}
	res.NonTrivial = nMounted >= 1 && nFallback >= 1
	res.Classes = append(res.Classes, "api-"+c.API, fmt.Sprintf("conc-%d", c.Conc), fmt.Sprintf("mount-supported-%v", c.DstProfile.MountCreated))
	res.Classes = append(res.Classes, fmt.Sprintf("blobs-reaching-destination-%d", min(nMounted+nCopied, 4)))
	if nMounted > 0 {
		res.Classes = append(res.Classes, "some-blob-mounted")
	}
	if nFallback > 0 {
		res.Classes = append(res.Classes, "mount-refused-then-copied")
	}
	if maxFlight == limit {
		res.Classes = append(res.Classes, "destination-high-water-reached-limit")
	}
	faulted := len(c.Faults) > 0 && e.Rec.AnyFired()
	if faulted {
		res.Classes = append(res.Classes, "callback-error-fired-"+c.Faults[0].Op)
	}

	// 1. bounded concurrency: each destination operation has at most one request in
	// flight, so requests in flight never exceed the limit
	if e.Rec.MaxSrc > limit {
		return res, vt.Failf("C04/source-reads-exceed-concurrency", "%d source reads were open at once, Concurrency=%d (effective %d)", e.Rec.MaxSrc, c.Conc, limit)
	}
	if maxFlight > limit {
		return res, vt.Failf("C04/destination-ops-exceed-concurrency", "%d requests to the destination registry were in flight at once, Concurrency=%d (effective %d)", maxFlight, c.Conc, limit)
	}
	for _, id := range gen.SortedKeys(keysOfM(logs)) {
		l := logs[id]
		isMan := d.IsManifest(id)
		// 2. single transfer
		if !isMan && l.fetch > 1 {
			return res, vt.Failf("C04/blob-fetched-twice", "blob node %d was fetched from the source %d times", id, l.fetch)
		}
		if l.mount201+l.put201 > 1 || l.manPut > 1 {
			return res, vt.Failf("C04/pushed-twice", "node %d reached the destination %d times (mounts %d, uploads %d, manifest puts %d)", id, l.mount201+l.put201+l.manPut, l.mount201, l.put201, l.manPut)
		}
		// 3. callbacks per node
		if len(l.pre) > 1 || len(l.post) > 1 || len(l.skipped) > 1 || len(l.mounted) > 1 {
			return res, vt.Failf("C04/callback-repeated", "node %d: PreCopy x%d PostCopy x%d OnMounted x%d OnCopySkipped x%d", id, len(l.pre), len(l.post), len(l.mounted), len(l.skipped))
		}
		if len(l.post)+len(l.mounted) > 1 {
			return res, vt.Failf("C04/postcopy-and-onmounted", "node %d got both PostCopy and OnMounted", id)
		}
		if len(l.skipped) > 0 && (len(l.pre)+len(l.post)+len(l.mounted)+l.mount201+l.put201+l.manPut > 0) {
			return res, vt.Failf("C04/skipped-and-copied", "node %d got OnCopySkipped and was also copied or mounted", id)
		}
		if len(l.post) > 0 && (len(l.pre) == 0 || l.post[0].Seq < l.pre[0].Seq) {
			return res, vt.Failf("C04/postcopy-without-precopy", "node %d got PostCopy without a preceding PreCopy", id)
		}
		if len(l.mounted) > 0 && (isMan || l.mount201 != 1) {
			return res, vt.Failf("C04/onmounted-without-mount", "node %d (%s) got OnMounted but the registry performed %d mounts of it", id, d.Nodes[id].Spec.Kind, l.mount201)
		}
		if len(l.post) > 0 && l.put201+l.manPut != 1 {
			return res, vt.Failf("C04/postcopy-without-transfer", "node %d got PostCopy but %d uploads of it completed (mounts: %d)", id, l.put201+l.manPut, l.mount201)
		}
		if out.Err == nil {
			if l.mount201 == 1 && len(l.mounted) != 1 && !c.NoOnMounted {
				return res, vt.Failf("C04/mounted-without-onmounted", "node %d was mounted but got %d OnMounted calls on a successful copy", id, len(l.mounted))
			}
			if l.put201+l.manPut == 1 && (len(l.post) != 1 || len(l.pre) != 1) {
				return res, vt.Failf("C04/transferred-without-postcopy", "node %d was uploaded but got PreCopy x%d PostCopy x%d on a successful copy", id, len(l.pre), len(l.post))
			}
		}
		// 4. PostCopy after each successor's terminal notification
		if len(l.post) > 0 {
			seen := map[int]bool{}
			for _, ed := range d.Nodes[id].Edges {
				if ed.Foreign || seen[ed.To] {
					continue
				}
				seen[ed.To] = true
				cl := logs[ed.To]
				var term *inst.Event
				switch {
				case cl != nil && len(cl.post) > 0:
					term = &cl.post[0]
				case cl != nil && len(cl.mounted) > 0:
					term = &cl.mounted[0]
				case cl != nil && len(cl.skipped) > 0:
					term = &cl.skipped[0]
				}
				if term == nil && c.NoOnMounted && cl != nil && cl.mount201 == 1 {
					continue // mounted, and nobody asked to be told
				}
				if term == nil {
					return res, vt.Failf("C04/postcopy-without-successor-terminal", "node %d got PostCopy but its %s successor %d got none of PostCopy, OnMounted, OnCopySkipped", id, ed.Role, ed.To)
				}
				if term.Seq > l.post[0].Seq {
					return res, vt.Failf("C04/postcopy-before-successor-terminal", "node %d: PostCopy (seq %d) before the terminal notification of successor %d (seq %d)", id, l.post[0].Seq, ed.To, term.Seq)
				}
			}
		}
	}
	// 5. errors
	if faulted {
		if out.Err == nil || !errors.Is(out.Err, inst.ErrInjected) {
			return res, vt.Failf("C04/callback-error-not-returned", "callback %s at node %d returned an error but the copy returned %v", c.Faults[0].Op, c.Faults[0].Node, out.Err)
		}
		return res, nil
	}
	if out.Err != nil {
		return res, vt.Failf("C04/fault-free-copy-failed", "%s with MountFrom failed: %v", c.API, out.Err)
	}
	// 6. everything reachable is in the destination repository, byte for byte
	reg.Lock()
	defer reg.Unlock()
	rp := reg.Repos["dst/repo"]
	for _, id := range gen.SortedKeys(d.Reach(c.Root, true)) {
		n := d.Nodes[d.Nodes[id].Canon]
		dg := n.Desc.Digest.String()
		var got []byte
		if d.IsManifest(n.ID) {
			if m := rp.Manifests[dg]; m != nil {
				got = m.Bytes
			}
		} else {
			got = rp.Blobs[dg]
		}
		if !bytes.Equal(got, n.Bytes) || (got == nil && n.Bytes != nil) {
			return res, vt.Failf("C04/missing-after-mount-copy", "node %d (%s) is not in the destination repository with its bytes after a successful copy (have %d bytes, want %d)", id, n.Spec.Kind, len(got), len(n.Bytes))
		}
	}
	for _, v := range viol {
		res.Classes = append(res.Classes, "registry-request-remark")
		_ = v
		break
	}
	return res, nil
}

func parseQuery(raw string) map[string]string {
	out := map[string]string{}
	for _, kv := range strings.Split(raw, "&") {
		if i := strings.IndexByte(kv, '='); i > 0 {
			v := kv[i+1:]
			v = strings.ReplaceAll(v, "%3A", ":")
			v = strings.ReplaceAll(v, "%2F", "/")
			out[kv[:i]] = v
		}
	}
	return out
}

func keysOfM(m map[int]*mountLog) map[int]bool {
	out := map[int]bool{}
	for k := range m {
		out[k] = true
	}
	return out
}
