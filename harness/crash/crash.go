// Package crash runs a child process under strace and kills it before a chosen
// system call: "the process dies before the k-th system call, for every k".
package crash

import (
	"bufio"
	"encoding/base64"
	"encoding/json"
	"fmt"
	"os"
	"os/exec"
	"path/filepath"
	"strings"

	"github.com/opencontainers/go-digest"

	"verif/harness/gen"
)

// Op is one scripted operation.
type Op struct {
	Op        string `json:"op"`
	MediaType string `json:"mediaType,omitempty"`
	Digest    string `json:"digest,omitempty"`
	Size      int64  `json:"size,omitempty"`
	Data      string `json:"data,omitempty"` // base64 content (small)
	Seed      int    `json:"seed,omitempty"` // generated content (large)
	GenSize   int    `json:"genSize,omitempty"`
	Ref       string `json:"ref,omitempty"`
	User      string `json:"user,omitempty"`
	Pass      string `json:"pass,omitempty"`
	Refresh   string `json:"refresh,omitempty"`
	Access    string `json:"access,omitempty"`
	// Ann (oci tag): the descriptor carries annotations - one map object per digest,
	// shared by every tag of that content, as when a caller tags one descriptor
	// value under several names
	Ann bool `json:"ann,omitempty"`
}

// Content returns the bytes of a push.
func (o Op) Content() []byte {
	if o.GenSize > 0 {
		return gen.BlobBytes(o.Seed, o.GenSize)
	}
	b, _ := base64.StdEncoding.DecodeString(o.Data)
	return b
}

// DigestValue returns the digest.
func (o Op) DigestValue() digest.Digest { return digest.Digest(o.Digest) }

// Script is what the child executes.
type Script struct {
	Kind       string `json:"kind"` // oci, cred
	Dir        string `json:"dir"`  // layout directory / config file path
	Marker     string `json:"marker"`
	AutoGC     bool   `json:"autoGC"`
	NoAutoSave bool   `json:"noAutoSave,omitempty"`
	Prefix     []Op   `json:"prefix,omitempty"`
	Op         Op     `json:"op"`
	// Retry: when the operation returns an error it is repeated once (the caller's
	// retry); the exit code then reports the retry's result
	Retry bool `json:"retry,omitempty"`
	// Probe (cred): after an operation that ended in an error, the store it ran on
	// and a store opened afresh on the file are asked for these addresses; the
	// child exits with 81 when they disagree
	Probe []string `json:"probe,omitempty"`
}

// Point addresses a crash point: the N-th invocation (1-based, counted from process
// start, as strace counts) of Syscall.
type Point struct {
	Syscall string `json:"syscall"`
	N       int    `json:"n"`
	Line    string `json:"line"`
}

const traceSet = "openat,write,pwrite64,rename,renameat,renameat2,unlink,unlinkat,mkdir,mkdirat,fchmod,fchmodat,chmod,ftruncate,fsync,close,linkat,symlinkat"

// Runner holds the paths needed to run children.
type Runner struct {
	Child string // child binary
	Work  string // scratch directory for script and trace files
}

// Available reports whether strace can trace a process here.
func Available() error {
	out, err := exec.Command("strace", "-o", "/dev/null", "-e", "trace=close", "true").CombinedOutput()
	if err != nil {
		return fmt.Errorf("strace unusable: %v: %s", err, out)
	}
	return nil
}

func (r *Runner) writeScript(sc *Script, name string) (string, error) {
	p := filepath.Join(r.Work, name)
	b, _ := json.Marshal(sc)
	return p, os.WriteFile(p, b, 0o644)
}

func childEnv() []string {
	return append(os.Environ(), "GOMAXPROCS=1", "GODEBUG=asyncpreemptoff=1")
}

// RunPlain runs the child without tracing ("prefix" or "run" mode).
func (r *Runner) RunPlain(mode string, sc *Script) error {
	p, err := r.writeScript(sc, "script-"+mode+".json")
	if err != nil {
		return err
	}
	cmd := exec.Command(r.Child, mode, p)
	cmd.Env = childEnv()
	out, err := cmd.CombinedOutput()
	if err != nil {
		return fmt.Errorf("child %s: %v: %s", mode, err, out)
	}
	return nil
}

// Baseline traces an un-killed run and returns the crash points after the marker.
func (r *Runner) Baseline(sc *Script) ([]Point, error) {
	p, err := r.writeScript(sc, "script-run.json")
	if err != nil {
		return nil, err
	}
	tf := filepath.Join(r.Work, "trace.txt")
	os.Remove(tf)
	cmd := exec.Command("strace", "-o", tf, "-e", "trace="+traceSet, r.Child, "run", p)
	cmd.Env = childEnv()
	if out, err := cmd.CombinedOutput(); err != nil {
		return nil, fmt.Errorf("baseline: %v: %s", err, out)
	}
	f, err := os.Open(tf)
	if err != nil {
		return nil, err
	}
	defer f.Close()
	counts := map[string]int{}
	var pts []Point
	after := false
	scn := bufio.NewScanner(f)
	scn.Buffer(make([]byte, 1<<20), 1<<22)
	for scn.Scan() {
		line := scn.Text()
		i := strings.IndexByte(line, '(')
		if i <= 0 || strings.HasPrefix(line, "---") || strings.HasPrefix(line, "+++") {
			continue
		}
		name := line[:i]
		if strings.ContainsAny(name, " <") {
			continue
		}
		counts[name]++
		if after {
			l := line
			if len(l) > 160 {
				l = l[:160]
			}
			pts = append(pts, Point{Syscall: name, N: counts[name], Line: l})
		}
		if !after && name == "mkdirat" && strings.Contains(line, filepath.Base(sc.Marker)) {
			after = true
		}
	}
	if !after {
		return nil, fmt.Errorf("marker not found in baseline trace")
	}
	return pts, nil
}

// RunKilled runs the child and kills it before the syscall addressed by pt. It
// reports whether the child was indeed killed by the injected signal.
func (r *Runner) RunKilled(sc *Script, pt Point) (killed bool, err error) {
	p, err := r.writeScript(sc, "script-run.json")
	if err != nil {
		return false, err
	}
	cmd := exec.Command("strace", "-o", "/dev/null", "-e", "trace="+traceSet, "-e", fmt.Sprintf("inject=%s:signal=KILL:when=%d", pt.Syscall, pt.N), r.Child, "run", p)
	cmd.Env = childEnv()
	err = cmd.Run()
	if err == nil {
		return false, nil
	}
	if ee, ok := err.(*exec.ExitError); ok {
		// strace re-raises the tracee's fatal signal
		if !ee.Success() {
			return true, nil
		}
	}
	return false, err
}

// Faultable reports whether failing the system call (instead of killing the process
// before it) is a meaningful fault: calls whose error a program can act on.
func Faultable(name string) bool {
	switch name {
	case "openat", "write", "pwrite64", "rename", "renameat", "renameat2", "fsync", "fchmod", "fchmodat", "chmod", "ftruncate", "mkdir", "mkdirat", "linkat", "unlink", "unlinkat":
		return true
	}
	return false
}

// RunFaulted runs the child to completion while the system call addressed by pt
// fails with errno (e.g. "EIO", "ENOSPC") instead of being executed. It returns the
// child's exit code: 0 = the scripted operation returned nil, 80 = it returned an
// error; anything else is reported as err.
func (r *Runner) RunFaulted(sc *Script, pt Point, errno string) (exit int, err error) {
	return r.RunFaultedFrom(sc, pt, errno, false)
}

// RunFaultedFrom is RunFaulted; with persistent, the addressed call and every later
// call of the same kind fail (a disk that stays full).
func (r *Runner) RunFaultedFrom(sc *Script, pt Point, errno string, persistent bool) (exit int, err error) {
	p, err := r.writeScript(sc, "script-run.json")
	if err != nil {
		return -1, err
	}
	when := fmt.Sprint(pt.N)
	if persistent {
		when += "+"
	}
	cmd := exec.Command("strace", "-o", "/dev/null", "-e", "trace="+traceSet, "-e", fmt.Sprintf("inject=%s:error=%s:when=%s", pt.Syscall, errno, when), r.Child, "run", p)
	cmd.Env = childEnv()
	out, rerr := cmd.CombinedOutput()
	if rerr == nil {
		return 0, nil
	}
	if ee, ok := rerr.(*exec.ExitError); ok && ee.ExitCode() >= 80 && ee.ExitCode() <= 111 {
		return ee.ExitCode(), nil
	}
	return -1, fmt.Errorf("faulted run (%s %s #%d): %v: %s", errno, pt.Syscall, pt.N, rerr, out)
}
