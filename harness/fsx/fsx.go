// Package fsx holds file-system oracles that do not depend on oras-go: tree
// snapshots, an OCI image-layout validator and a tar writer.
package fsx

import (
	"archive/tar"
	"crypto/sha256"
	"crypto/sha512"
	"encoding/hex"
	"encoding/json"
	"fmt"
	"hash"
	"io"
	"io/fs"
	"os"
	"path/filepath"
	"sort"
	"strings"
)

// Entry is one file-system object in a snapshot.
type Entry struct {
	Path   string `json:"path"`
	Type   string `json:"type"` // file, dir, symlink, other
	Mode   uint32 `json:"mode"`
	Size   int64  `json:"size"`
	Hash   string `json:"hash,omitempty"`
	Target string `json:"target,omitempty"`
}

func (e Entry) String() string {
	return fmt.Sprintf("%s[%s mode=%o size=%d hash=%.12s target=%q]", e.Path, e.Type, e.Mode, e.Size, e.Hash, e.Target)
}

// Snapshot walks root (not following symlinks) and returns a sorted entry list.
// Paths in skip (relative to root, prefix match on path components) are omitted.
func Snapshot(root string, skip ...string) ([]Entry, error) {
	var out []Entry
	err := filepath.Walk(root, func(p string, info fs.FileInfo, err error) error {
		if err != nil {
			if os.IsNotExist(err) {
				return nil
			}
			return err
		}
		rel, _ := filepath.Rel(root, p)
		for _, s := range skip {
			if rel == s || strings.HasPrefix(rel, s+string(filepath.Separator)) {
				if info.IsDir() {
					return filepath.SkipDir
				}
				return nil
			}
		}
		e := Entry{Path: rel, Mode: uint32(info.Mode().Perm() | info.Mode()&(os.ModeSetuid|os.ModeSetgid|os.ModeSticky))}
		switch {
		case info.Mode()&os.ModeSymlink != 0:
			e.Type = "symlink"
			e.Target, _ = os.Readlink(p)
			e.Mode = 0
		case info.IsDir():
			e.Type = "dir"
		case info.Mode().IsRegular():
			e.Type = "file"
			e.Size = info.Size()
			b, err := os.ReadFile(p)
			if err != nil {
				e.Hash = "unreadable:" + err.Error()
			} else {
				h := sha256.Sum256(b)
				e.Hash = hex.EncodeToString(h[:])
			}
		default:
			e.Type = "other"
		}
		out = append(out, e)
		return nil
	})
	sort.Slice(out, func(i, j int) bool { return out[i].Path < out[j].Path })
	return out, err
}

// Diff returns human-readable differences between two snapshots.
func Diff(a, b []Entry) []string {
	am := map[string]Entry{}
	for _, e := range a {
		am[e.Path] = e
	}
	bm := map[string]Entry{}
	for _, e := range b {
		bm[e.Path] = e
	}
	var out []string
	for _, e := range a {
		o, ok := bm[e.Path]
		if !ok {
			out = append(out, "removed "+e.String())
		} else if o != e {
			out = append(out, "changed "+e.String()+" -> "+o.String())
		}
	}
	for _, e := range b {
		if _, ok := am[e.Path]; !ok {
			out = append(out, "created "+e.String())
		}
	}
	sort.Strings(out)
	return out
}

// DiffPaths returns the paths that differ.
func DiffPaths(a, b []Entry) []string {
	am := map[string]Entry{}
	for _, e := range a {
		am[e.Path] = e
	}
	bm := map[string]Entry{}
	for _, e := range b {
		bm[e.Path] = e
	}
	set := map[string]bool{}
	for _, e := range a {
		if o, ok := bm[e.Path]; !ok || o != e {
			set[e.Path] = true
		}
	}
	for _, e := range b {
		if _, ok := am[e.Path]; !ok {
			set[e.Path] = true
		}
	}
	var out []string
	for p := range set {
		out = append(out, p)
	}
	sort.Strings(out)
	return out
}

// ---------------------------------------------------------------------------------

// TarDir writes dir as a tar archive at dst using the given header format
// ("ustar", "pax", "gnu"). Directories get their own entries; names are relative
// without a leading "./" unless dotSlash is set.
func TarDir(dir, dst, format string, dotSlash bool) error {
	return TarDirAppended(dir, dst, format, dotSlash, nil)
}

// TarDirAppended writes the archive the way "tar -r" leaves one after an update: an
// earlier record of index.json (staleIndex, when not nil) comes first, the current
// tree follows. Readers of a tar archive take the LAST record of a name.
func TarDirAppended(dir, dst, format string, dotSlash bool, staleIndex []byte) error {
	f, err := os.Create(dst)
	if err != nil {
		return err
	}
	defer f.Close()
	tw := tar.NewWriter(f)
	if staleIndex != nil {
		name := "index.json"
		if dotSlash {
			name = "./" + name
		}
		if err := tw.WriteHeader(&tar.Header{Name: name, Mode: 0o644, Typeflag: tar.TypeReg, Size: int64(len(staleIndex))}); err != nil {
			return err
		}
		if _, err := tw.Write(staleIndex); err != nil {
			return err
		}
	}
	var tf tar.Format
	switch format {
	case "ustar":
		tf = tar.FormatUSTAR
	case "gnu":
		tf = tar.FormatGNU
	default:
		tf = tar.FormatPAX
	}
	var paths []string
	err = filepath.Walk(dir, func(p string, info fs.FileInfo, err error) error {
		if err != nil {
			return err
		}
		if p != dir {
			paths = append(paths, p)
		}
		return nil
	})
	if err != nil {
		return err
	}
	sort.Strings(paths)
	for _, p := range paths {
		info, err := os.Lstat(p)
		if err != nil {
			return err
		}
		rel, _ := filepath.Rel(dir, p)
		rel = filepath.ToSlash(rel)
		if dotSlash {
			rel = "./" + rel
		}
		hdr := &tar.Header{Name: rel, Mode: int64(info.Mode().Perm()), Format: tf}
		switch {
		case info.IsDir():
			hdr.Typeflag = tar.TypeDir
			hdr.Name += "/"
		case info.Mode().IsRegular():
			hdr.Typeflag = tar.TypeReg
			hdr.Size = info.Size()
		default:
			continue
		}
		if tf == tar.FormatUSTAR && len(hdr.Name) > 100 {
			// USTAR can split at a slash into prefix(155)+name(100); the std
			// library does that itself, but fails when impossible: fall back to PAX.
			hdr.Format = tar.FormatPAX
		}
		if err := tw.WriteHeader(hdr); err != nil {
			if tf == tar.FormatUSTAR {
				hdr.Format = tar.FormatPAX
				if err2 := tw.WriteHeader(hdr); err2 != nil {
					return err2
				}
			} else {
				return err
			}
		}
		if hdr.Typeflag == tar.TypeReg {
			b, err := os.ReadFile(p)
			if err != nil {
				return err
			}
			if _, err := tw.Write(b); err != nil {
				return err
			}
		}
	}
	return tw.Close()
}

// ---------------------------------------------------------------------------------

// LayoutDesc is a descriptor as found in index.json.
type LayoutDesc struct {
	MediaType   string            `json:"mediaType"`
	Digest      string            `json:"digest"`
	Size        int64             `json:"size"`
	Annotations map[string]string `json:"annotations,omitempty"`
}

// LayoutIndex is index.json decoded independently.
type LayoutIndex struct {
	SchemaVersion int          `json:"schemaVersion"`
	MediaType     string       `json:"mediaType,omitempty"`
	Manifests     []LayoutDesc `json:"manifests"`
}

// LayoutProblem is one validity problem; Kind is a stable class.
type LayoutProblem struct {
	Kind string
	Msg  string
}

func (p LayoutProblem) String() string { return p.Kind + ": " + p.Msg }

func hasher(alg string) hash.Hash {
	switch alg {
	case "sha256":
		return sha256.New()
	case "sha384":
		return sha512.New384()
	case "sha512":
		return sha512.New()
	}
	return nil
}

// ReadIndex decodes index.json.
func ReadIndex(dir string) (*LayoutIndex, error) {
	b, err := os.ReadFile(filepath.Join(dir, "index.json"))
	if err != nil {
		return nil, err
	}
	var idx LayoutIndex
	if err := json.Unmarshal(b, &idx); err != nil {
		return nil, err
	}
	return &idx, nil
}

// ValidateLayout checks dir against the OCI image-layout rules the properties name.
// allEntries extends the "names an existing blob" rule from entries that carry a
// reference name to every entry (C10's wording).
func ValidateLayout(dir string, allEntries bool) []LayoutProblem {
	var probs []LayoutProblem
	add := func(kind, format string, args ...any) {
		probs = append(probs, LayoutProblem{kind, fmt.Sprintf(format, args...)})
	}
	b, err := os.ReadFile(filepath.Join(dir, "oci-layout"))
	if err != nil {
		add("oci-layout-unreadable", "%v", err)
	} else {
		var l struct {
			V string `json:"imageLayoutVersion"`
		}
		if err := json.Unmarshal(b, &l); err != nil {
			add("oci-layout-unparsable", "%v", err)
		} else if l.V != "1.0.0" {
			add("oci-layout-version", "%q", l.V)
		}
	}
	idx, err := ReadIndex(dir)
	if err != nil {
		add("index-unparsable", "%v", err)
	} else {
		if idx.SchemaVersion != 2 {
			add("index-schema-version", "%d", idx.SchemaVersion)
		}
		seen := map[string]bool{}
		for _, m := range idx.Manifests {
			ref := m.Annotations["org.opencontainers.image.ref.name"]
			if ref != "" {
				if seen[ref] {
					add("index-duplicate-ref", "%q", ref)
				}
				seen[ref] = true
			}
			if ref == "" && !allEntries {
				continue
			}
			alg, enc, ok := strings.Cut(m.Digest, ":")
			if !ok {
				add("index-bad-digest", "%q", m.Digest)
				continue
			}
			st, err := os.Stat(filepath.Join(dir, "blobs", alg, enc))
			if err != nil {
				add("index-entry-missing-blob", "entry ref=%q digest=%s: %v", ref, m.Digest, err)
				continue
			}
			if st.Size() != m.Size {
				add("index-entry-size", "entry ref=%q digest=%s size=%d, file has %d", ref, m.Digest, m.Size, st.Size())
			}
		}
	}
	blobs := filepath.Join(dir, "blobs")
	algs, err := os.ReadDir(blobs)
	if err != nil {
		add("blobs-unreadable", "%v", err)
		return probs
	}
	for _, a := range algs {
		if !a.IsDir() {
			continue
		}
		h := hasher(a.Name())
		if h == nil {
			continue
		}
		ents, err := os.ReadDir(filepath.Join(blobs, a.Name()))
		if err != nil {
			add("blobs-unreadable", "%v", err)
			continue
		}
		for _, e := range ents {
			if !e.Type().IsRegular() {
				continue // not a blob file (the layout spec only speaks of files)
			}
			p := filepath.Join(blobs, a.Name(), e.Name())
			f, err := os.Open(p)
			if err != nil {
				add("blob-unreadable", "%s: %v", p, err)
				continue
			}
			h.Reset()
			_, err = io.Copy(h, f)
			f.Close()
			if err != nil {
				add("blob-unreadable", "%s: %v", p, err)
				continue
			}
			if got := hex.EncodeToString(h.Sum(nil)); got != e.Name() {
				add("blob-name-mismatch", "%s/%s hashes to %s", a.Name(), e.Name(), got)
			}
		}
	}
	return probs
}

// CopyTree copies a directory tree (regular files, dirs, symlinks) preserving modes.
func CopyTree(src, dst string) error {
	return filepath.Walk(src, func(p string, info fs.FileInfo, err error) error {
		if err != nil {
			return err
		}
		rel, _ := filepath.Rel(src, p)
		to := filepath.Join(dst, rel)
		switch {
		case info.Mode()&os.ModeSymlink != 0:
			t, err := os.Readlink(p)
			if err != nil {
				return err
			}
			return os.Symlink(t, to)
		case info.IsDir():
			return os.MkdirAll(to, info.Mode().Perm()|0o700)
		case info.Mode().IsRegular():
			b, err := os.ReadFile(p)
			if err != nil {
				return err
			}
			if err := os.WriteFile(to, b, info.Mode().Perm()); err != nil {
				return err
			}
			return os.Chmod(to, info.Mode().Perm())
		}
		return nil
	})
}
