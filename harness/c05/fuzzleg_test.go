package c05

import (
	"testing"

	"verif/harness/vt"
)

// FuzzMain drives the "main" leg's generator with the native fuzzer's bytes
// (rapid.MakeFuzz); the leg's runner is the oracle. Thorough tier only.
func FuzzMain(f *testing.F) { vt.FuzzLeg(f, "main") }
