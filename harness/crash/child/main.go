// Command child executes one scripted store operation; the crash runner traces it
// with strace and kills it before a chosen system call.
package main

import (
	"bytes"
	"context"
	_ "crypto/sha256"
	_ "crypto/sha512"
	"encoding/json"
	"fmt"
	"os"
	"runtime"

	ocispec "github.com/opencontainers/image-spec/specs-go/v1"
	"oras.land/oras-go/v2/content/oci"
	"oras.land/oras-go/v2/registry/remote/auth"
	"oras.land/oras-go/v2/registry/remote/credentials"

	"verif/harness/crash"
)

func init() {
	// the main goroutine stays on the initial thread, the only one strace follows
	runtime.LockOSThread()
}

func fatal(code int) { os.Exit(code) }

func main() {
	if len(os.Args) != 3 {
		fatal(64)
	}
	mode := os.Args[1]
	b, err := os.ReadFile(os.Args[2])
	if err != nil {
		fatal(65)
	}
	var sc crash.Script
	if err := json.Unmarshal(b, &sc); err != nil {
		fatal(66)
	}
	ctx := context.Background()
	switch sc.Kind {
	case "oci":
		s, err := oci.New(sc.Dir)
		if err != nil {
			fatal(70)
		}
		s.AutoGC = sc.AutoGC
		s.AutoSaveIndex = !sc.NoAutoSave
		ops := sc.Prefix
		if mode == "run" {
			ops = []crash.Op{sc.Op}
			if err := os.Mkdir(sc.Marker, 0o755); err != nil {
				fatal(71)
			}
		}
		for _, op := range ops {
			if err := doOCI(ctx, s, op); err != nil && mode == "run" {
				fatal(80)
			}
		}
	case "cred":
		fs, err := credentials.NewFileStore(sc.Dir)
		if err != nil {
			fatal(70)
		}
		ops := sc.Prefix
		if mode == "run" {
			ops = []crash.Op{sc.Op}
			if err := os.Mkdir(sc.Marker, 0o755); err != nil {
				fatal(71)
			}
		}
		for _, op := range ops {
			var err error
			switch op.Op {
			case "put":
				err = fs.Put(ctx, op.Ref, auth.Credential{Username: op.User, Password: op.Pass, RefreshToken: op.Refresh, AccessToken: op.Access})
			case "delete":
				err = fs.Delete(ctx, op.Ref)
			}
			if err != nil && mode == "run" && sc.Retry {
				switch op.Op {
				case "put":
					err = fs.Put(ctx, op.Ref, auth.Credential{Username: op.User, Password: op.Pass, RefreshToken: op.Refresh, AccessToken: op.Access})
				case "delete":
					err = fs.Delete(ctx, op.Ref)
				}
			}
			if err != nil && mode == "run" {
				// the store lives on after a failed call: it must answer like a store
				// that reads the file afresh
				if fresh, ferr := credentials.NewFileStore(sc.Dir); ferr == nil {
					for pi, addr := range sc.Probe {
						a, ea := fs.Get(ctx, addr)
						b, eb := fresh.Get(ctx, addr)
						if ea == nil && eb == nil && a != b {
							os.WriteFile(sc.Marker+".disagree", []byte(fmt.Sprintf("Get(%q): the store the failed %s ran on answers {%q %q %q %q}, a store opened on the file {%q %q %q %q}", addr, op.Op, a.Username, a.Password, a.RefreshToken, a.AccessToken, b.Username, b.Password, b.RefreshToken, b.AccessToken)), 0o644)
							if pi > 30 {
								pi = 30
							}
							fatal(81 + pi) // (the detail file cannot be written while write(2) is made to fail)
						}
					}
				}
				fatal(80)
			}
		}
	default:
		fatal(67)
	}
}

var annCache = map[string]map[string]string{}

func doOCI(ctx context.Context, s *oci.Store, op crash.Op) error {
	desc := ocispec.Descriptor{MediaType: op.MediaType, Digest: op.DigestValue(), Size: op.Size}
	switch op.Op {
	case "push":
		return s.Push(ctx, desc, bytes.NewReader(op.Content()))
	case "tag":
		if op.Ann {
			if annCache[op.Digest] == nil {
				annCache[op.Digest] = map[string]string{"verif.described": "yes"}
			}
			desc.Annotations = annCache[op.Digest]
		}
		return s.Tag(ctx, desc, op.Ref)
	case "untag":
		return s.Untag(ctx, op.Ref)
	case "delete":
		return s.Delete(ctx, desc)
	case "gc":
		return s.GC(ctx)
	case "save":
		return s.SaveIndex()
	}
	return nil
}
