package c08

import (
	"bytes"
	"context"
	"fmt"
	"os"
	"path/filepath"
	"sort"
	"strings"
	"sync"
	"testing"
	"time"

	ocispec "github.com/opencontainers/image-spec/specs-go/v1"
	"oras.land/oras-go/v2/content/oci"
	"pgregory.net/rapid"

	"verif/harness/fsx"
	"verif/harness/gen"
	"verif/harness/orc"
	"verif/harness/vt"
)

const watchdog = 20 * time.Second

// Op is one step of the history.
type Op struct {
	Op   string            `json:"op"` // push, tag, untag, delete, gc, save, reopen, switch
	N    int               `json:"n,omitempty"`
	Ref  string            `json:"ref,omitempty"`
	Ann  map[string]string `json:"ann,omitempty"` // annotations on the descriptor given to Tag
	Fmt  string            `json:"fmt,omitempty"` // tar format for the tar view
	Last string            `json:"last,omitempty"`
}

// Case is one generated history.
type Case struct {
	Specs    []gen.NodeSpec `json:"specs"`
	AutoSave bool           `json:"autoSave"`
	AutoGC   bool           `json:"autoGC"`
	// SaveAfterGC: call SaveIndex right after every GC (used to keep searching
	// behind a known finding; off in the normal campaign).
	Ops []Op `json:"ops"`
}

var refNames = []string{"latest", "v1.0", "a/b:c", "x_y-z", "sig"}
var lasts = []string{"", "a", "latest", "m", "v1.0", "zzz"}

func genCase(t *rapid.T) Case {
	max, steps := 10, 25
	if vt.Thorough() {
		max, steps = 16, 50
	}
	o := gen.DAGOpts{MaxNodes: max, Referrers: rapid.Bool().Draw(t, "referrers"), NoBigBlobs: true, NoAbsent: true, SingleMT: true}
	c := Case{Specs: gen.Specs(t, o), AutoSave: rapid.IntRange(0, 2).Draw(t, "autoSave") != 0, AutoGC: rapid.Bool().Draw(t, "autoGC")}
	d := gen.Build(c.Specs)
	ids := d.CanonIDs()
	n := rapid.IntRange(3, steps).Draw(t, "nOps")
	for i := 0; i < n; i++ {
		var op Op
		switch r := rapid.IntRange(0, 99).Draw(t, "opRoll"); {
		case r < 35:
			op = Op{Op: "push", N: rapid.SampledFrom(ids).Draw(t, "pushN")}
			if r >= 32 {
				// the index save of this push fails once; the caller then tags by digest
				op.Op = "pushfault"
			}
		case r < 58:
			op = Op{Op: "tag", N: rapid.SampledFrom(ids).Draw(t, "tagN"), Ref: rapid.SampledFrom(refNames).Draw(t, "ref")}
			if r >= 55 {
				// the index save of this Tag fails once; the caller retries
				op.Op = "tagfault"
			}
			switch rapid.IntRange(0, 5).Draw(t, "annKind") {
			case 0:
				op.Ann = map[string]string{"k": "v" + fmt.Sprint(i)}
			case 1:
				op.Ann = map[string]string{ocispec.AnnotationRefName: "preset", "k": "w"}
			case 2:
				op.Ann = map[string]string{ocispec.AnnotationRefName: "only"}
			}
		case r < 64:
			op = Op{Op: "untag", Ref: rapid.SampledFrom(refNames).Draw(t, "uref")}
		case r < 76:
			op = Op{Op: "delete", N: rapid.SampledFrom(ids).Draw(t, "delN")}
		case r < 82:
			op = Op{Op: "gc"}
		case r < 84:
			op = Op{Op: "save"}
		case r < 86:
			op = Op{Op: "straydir", N: i}
		case r < 89:
			op = Op{Op: "burst", N: rapid.SampledFrom(ids).Draw(t, "burstN"), Last: fmt.Sprint(rapid.IntRange(2, 12).Draw(t, "burstK"))}
		case r < 96:
			op = Op{Op: "reopen", Fmt: rapid.SampledFrom([]string{"ustar", "pax", "gnu"}).Draw(t, "fmt"), Last: rapid.SampledFrom(lasts).Draw(t, "last")}
		default:
			op = Op{Op: "switch"}
		}
		c.Ops = append(c.Ops, op)
	}
	c.Ops = append(c.Ops, Op{Op: "reopen", Fmt: rapid.SampledFrom([]string{"ustar", "pax", "gnu"}).Draw(t, "fmtEnd"), Last: rapid.SampledFrom(lasts).Draw(t, "lastEnd")})
	return c
}

func stripRefName(d ocispec.Descriptor) string {
	var ks []string
	for k, v := range d.Annotations {
		if k == ocispec.AnnotationRefName {
			continue
		}
		ks = append(ks, k+"="+v)
	}
	sort.Strings(ks)
	return fmt.Sprintf("%s|%s|%d|%v", d.MediaType, d.Digest, d.Size, ks)
}

func tagsOf(ctx context.Context, v orc.OCIView, last string) ([]string, error) {
	var out []string
	err := v.Tags(ctx, last, func(t []string) error { out = append(out, t...); return nil })
	return out, err
}

// compareViews is the differential oracle: the live store and a reopened view must
// answer every observation identically.
func compareViews(ctx context.Context, live, view orc.OCIView, d *gen.DAG, dir, last, viewName, when string, gcThenDelete bool) *vt.Fail {
	for _, l := range []string{"", last} {
		a, err := tagsOf(ctx, live, l)
		if err != nil {
			return vt.Failf("C08/tags-error", "%s: live Tags(%q): %v", when, l, err)
		}
		b, err := tagsOf(ctx, view, l)
		if err != nil {
			return vt.Failf("C08/tags-error", "%s: %s Tags(%q): %v", when, viewName, l, err)
		}
		if fmt.Sprint(a) != fmt.Sprint(b) {
			return vt.Failf("C08/reopen-tags-differ", "%s: Tags(%q): live %v, %s %v", when, l, a, viewName, b)
		}
		if !sort.StringsAreSorted(a) {
			return vt.Failf("C08/tags-unsorted", "%s: live Tags(%q) = %v", when, l, a)
		}
		for _, tg := range a {
			if l != "" && tg <= l {
				return vt.Failf("C08/tags-last", "%s: Tags(%q) returned %q", when, l, tg)
			}
		}
		if l == "" {
			for _, tg := range a {
				x, err1 := live.Resolve(ctx, tg)
				y, err2 := view.Resolve(ctx, tg)
				if err1 != nil || err2 != nil {
					return vt.Failf("C08/reopen-resolve-error", "%s: Resolve(%q): live err=%v, %s err=%v", when, tg, err1, viewName, err2)
				}
				if stripRefName(x) != stripRefName(y) {
					return vt.Failf("C08/reopen-resolve-differs", "%s: Resolve(%q): live %s, %s %s", when, tg, stripRefName(x), viewName, stripRefName(y))
				}
			}
		}
	}
	for _, id := range d.CanonIDs() {
		n := d.Nodes[id]
		x, err1 := live.Resolve(ctx, n.Desc.Digest.String())
		y, err2 := view.Resolve(ctx, n.Desc.Digest.String())
		if (err1 == nil) != (err2 == nil) {
			return vt.Failf("C08/reopen-resolve-digest-differs", "%s: Resolve(digest of node %d %s): live err=%v, %s err=%v", when, id, n.Spec.Kind, err1, viewName, err2)
		}
		if err1 == nil && gen.TripleKey(x) != gen.TripleKey(y) {
			return vt.Failf("C08/reopen-resolve-digest-differs", "%s: Resolve(digest of node %d): live %s, %s %s", when, id, gen.TripleKey(x), viewName, gen.TripleKey(y))
		}
		e1, err1 := live.Exists(ctx, n.Desc)
		e2, err2 := view.Exists(ctx, n.Desc)
		if err1 != nil || err2 != nil || e1 != e2 {
			return vt.Failf("C08/reopen-exists-differs", "%s: Exists(node %d): live %v/%v, %s %v/%v", when, id, e1, err1, viewName, e2, err2)
		}
		b1, err1 := gen.ReadBack(ctx, live, n.Desc)
		b2, err2 := gen.ReadBack(ctx, view, n.Desc)
		if (err1 == nil) != (err2 == nil) || !bytes.Equal(b1, b2) {
			return vt.Failf("C08/reopen-fetch-differs", "%s: Fetch(node %d): live %d bytes err=%v, %s %d bytes err=%v", when, id, len(b1), err1, viewName, len(b2), err2)
		}
		if err1 == nil && !bytes.Equal(b1, n.Bytes) {
			return vt.Failf("C08/fetch-wrong-bytes", "%s: Fetch(node %d) returned bytes that differ from what was pushed", when, id)
		}
		p1, err1 := live.Predecessors(ctx, n.Desc)
		p2, err2 := view.Predecessors(ctx, n.Desc)
		if err1 != nil || err2 != nil {
			return vt.Failf("C08/predecessors-error", "%s: Predecessors(node %d): %v / %v", when, id, err1, err2)
		}
		if gen.TripleSetString(p1) != gen.TripleSetString(p2) {
			if onlyUnindexedMissing(ctx, live, d, dir, p1, p2) && !gcThenDelete {
				// not the listed finding (that one needs a GC and a later Delete)
				return vt.Failf("C08/stored-manifest-missing-from-index", "%s: Predecessors(node %d %s): live %s, %s %s (the omitted manifests are stored but no index.json entry reaches them, and no GC + Delete preceded)", when, id, n.Spec.Kind, gen.TripleSetString(p1), viewName, gen.TripleSetString(p2))
			}
			if onlyUnindexedMissing(ctx, live, d, dir, p1, p2) {
				return vt.Failf("C08/reopen-omits-unindexed-manifest", "%s: Predecessors(node %d %s): live %s, %s %s (the omitted manifests are stored but not reachable from any index.json entry)", when, id, n.Spec.Kind, gen.TripleSetString(p1), viewName, gen.TripleSetString(p2))
			}
			return vt.Failf("C08/reopen-predecessors-differ", "%s: Predecessors(node %d %s): live %s, %s %s", when, id, n.Spec.Kind, gen.TripleSetString(p1), viewName, gen.TripleSetString(p2))
		}
	}
	return nil
}

// onlyUnindexedMissing reports whether the view's predecessor list equals the live
// one minus manifests that are stored but unreachable from index.json.
func onlyUnindexedMissing(ctx context.Context, live orc.OCIView, d *gen.DAG, dir string, liveP, viewP []ocispec.Descriptor) bool {
	stored := map[int]bool{}
	for _, id := range d.CanonIDs() {
		if ok, err := live.Exists(ctx, d.Nodes[id].Desc); err == nil && ok {
			stored[id] = true
		}
	}
	indexed, err := orc.IndexedSet(dir, d, stored)
	if err != nil {
		return false
	}
	byKey := map[string]int{}
	for _, id := range d.CanonIDs() {
		byKey[gen.TripleKey(d.Nodes[id].Desc)] = id
	}
	inView := map[string]bool{}
	for _, p := range viewP {
		inView[gen.TripleKey(p)] = true
	}
	inLive := map[string]bool{}
	missing := 0
	for _, p := range liveP {
		k := gen.TripleKey(p)
		inLive[k] = true
		if inView[k] {
			continue
		}
		id, ok := byKey[k]
		if !ok || !stored[id] || indexed[id] {
			return false
		}
		missing++
	}
	for k := range inView {
		if !inLive[k] {
			return false
		}
	}
	return missing > 0
}

func runCase(c Case) (res vt.Result, fail *vt.Fail) {
	ctx := context.Background()
	d := gen.Build(c.Specs)
	root := vt.Scratch("c08-")
	defer os.RemoveAll(root)
	dir := filepath.Join(root, "layout")
	s, err := oci.New(dir)
	if err != nil {
		return res, vt.Failf("harness/oci-new", "%v", err)
	}
	s.AutoSaveIndex, s.AutoGC = c.AutoSave, c.AutoGC
	classes := map[string]bool{}
	stored := map[int]bool{}
	tags := map[string]int{}
	retag, multiTag, removal, midReopen := false, false, false, false
	var prevIndex []byte
	dirty := false // AutoSaveIndex off: in-memory index may differ from disk

	validate := func(when string) *vt.Fail {
		if probs := fsx.ValidateLayout(dir, false); len(probs) > 0 {
			return vt.Failf("C08/layout-invalid/"+probs[0].Kind, "%s: %v", when, probs)
		}
		return nil
	}

	annObj := map[int]map[string]string{}
	sawGC, gcThenDelete := false, false
	ops := append([]Op(nil), c.Ops...)
	for i := 0; i < len(ops); i++ {
		op := ops[i]
		when := fmt.Sprintf("at step %d (%s n=%d ref=%q)", i, op.Op, op.N, op.Ref)
		switch op.Op {
		case "gc":
			sawGC = true
		case "delete":
			gcThenDelete = gcThenDelete || sawGC
		}
		switch op.Op {
		case "push", "pushfault":
			if stored[op.N] {
				continue
			}
			if op.Op == "pushfault" && c.AutoSave && d.IsManifest(op.N) {
				// a directory in the way of the temporary index file makes the index
				// save of this push fail; the blob is stored, so the caller's way to
				// finish is to tag the manifest by its digest once the fault is gone
				obst := filepath.Join(dir, "index.json.tmp")
				if err := os.Mkdir(obst, 0o755); err != nil {
					return res, vt.Failf("harness/obstruct", "%v", err)
				}
				perr := gen.PushNode(ctx, s, d.Nodes[op.N])
				os.Remove(obst)
				if perr != nil {
					classes["push-failed-on-index-save"] = true
					ok, err := s.Exists(ctx, d.Nodes[op.N].Desc)
					if err != nil {
						return res, vt.Failf("harness/exists", "%v", err)
					}
					if !ok {
						// nothing was kept: an ordinary push is the retry
						if err := gen.PushNode(ctx, s, d.Nodes[op.N]); err != nil {
							return res, vt.Failf("C08/push-failed", "%s (retry after failed index save): %v", when, err)
						}
					} else if err := s.Tag(ctx, d.Nodes[op.N].Desc, d.Nodes[op.N].Desc.Digest.String()); err != nil {
						return res, vt.Failf("C08/tag-failed", "%s (tag by digest after failed index save): %v", when, err)
					}
				}
				stored[op.N] = true
				dirty = true
				continue
			}
			if i%4 == 2 && d.IsManifest(op.N) {
				// the pushed descriptor carries a reference name of its own (as one
				// resolved by tag from another layout does, e.g. in CopyGraph)
				pd := d.Nodes[op.N].PushDesc()
				pd.Annotations = map[string]string{ocispec.AnnotationRefName: "pushed-as", "k": "p"}
				if err := s.Push(ctx, pd, bytes.NewReader(d.Nodes[op.N].Bytes)); err != nil {
					return res, vt.Failf("C08/push-failed", "%s: %v", when, err)
				}
				classes["pushed-with-a-ref-name-annotation"] = true
			} else if err := gen.PushNode(ctx, s, d.Nodes[op.N]); err != nil {
				return res, vt.Failf("C08/push-failed", "%s: %v", when, err)
			}
			stored[op.N] = true
			dirty = true
		case "tag", "tagfault":
			if !stored[op.N] {
				continue
			}
			desc := d.Nodes[op.N].Desc
			desc.Annotations = op.Ann
			if op.Ann != nil {
				// a caller tagging one descriptor value under several references hands
				// the store the same annotation map each time
				if prev, ok := annObj[op.N]; ok && i%2 == 0 {
					desc.Annotations = prev
					classes["same-descriptor-value-tagged-again"] = true
				} else {
					annObj[op.N] = op.Ann
				}
			}
			if op.Op == "tagfault" && c.AutoSave {
				obst := filepath.Join(dir, "index.json.tmp")
				if err := os.Mkdir(obst, 0o755); err != nil {
					return res, vt.Failf("harness/obstruct", "%v", err)
				}
				terr := s.Tag(ctx, desc, op.Ref)
				os.Remove(obst)
				if terr != nil {
					classes["tag-failed-on-index-save"] = true
				}
				// whatever it returned, the caller now repeats the Tag
			}
			if err := s.Tag(ctx, desc, op.Ref); err != nil {
				return res, vt.Failf("C08/tag-failed", "%s: %v", when, err)
			}
			if old, ok := tags[op.Ref]; ok && old != op.N {
				retag = true
			}
			for r, n := range tags {
				if n == op.N && r != op.Ref {
					multiTag = true
				}
			}
			tags[op.Ref] = op.N
			if !d.IsManifest(op.N) {
				classes["tagged-blob"] = true
			}
			if len(op.Ann) > 0 {
				classes["annotated-tag-descriptor"] = true
			}
			dirty = true
		case "untag":
			if _, ok := tags[op.Ref]; !ok {
				continue
			}
			if err := s.Untag(ctx, op.Ref); err != nil {
				return res, vt.Failf("C08/untag-failed", "%s: %v", when, err)
			}
			delete(tags, op.Ref)
			removal = true
			dirty = true
		case "delete":
			if !stored[op.N] {
				continue
			}
			var derr error
			fin, _ := vt.Watch(watchdog, func() { derr = s.Delete(ctx, d.Nodes[op.N].Desc) })
			if !fin {
				vt.Infra("%s: Delete did not return (see C09)", when)
			}
			if derr != nil {
				classes["stopped-at-delete-error"] = true
				res.Classes = keys(classes)
				return res, nil
			}
			removal = true
			dirty = true
			// what is stored / tagged now is read back from the store itself
			for id := range stored {
				ok, err := s.Exists(ctx, d.Nodes[id].Desc)
				if err != nil {
					return res, vt.Failf("harness/exists", "%v", err)
				}
				if !ok {
					delete(stored, id)
					for r, n := range tags {
						if n == id {
							delete(tags, r)
						}
					}
				}
			}
		case "gc":
			var gerr error
			fin, _ := vt.Watch(watchdog, func() { gerr = s.GC(ctx) })
			if !fin {
				vt.Infra("%s: GC did not return (see C09)", when)
			}
			if gerr != nil {
				// a GC that fails part-way (here: an unremovable entry under blobs/)
				// is still an operation after which the layout must reopen to what
				// the live store reports
				classes["gc-failed-part-way"] = true
				// no fault-free history continues from a half-finished GC: compare
				// live and reopened state right now and end the case
				ops = append(ops[:i+1], Op{Op: "reopen", Fmt: "pax"})
			}
			classes["gc"] = true
			dirty = true
			for id := range stored {
				ok, err := s.Exists(ctx, d.Nodes[id].Desc)
				if err != nil {
					return res, vt.Failf("harness/exists", "%v", err)
				}
				if !ok {
					delete(stored, id)
				}
			}
		case "straydir":
			// a non-empty directory whose name looks like a digest: GC cannot remove it
			p := filepath.Join(dir, "blobs", "sha256", fmt.Sprintf("%064x", op.N+1))
			if err := os.MkdirAll(filepath.Join(p, "x"), 0o755); err != nil {
				return res, vt.Failf("harness/straydir", "%v", err)
			}
			classes["unremovable-stray"] = true
		case "burst":
			if !stored[op.N] {
				continue
			}
			// several Tag calls at once
			k := 2
			fmt.Sscan(op.Last, &k)
			var wg sync.WaitGroup
			errs := make([]error, k)
			var saveErr error
			if !c.AutoSave {
				// without automatic saving the caller saves - here while others are
				// still tagging (tags carry a few KiB so that a save takes a moment);
				// the quiescent SaveIndex before the next observation must write
				// whatever a save in flight missed
				wg.Add(1)
				go func() {
					defer wg.Done()
					for r := 0; r < 6 && saveErr == nil; r++ {
						saveErr = s.SaveIndex()
					}
				}()
			}
			for g := 0; g < k; g++ {
				wg.Add(1)
				go func(g int) {
					defer wg.Done()
					bd := d.Nodes[op.N].Desc
					if !c.AutoSave {
						bd.Annotations = map[string]string{"pad": strings.Repeat("p", 6000)}
					}
					errs[g] = s.Tag(ctx, bd, fmt.Sprintf("burst-%d-%d", i, g))
				}(g)
			}
			wg.Wait()
			if saveErr != nil {
				return res, vt.Failf("C08/saveindex-failed", "%s: SaveIndex during a burst of tags: %v", when, saveErr)
			}
			for g, err := range errs {
				if err != nil {
					return res, vt.Failf("C08/tag-failed", "%s: concurrent Tag %d: %v", when, g, err)
				}
				tags[fmt.Sprintf("burst-%d-%d", i, g)] = op.N
			}
			classes["concurrent-tag-burst"] = true
			dirty = true
		case "save":
			if err := s.SaveIndex(); err != nil {
				return res, vt.Failf("C08/saveindex-failed", "%s: %v", when, err)
			}
			dirty = false
		case "reopen", "switch":
			if !c.AutoSave && dirty {
				if err := s.SaveIndex(); err != nil {
					return res, vt.Failf("C08/saveindex-failed", "%s: %v", when, err)
				}
				dirty = false
			}
			if f := validate(when); f != nil {
				res.Classes = keys(classes)
				return res, f
			}
			s2, err := oci.New(dir)
			if err != nil {
				return res, vt.Failf("C08/reopen-failed", "%s: oci.New: %v", when, err)
			}
			s2.AutoSaveIndex, s2.AutoGC = c.AutoSave, c.AutoGC
			if f := compareViews(ctx, s, s2, d, dir, op.Last, "oci.New", when, gcThenDelete); f != nil {
				res.Classes = keys(classes)
				return res, f
			}
			if op.Op == "switch" {
				s = s2
				classes["continue-on-reopened-store"] = true
				continue
			}
			if i < len(ops)-1 {
				midReopen = true
			}
			fsv, err := oci.NewFromFS(ctx, os.DirFS(dir))
			if err != nil {
				return res, vt.Failf("C08/reopen-failed", "%s: NewFromFS: %v", when, err)
			}
			if f := compareViews(ctx, s, fsv, d, dir, op.Last, "NewFromFS", when, gcThenDelete); f != nil {
				res.Classes = keys(classes)
				return res, f
			}
			tp := filepath.Join(root, fmt.Sprintf("l%d.tar", i))
			// every third archive looks like one that was updated in place (tar -r): an
			// older index.json record precedes the current tree
			var stale []byte
			if i%3 == 0 {
				stale = prevIndex
				if stale == nil {
					stale = []byte(`{"schemaVersion":2,"manifests":[]}`)
				}
				classes["tar-with-superseded-index-record"] = true
			}
			if err := fsx.TarDirAppended(dir, tp, op.Fmt, i%2 == 1, stale); err != nil {
				return res, vt.Failf("harness/tar", "%v", err)
			}
			if b, err := os.ReadFile(filepath.Join(dir, "index.json")); err == nil {
				prevIndex = b
			}
			tv, err := oci.NewFromTar(ctx, tp)
			if err != nil {
				return res, vt.Failf("C08/reopen-failed", "%s: NewFromTar(%s): %v", when, op.Fmt, err)
			}
			if f := compareViews(ctx, s, tv, d, dir, op.Last, "NewFromTar/"+op.Fmt, when, gcThenDelete); f != nil {
				res.Classes = keys(classes)
				return res, f
			}
			os.Remove(tp)
			classes["tar-"+op.Fmt] = true
		}
		if c.AutoSave {
			if f := validate(when); f != nil {
				res.Classes = keys(classes)
				return res, f
			}
		}
	}
	if retag {
		classes["re-tag"] = true
	}
	if multiTag {
		classes["multi-tag"] = true
	}
	res.NonTrivial = (retag || multiTag) && removal && midReopen
	res.Classes = keys(classes)
	return res, nil
}

func keys(m map[string]bool) []string {
	var out []string
	for k := range m {
		out = append(out, k)
	}
	sort.Strings(out)
	return out
}

func TestMain(m *testing.M) {
	vt.ReplayRepeat["main"] = 30
	vt.Main(m, "C08", vt.NewLeg("main", 2500, 4000, 16, genCase, runCase))
}

func TestLegs(t *testing.T)   { vt.TestLegs(t) }
func TestReplay(t *testing.T) { vt.TestReplay(t) }
