package c05

import (
	"bytes"
	"context"
	"encoding/json"
	"errors"
	"fmt"
	"io"
	"math"
	"os"
	"path/filepath"
	"sort"
	"strings"
	"sync"
	"testing"
	"time"

	"github.com/opencontainers/go-digest"
	ocispec "github.com/opencontainers/image-spec/specs-go/v1"
	oras "oras.land/oras-go/v2"
	"oras.land/oras-go/v2/content"
	"oras.land/oras-go/v2/content/file"
	"oras.land/oras-go/v2/content/memory"
	"oras.land/oras-go/v2/content/oci"
	"oras.land/oras-go/v2/errdef"
	"pgregory.net/rapid"

	"verif/harness/fsx"
	"verif/harness/gen"
	"verif/harness/vt"
)

// ReaderSpec describes how the content is delivered.
type ReaderSpec struct {
	Kind   string `json:"kind"` // whole, bytewise, chunks, zeroreads, dataeof, errat, short, long, corrupt
	K      int    `json:"k,omitempty"`
	Chunks []int  `json:"chunks,omitempty"`
	// ZeroAt > 0: one (0, nil) read is injected when the read position is ZeroAt-1
	// (combined with any kind, e.g. exactly at offset Size of a long stream)
	ZeroAt int `json:"zeroAt,omitempty"`
	// Step > 0: at most Step bytes per read (combined with any kind)
	Step int `json:"step,omitempty"`
	// EOFWithData: the read that delivers the last bytes also returns io.EOF
	// (combined with any kind, e.g. a stream one byte longer than Size)
	EOFWithData bool `json:"eofWithData,omitempty"`
}

// Case is one C05 case.
type Case struct {
	Seed    int        `json:"seed"`
	Size    int        `json:"size"`
	Alg     string     `json:"alg,omitempty"`
	DescMut string     `json:"descMut"`
	Reader  ReaderSpec `json:"reader"`
	Sink    string     `json:"sink"`
	AsMan   bool       `json:"asManifest,omitempty"` // copygraph sink: content is a manifest
	Limit   int        `json:"limit,omitempty"`      // limit sink: push limit relative to len (-1,0,+1)
	Conc    int        `json:"conc,omitempty"`       // >0: that many extra goroutines push GOOD content for the same descriptor concurrently
}

var descMuts = []string{"exact", "exact", "exact", "wrongdigest", "neg1", "zero", "len-1", "len+1", "2len", "huge", "minint", "maxint",
	"empty-digest", "nocolon", "badhexlen", "upperhex", "md5", "hex63", "hex65", "pathlike", "pathlike512"}

// "bytesbuffer": the content sits in a *bytes.Buffer that the caller re-uses (resets
// and refills) as soon as the push has returned
var readerKinds = []string{"whole", "whole", "bytewise", "chunks", "zeroreads", "dataeof", "errat", "short", "long", "long", "corrupt", "bytesbuffer"}
var sinks = []string{"readall", "fetchall", "verifyreader", "memory", "oci-storage", "oci-store", "file-named", "file-unnamed", "limit", "copygraph", "copyref"}

func genCase(t *rapid.T) Case {
	c := Case{Seed: rapid.IntRange(0, 9).Draw(t, "seed")}
	switch rapid.IntRange(0, 9).Draw(t, "sizeClass") {
	case 0:
		c.Size = 0
	case 1:
		c.Size = 1
	case 9:
		// the sizes at which the code changes behaviour: the 1 MiB copy buffer of the
		// OCI / file stores and the 4 MiB default limit of the file store's fallback
		// and of in-memory metadata
		switch rapid.IntRange(0, 11).Draw(t, "bigClass") {
		case 3, 4:
			c.Size = rapid.IntRange(1<<20-2, 1<<20+2).Draw(t, "bigSize")
		case 5:
			c.Size = 1<<20 + rapid.IntRange(3, 70000).Draw(t, "bigSize")
		case 6, 7:
			c.Size = rapid.IntRange(4<<20-2, 4<<20+2).Draw(t, "bigSize")
		default:
			c.Size = rapid.IntRange(30000, 70000).Draw(t, "bigSize")
		}
	default:
		c.Size = rapid.IntRange(2, 300).Draw(t, "size")
	}
	if rapid.IntRange(0, 5).Draw(t, "alg") == 0 {
		c.Alg = rapid.SampledFrom([]string{"sha512", "sha384"}).Draw(t, "algName")
	}
	c.Sink = rapid.SampledFrom(sinks).Draw(t, "sink")
	c.DescMut = rapid.SampledFrom(descMuts).Draw(t, "descMut")
	if c.DescMut == "maxint" && (c.Sink == "readall" || c.Sink == "fetchall" || c.Sink == "memory" || c.Sink == "file-unnamed" || c.Sink == "limit" || c.Sink == "copygraph" || c.Sink == "copyref") {
		// these sinks allocate Size bytes by design (documented ReadAll behaviour)
		c.DescMut = "2len"
	}
	c.Reader.Kind = rapid.SampledFrom(readerKinds).Draw(t, "reader")
	switch c.Reader.Kind {
	case "chunks":
		n := rapid.IntRange(1, 6).Draw(t, "nChunks")
		for i := 0; i < n; i++ {
			c.Reader.Chunks = append(c.Reader.Chunks, rapid.IntRange(1, 40).Draw(t, "chunk"))
		}
	case "errat", "short":
		c.Reader.K = rapid.IntRange(0, c.Size).Draw(t, "k")
	case "long":
		c.Reader.K = rapid.IntRange(1, 5).Draw(t, "extra")
	case "corrupt":
		c.Reader.K = rapid.IntRange(0, c.Size).Draw(t, "corruptAt")
	}
	switch rapid.IntRange(0, 5).Draw(t, "zeroAtMode") {
	case 0:
		c.Reader.ZeroAt = c.Size + 1 // exactly at the size boundary
	case 1:
		c.Reader.ZeroAt = rapid.IntRange(1, c.Size+3).Draw(t, "zeroAt")
	}
	if rapid.IntRange(0, 3).Draw(t, "stepMode") == 0 {
		c.Reader.Step = rapid.IntRange(1, 9).Draw(t, "step")
	}
	// any reader may hand over its last bytes together with io.EOF (as net/http bodies do)
	c.Reader.EOFWithData = rapid.IntRange(0, 3).Draw(t, "eofWithData") == 0
	if c.Size >= 4<<20-2 && rapid.Bool().Draw(t, "bigMismatch") {
		// around the 4 MiB mark the interesting question is whether the checks of
		// small contents still apply: trailing bytes, a flipped byte, a short stream
		c.Reader.Kind = rapid.SampledFrom([]string{"long", "long", "corrupt", "short"}).Draw(t, "bigReader")
		switch c.Reader.Kind {
		case "long":
			c.Reader.K = rapid.IntRange(1, 5).Draw(t, "bigExtra")
		default:
			c.Reader.K = rapid.IntRange(0, c.Size).Draw(t, "bigK")
		}
		c.Sink = rapid.SampledFrom([]string{"readall", "fetchall", "memory", "verifyreader", "oci-storage", "file-named"}).Draw(t, "bigSink")
		c.DescMut = "exact"
	}
	if c.Size >= 1<<20-2 {
		// megabytes are not delivered a few bytes at a time
		switch c.Reader.Kind {
		case "bytewise", "zeroreads", "chunks":
			c.Reader.Kind, c.Reader.Chunks = "whole", nil
			c.Reader.EOFWithData = true
		}
		c.Reader.Step *= 65536
	}
	if c.Sink == "limit" {
		c.Limit = rapid.IntRange(-1, 1).Draw(t, "limit")
	}
	if c.Sink == "copygraph" || c.Sink == "copyref" {
		c.AsMan = rapid.Bool().Draw(t, "asManifest")
	}
	switch c.Sink {
	case "memory", "oci-storage", "oci-store", "file-named", "file-unnamed":
		if rapid.IntRange(0, 3).Draw(t, "concMode") == 0 {
			c.Conc = rapid.IntRange(1, 3).Draw(t, "conc")
		}
	}
	return c
}

var errInjected = errors.New("injected read error")

// scriptReader delivers data as scripted.
type scriptReader struct {
	data     []byte
	pos      int
	spec     ReaderSpec
	ci       int
	tick     int
	errAt    int
	finished bool
	zeroDone bool
}

func newReader(b []byte, spec ReaderSpec) (*scriptReader, []byte) {
	r := &scriptReader{spec: spec, errAt: -1}
	switch spec.Kind {
	case "short":
		r.data = b[:spec.K]
	case "long":
		r.data = append(append([]byte(nil), b...), bytes.Repeat([]byte{'Z'}, spec.K)...)
	case "errat":
		r.data = b
		r.errAt = spec.K
	case "corrupt":
		r.data = append([]byte(nil), b...)
		if len(r.data) > 0 {
			r.data[spec.K%len(r.data)] ^= 0x5a
		}
	default:
		r.data = b
	}
	delivered := r.data
	if r.errAt >= 0 {
		delivered = r.data[:r.errAt]
	}
	return r, delivered
}

func (r *scriptReader) Read(p []byte) (int, error) {
	r.tick++
	if r.spec.ZeroAt > 0 && !r.zeroDone && r.pos == r.spec.ZeroAt-1 {
		r.zeroDone = true
		return 0, nil
	}
	if r.errAt >= 0 && r.pos >= r.errAt {
		return 0, errInjected
	}
	if r.pos >= len(r.data) {
		return 0, io.EOF
	}
	if len(p) == 0 {
		return 0, nil
	}
	n := len(p)
	if r.spec.Step > 0 && n > r.spec.Step {
		n = r.spec.Step
	}
	if r.spec.ZeroAt > 0 && !r.zeroDone && r.pos < r.spec.ZeroAt-1 && r.pos+n > r.spec.ZeroAt-1 {
		n = r.spec.ZeroAt - 1 - r.pos // stop exactly where the 0-byte read is due
	}
	switch r.spec.Kind {
	case "bytewise":
		n = 1
	case "chunks":
		if k := r.spec.Chunks[r.ci%len(r.spec.Chunks)]; k < n {
			n = k
		}
		r.ci++
	case "zeroreads":
		if r.tick%2 == 1 {
			return 0, nil
		}
		if n > 7 {
			n = 7
		}
	}
	if n > len(p) {
		n = len(p)
	}
	if rem := len(r.data) - r.pos; n > rem {
		n = rem
	}
	if r.errAt >= 0 && r.pos+n > r.errAt {
		n = r.errAt - r.pos
	}
	copy(p, r.data[r.pos:r.pos+n])
	r.pos += n
	if (r.spec.Kind == "dataeof" || r.spec.EOFWithData) && r.pos == len(r.data) {
		return n, io.EOF
	}
	return n, nil
}

func algOf(name string) digest.Algorithm {
	switch name {
	case "sha512":
		return digest.SHA512
	case "sha384":
		return digest.SHA384
	}
	return digest.SHA256
}

// mutate builds the descriptor under test. valid reports whether digest string and
// size are well-formed (size >= 0, supported algorithm, right hex length).
func mutate(c Case, b []byte, mt string) (desc ocispec.Descriptor, valid bool) {
	alg := algOf(c.Alg)
	good := alg.FromBytes(b)
	desc = ocispec.Descriptor{MediaType: mt, Digest: good, Size: int64(len(b))}
	valid = true
	switch c.DescMut {
	case "exact":
	case "wrongdigest":
		other := append([]byte(nil), b...)
		if len(other) == 0 {
			other = []byte{'x'}
		} else {
			other[0] ^= 0xff
		}
		desc.Digest = alg.FromBytes(other)
	case "neg1":
		desc.Size = -1
		valid = false
	case "zero":
		desc.Size = 0
	case "len-1":
		desc.Size = int64(len(b)) - 1
		if desc.Size < 0 {
			valid = false
		}
	case "len+1":
		desc.Size = int64(len(b)) + 1
	case "2len":
		desc.Size = int64(2*len(b)) + 3
	case "huge":
		// right digest, a claimed size beyond any "read it all at once" threshold
		desc.Size = 33<<20 + int64(len(b))
	case "minint":
		desc.Size = math.MinInt64
		valid = false
	case "maxint":
		desc.Size = math.MaxInt64
	case "empty-digest":
		desc.Digest = ""
		valid = false
	case "nocolon":
		desc.Digest = digest.Digest(good.Encoded())
		valid = false
	case "badhexlen":
		desc.Digest = digest.Digest(string(good) + "00")
		valid = false
	case "upperhex":
		desc.Digest = digest.Digest(good.Algorithm().String() + ":" + strings.ToUpper(good.Encoded()))
		valid = strings.ToUpper(good.Encoded()) == good.Encoded()
	case "md5":
		desc.Digest = digest.Digest("md5:d41d8cd98f00b204e9800998ecf8427e")
		valid = false
	case "pathlike":
		// right length, but path elements instead of hex: after path cleaning it
		// would name the layout's own oci-layout file
		tail := "../../oci-layout"
		desc.Digest = digest.Digest("sha256:" + strings.Repeat("./", (64-len(tail))/2) + tail)
		valid = false
	case "pathlike512":
		// a "sha512" digest that path-cleans to the sha256 blob of the content
		tail := "../sha256/" + digest.FromBytes(b).Encoded()
		desc.Digest = digest.Digest("sha512:" + strings.Repeat("./", (128-len(tail))/2) + tail)
		valid = false
	case "hex63":
		desc.Digest = digest.Digest(string(good)[:len(good)-1])
		valid = false
	case "hex65":
		desc.Digest = digest.Digest(string(good) + "a")
		valid = false
	}
	return desc, valid
}

type verdict struct {
	exact    bool // delivered bytes are exactly the content the descriptor names, reader well-behaved
	prefixOK bool // the first Size delivered bytes match the descriptor and no read error occurs before them
	want     []byte
	judgedNo bool // failure is mandatory (clearly not matching)
}

func judge(desc ocispec.Descriptor, valid bool, delivered []byte, r ReaderSpec, fullLen int) verdict {
	var v verdict
	readErr := r.Kind == "errat"
	if !valid || desc.Size < 0 {
		v.judgedNo = true
		return v
	}
	if int64(len(delivered)) >= desc.Size {
		p := delivered[:desc.Size]
		if desc.Digest.Algorithm().FromBytes(p) == desc.Digest {
			v.prefixOK = true
			v.want = p
		}
	}
	if v.prefixOK && int64(len(delivered)) == desc.Size && !readErr {
		v.exact = true
	}
	if !v.prefixOK {
		// too short, failing before Size bytes, or hashing to something else
		v.judgedNo = true
	}
	return v
}

// runCase runs one case under a watchdog: a sink that does not return is a failure
// (the statement demands an error, not a hang).
func runCase(c Case) (res vt.Result, fail *vt.Fail) {
	fin, dump := vt.Watch(30*time.Second, func() { res, fail = runCaseInner(c) })
	if !fin {
		vt.ReportHang("main", vt.MustJSON(c), vt.Failf("C05/hang", "sink %s did not return (reader %s, desc %s)", c.Sink, c.Reader.Kind, c.DescMut), dump)
	}
	return res, fail
}

func runCaseInner(c Case) (res vt.Result, fail *vt.Fail) {
	ctx := context.Background()
	b := gen.BlobBytes(c.Seed, c.Size)
	mt := gen.MTOctet
	var cfgBlob []byte
	if (c.Sink == "copygraph" || c.Sink == "copyref") && c.AsMan {
		cfgBlob = []byte("{}")
		m := ocispec.Manifest{MediaType: gen.MTImage, Config: ocispec.Descriptor{MediaType: gen.MTConfig, Digest: digest.FromBytes(cfgBlob), Size: 2}, Layers: []ocispec.Descriptor{}}
		m.SchemaVersion = 2
		m.Annotations = map[string]string{"pad": string(bytes.Repeat([]byte{'p'}, c.Size%200))}
		b, _ = json.Marshal(m)
		mt = gen.MTImage
	}
	if c.Sink == "file-named" {
		// named pushes carry the title annotation
	}
	// the scripted reader works on b as it is now
	spec := c.Reader
	if spec.K > len(b) && (spec.Kind == "errat" || spec.Kind == "short") {
		spec.K = len(b)
	}
	desc, valid := mutate(c, b, mt)
	_, delivered := newReader(b, spec)
	v := judge(desc, valid, delivered, spec, len(b))
	res.NonTrivial = (c.DescMut != "exact" || (spec.Kind != "whole")) && len(b) > 0
	res.Classes = []string{"sink-" + c.Sink, "desc-" + c.DescMut, "reader-" + spec.Kind}
	if v.exact {
		res.Classes = append(res.Classes, "expect-success")
	} else if v.judgedNo {
		res.Classes = append(res.Classes, "expect-failure")
	} else {
		res.Classes = append(res.Classes, "either-allowed")
	}
	if c.Conc > 0 {
		res.Classes = append(res.Classes, "concurrent-good-pushers")
	}
	mk := func() io.Reader { r, _ := newReader(b, spec); return r }

	switch c.Sink {
	case "readall", "fetchall":
		var p []byte
		var err error
		if c.Sink == "readall" {
			p, err = content.ReadAll(mk(), desc)
		} else {
			f := content.FetcherFunc(func(context.Context, ocispec.Descriptor) (io.ReadCloser, error) { return io.NopCloser(mk()), nil })
			p, err = content.FetchAll(ctx, f, desc)
		}
		if err == nil {
			if !v.exact {
				return res, vt.Failf(keyFor("reader-accepts", c, desc), "%s returned %d bytes without error for desc{%s size=%d} although delivered content (%d bytes, reader %s) does not match exactly", c.Sink, len(p), desc.Digest, desc.Size, len(delivered), spec.Kind)
			}
			if !bytes.Equal(p, delivered) {
				return res, vt.Failf("C05/reader-wrong-bytes", "%s returned bytes that differ from what the reader delivered", c.Sink)
			}
		} else if v.exact {
			return res, vt.Failf("C05/reader-rejects-good", "%s failed on matching content with a well-behaved reader (%s): %v", c.Sink, spec.Kind, err)
		}
	case "verifyreader":
		vr := content.NewVerifyReader(mk(), desc)
		var got []byte
		buf := make([]byte, 1+c.Seed*3)
		if len(b) >= 1<<20-2 {
			buf = make([]byte, 4096*(1+c.Seed*3)) // (the loop below is bounded)
		}
		var rerr error
		for i := 0; i < 1<<22; i++ {
			n, err := vr.Read(buf)
			got = append(got, buf[:n]...)
			if err != nil {
				rerr = err
				break
			}
		}
		if !bytes.HasPrefix(delivered, got) {
			return res, vt.Failf("C05/verifyreader-invented-bytes", "VerifyReader handed out bytes that are not a prefix of the source")
		}
		verr := vr.Verify()
		verr2 := vr.Verify()
		if (verr == nil) != (verr2 == nil) {
			return res, vt.Failf("C05/verify-not-stable", "Verify() returned %v then %v", verr, verr2)
		}
		if rerr == io.EOF && verr == nil {
			if !v.exact {
				return res, vt.Failf(keyFor("reader-accepts", c, desc), "VerifyReader: EOF and Verify()==nil for desc{%s size=%d} although delivered content (%d bytes, reader %s) does not match exactly", desc.Digest, desc.Size, len(delivered), spec.Kind)
			}
			if !bytes.Equal(got, delivered) {
				return res, vt.Failf("C05/reader-wrong-bytes", "VerifyReader delivered %d bytes, source had %d", len(got), len(delivered))
			}
		} else if v.exact {
			return res, vt.Failf("C05/reader-rejects-good", "VerifyReader failed on matching content (%s): read err=%v verify=%v", spec.Kind, rerr, verr)
		}
	case "copygraph":
		src := &lyingSource{desc: desc, mk: mk, cfg: cfgBlob}
		dst := memory.New()
		err := oras.CopyGraph(ctx, src, dst, desc, oras.DefaultCopyGraphOptions)
		ok, _ := dst.Exists(ctx, desc)
		if err == nil {
			if !v.prefixOK {
				return res, vt.Failf(keyFor("store-accepts", c, desc), "CopyGraph from a lying source succeeded for desc{%s size=%d}, delivered %d bytes (%s)", desc.Digest, desc.Size, len(delivered), spec.Kind)
			}
			if !ok {
				return res, vt.Failf("C05/copy-success-but-absent", "CopyGraph returned nil but the destination does not hold the node")
			}
			got, ferr := gen.ReadBack(ctx, dst, desc)
			if ferr != nil || !bytes.Equal(got, v.want) {
				return res, vt.Failf("C05/visible-content-mismatch", "destination holds %d bytes (err %v) that are not the content the descriptor names", len(got), ferr)
			}
		} else {
			if v.exact {
				return res, vt.Failf("C05/store-rejects-good", "CopyGraph failed on matching content (%s): %v", spec.Kind, err)
			}
			if ok {
				return res, vt.Failf("C05/visible-after-failed-push", "CopyGraph failed (%v) but the destination reports the node as existing", err)
			}
		}
	case "copyref":
		// Copy by reference from a source that can fetch by reference: the root
		// travels through the reference-fetching side of the caching wrapper
		src := &lyingRefSource{lyingSource{desc: desc, mk: mk, cfg: cfgBlob}}
		dst := memory.New()
		got, err := oras.Copy(ctx, src, "v1", dst, "v1", oras.DefaultCopyOptions)
		ok, _ := dst.Exists(ctx, desc)
		if err == nil {
			if !v.prefixOK {
				return res, vt.Failf(keyFor("store-accepts", c, desc), "Copy by reference from a lying source succeeded for desc{%s size=%d}, delivered %d bytes (%s)", desc.Digest, desc.Size, len(delivered), spec.Kind)
			}
			if !ok || got.Digest != desc.Digest {
				return res, vt.Failf("C05/copy-success-but-absent", "Copy returned nil (root %s) but the destination does not hold the node", got.Digest)
			}
			back, ferr := gen.ReadBack(ctx, dst, desc)
			if ferr != nil || !bytes.Equal(back, v.want) {
				return res, vt.Failf("C05/visible-content-mismatch", "destination holds %d bytes (err %v) that are not the content the descriptor names", len(back), ferr)
			}
		} else {
			if v.exact {
				return res, vt.Failf("C05/store-rejects-good", "Copy by reference failed on matching content (%s): %v", spec.Kind, err)
			}
			if ok {
				return res, vt.Failf("C05/visible-after-failed-push", "Copy by reference failed (%v) but the destination reports the node as existing", err)
			}
		}
	default:
		return runStoreSink(ctx, c, desc, v, b, spec, mk, res)
	}
	return res, nil
}

// keyFor gives accepted-mismatch failures a root-cause key that separates the
// negative-size acceptance (a distinct defect) from every other acceptance.
func keyFor(base string, c Case, desc ocispec.Descriptor) string {
	if desc.Size < 0 {
		return "C05/" + base + "-negative-size"
	}
	return "C05/" + base + "-mismatch"
}

type lyingSource struct {
	desc ocispec.Descriptor
	mk   func() io.Reader
	cfg  []byte
}

func (l *lyingSource) Fetch(ctx context.Context, target ocispec.Descriptor) (io.ReadCloser, error) {
	if target.Digest == l.desc.Digest && target.MediaType == l.desc.MediaType {
		return io.NopCloser(l.mk()), nil
	}
	if l.cfg != nil && target.Digest == digest.FromBytes(l.cfg) {
		return io.NopCloser(bytes.NewReader(l.cfg)), nil
	}
	return nil, fmt.Errorf("lying source: unknown %s", target.Digest)
}

func (l *lyingSource) Exists(ctx context.Context, target ocispec.Descriptor) (bool, error) {
	return true, nil
}

// lyingRefSource additionally resolves and fetches the node by reference.
type lyingRefSource struct{ lyingSource }

func (l *lyingRefSource) Resolve(ctx context.Context, ref string) (ocispec.Descriptor, error) {
	return l.desc, nil
}

func (l *lyingRefSource) FetchReference(ctx context.Context, ref string) (ocispec.Descriptor, io.ReadCloser, error) {
	return l.desc, io.NopCloser(l.mk()), nil
}

func runStoreSink(ctx context.Context, c Case, desc ocispec.Descriptor, v verdict, b []byte, spec ReaderSpec, mk func() io.Reader, res vt.Result) (vt.Result, *vt.Fail) {
	root := vt.Scratch("c05-")
	defer os.RemoveAll(root)
	var st content.Storage
	layout := ""
	pushDesc := desc
	wd := ""
	switch c.Sink {
	case "memory":
		st = memory.New()
	case "oci-storage":
		layout = filepath.Join(root, "l")
		s, err := oci.NewStorage(layout)
		if err != nil {
			return res, vt.Failf("harness/oci", "%v", err)
		}
		st = s
	case "oci-store":
		layout = filepath.Join(root, "l")
		s, err := oci.New(layout)
		if err != nil {
			return res, vt.Failf("harness/oci", "%v", err)
		}
		st = s
	case "file-named", "file-unnamed":
		wd = filepath.Join(root, "wd")
		s, err := file.New(wd)
		if err != nil {
			return res, vt.Failf("harness/file", "%v", err)
		}
		defer s.Close()
		st = s
		if c.Sink == "file-named" {
			pushDesc.Annotations = map[string]string{ocispec.AnnotationTitle: "blob.bin"}
			if c.Seed%2 == 1 {
				// the working directory was used before: an older, longer file has the name
				os.MkdirAll(wd, 0o755)
				if err := os.WriteFile(filepath.Join(wd, "blob.bin"), bytes.Repeat([]byte{'O'}, len(b)+33), 0o644); err != nil {
					return res, vt.Failf("harness/file", "%v", err)
				}
				res.Classes = append(res.Classes, "named-push-over-an-older-longer-file")
			}
		}
	case "limit":
		st = content.LimitStorage(memory.New(), int64(len(b)+c.Limit))
	}
	var before []fsx.Entry
	if layout != "" {
		os.MkdirAll(filepath.Join(layout, "blobs"), 0o755)
		before, _ = fsx.Snapshot(filepath.Join(layout, "blobs"))
	}

	// optional concurrent pushers of GOOD content under the same descriptor (only
	// meaningful when the descriptor is exact: then "good" content exists)
	goodExists := c.DescMut == "exact"
	var wg sync.WaitGroup
	goodErrs := make([]error, c.Conc)
	if goodExists {
		for g := 0; g < c.Conc; g++ {
			wg.Add(1)
			go func(g int) {
				defer wg.Done()
				goodErrs[g] = st.Push(ctx, pushDesc, bytes.NewReader(b))
			}(g)
		}
	}
	var err error
	if spec.Kind == "bytesbuffer" {
		buf := bytes.NewBuffer(append([]byte(nil), b...))
		err = st.Push(ctx, pushDesc, buf)
		// the caller's buffer goes on to other uses: what the store holds must not change
		buf.Reset()
		buf.Write(bytes.Repeat([]byte{'#'}, len(b)+8))
		res.Classes = append(res.Classes, "caller-reuses-its-bytes-buffer-after-push")
	} else {
		err = st.Push(ctx, pushDesc, mk())
	}
	wg.Wait()
	unnamedOverLimit := c.Sink == "file-unnamed" && desc.Size > 4<<20
	goodNil := 0
	if goodExists {
		for g, e := range goodErrs {
			if e == nil {
				goodNil++
			} else if unnamedOverLimit && errors.Is(e, errdef.ErrSizeExceedsLimit) {
				// the file store's fallback holds at most 4 MiB per unnamed blob
			} else if !isAlreadyExists(e) {
				return res, vt.Failf("C05/good-push-rejected", "concurrent good push %d failed: %v", g, e)
			}
		}
	}

	limitRefuses := c.Sink == "limit" && desc.Size > int64(len(b)+c.Limit)
	if c.Sink == "file-unnamed" && desc.Size > 4<<20 {
		// the file store's fallback for unnamed content holds at most 4 MiB per blob
		limitRefuses = true
	}
	exists, xerr := st.Exists(ctx, pushDesc)
	if xerr != nil && v.prefixOK {
		return res, vt.Failf("C05/exists-error", "Exists: %v", xerr)
	}
	if err == nil {
		if !v.prefixOK {
			return res, vt.Failf(keyFor("store-accepts", c, desc), "%s Push returned nil for desc{%s size=%d}; reader %s delivered %d bytes", c.Sink, desc.Digest, desc.Size, spec.Kind, len(delivered(b, spec)))
		}
		if limitRefuses {
			return res, vt.Failf("C05/limit-not-enforced", "LimitStorage accepted size %d over limit %d", desc.Size, len(b)+c.Limit)
		}
	} else {
		if v.exact && !limitRefuses && !(goodExists && c.Conc > 0 && isAlreadyExists(err)) {
			return res, vt.Failf("C05/store-rejects-good", "%s Push failed on matching content (reader %s): %v", c.Sink, spec.Kind, err)
		}
	}
	anyGoodAccepted := (err == nil) || goodNil > 0
	if !anyGoodAccepted {
		if exists {
			return res, vt.Failf("C05/visible-after-failed-push", "%s: every Push failed (%v) but Exists reports true", c.Sink, err)
		}
		if rc, ferr := st.Fetch(ctx, pushDesc); ferr == nil {
			rc.Close()
			return res, vt.Failf("C05/fetch-after-failed-push", "%s: every Push failed (%v) but Fetch succeeds", c.Sink, err)
		}
		if layout != "" {
			after, _ := fsx.Snapshot(filepath.Join(layout, "blobs"))
			if d := fsx.Diff(before, after); len(onlyFiles(d)) > 0 {
				return res, vt.Failf("C05/blobs-dir-changed-after-failed-push", "%s: Push failed (%v) but blobs/ changed: %v", c.Sink, err, d)
			}
			if ents, _ := os.ReadDir(filepath.Join(layout, "ingest")); len(ents) > 0 {
				// outside blobs/: the statement does not cover it; counted only
				res.Classes = append(res.Classes, "ingest-file-left-after-failed-push")
			}
		}
		if wd != "" && c.Sink == "file-named" {
			if _, serr := os.Stat(filepath.Join(wd, "blob.bin")); serr == nil {
				res.Classes = append(res.Classes, "named-file-left-behind")
			}
			// the same content asked for without its name is not there either
			if ok, xerr := st.Exists(ctx, desc); xerr == nil && ok {
				return res, vt.Failf("C05/visible-after-failed-push", "%s: every Push failed (%v) but Exists of the same descriptor WITHOUT the title annotation reports true", c.Sink, err)
			}
			if rc, ferr := st.Fetch(ctx, desc); ferr == nil {
				rc.Close()
				return res, vt.Failf("C05/fetch-after-failed-push", "%s: every Push failed (%v) but Fetch of the same descriptor without the title annotation succeeds", c.Sink, err)
			}
		}
	} else {
		if !exists {
			return res, vt.Failf("C05/accepted-but-invisible", "%s: a Push returned nil but Exists is false", c.Sink)
		}
		got, ferr := gen.ReadBack(ctx, st, pushDesc)
		want := v.want
		if goodExists {
			want = b
		}
		if ferr != nil || !bytes.Equal(got, want) {
			return res, vt.Failf("C05/visible-content-mismatch", "%s: visible content (%d bytes, err %v) is not the %d bytes the descriptor names", c.Sink, len(got), ferr, len(want))
		}
		if layout != "" {
			if probs := blobProblems(layout); len(probs) > 0 {
				return res, vt.Failf("C05/blob-file-mismatch", "%s: %v", c.Sink, probs)
			}
		}
	}
	return res, nil
}

func delivered(b []byte, spec ReaderSpec) []byte {
	_, d := newReader(b, spec)
	return d
}

func onlyFiles(diff []string) []string {
	var out []string
	for _, d := range diff {
		if strings.Contains(d, "[file") {
			out = append(out, d)
		}
	}
	return out
}

func blobProblems(layout string) []string {
	var out []string
	for _, p := range fsx.ValidateLayout(layout, false) {
		if strings.HasPrefix(p.Kind, "blob-") {
			out = append(out, p.String())
		}
	}
	sort.Strings(out)
	return out
}

func isAlreadyExists(err error) bool {
	return err != nil && (strings.Contains(err.Error(), "already exists") || errors.Is(err, file.ErrDuplicateName))
}

func TestMain(m *testing.M) {
	vt.Main(m, "C05",
		vt.NewLeg("main", 6000, 20000, 16, genCase, runCase),
		vt.NewLeg("race", 250, 1500, 8, genRace, runRace),
	)
}

func TestLegs(t *testing.T)   { vt.TestLegs(t) }
func TestReplay(t *testing.T) { vt.TestReplay(t) }
