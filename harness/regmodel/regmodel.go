// Package regmodel is a from-scratch in-memory model of an OCI distribution-spec
// v1.1 registry, served as an http.RoundTripper (no sockets). It is at once the
// reference model whose state oracles read directly, a validator of the requests the
// client emits, and an injector of faults, corruptions and schedule gates.
package regmodel

import (
	"bytes"
	"crypto/sha256"
	"crypto/sha512"
	"encoding/hex"
	"encoding/json"
	"fmt"
	"io"
	"net/http"
	"net/url"
	"regexp"
	"sort"
	"strconv"
	"strings"
	"sync"
)

// Profile is the capability profile of a registry.
type Profile struct {
	ReferrersAPI   bool `json:"referrersAPI,omitempty"`
	SubjectHeader  bool `json:"subjectHeader,omitempty"`  // OCI-Subject on manifest PUT (with ReferrersAPI)
	NoDigestHeader bool `json:"noDigestHeader,omitempty"` // omit Docker-Content-Digest
	AcceptRanges   bool `json:"acceptRanges,omitempty"`   // blob GET supports Range
	Chunked        bool `json:"chunked,omitempty"`        // GET bodies without Content-Length
	MountCreated   bool `json:"mountCreated,omitempty"`   // cross-repo mount answers 201 when possible
	PageCap        int  `json:"pageCap,omitempty"`        // server-imposed page size (0 = none)
	StrictBlobs    bool `json:"strictBlobs,omitempty"`    // manifest PUT refused when a non-foreign child is missing
	LinkStyle      int  `json:"linkStyle,omitempty"`      // 0 absolute URL, 1 absolute path, 2 relative reference, 3 query only, 4 path + extra params + rel, 5 opaque marker instead of last
	FilterMode     int  `json:"filterMode,omitempty"`     // referrers artifactType filter: 0 ignored, 1 applied + header, 2 applied + legacy annotation
	LocationQuery  bool `json:"locationQuery,omitempty"`  // upload Location carries a query of its own
	LocationAbs    bool `json:"locationAbs,omitempty"`    // upload Location is an absolute URL
	EmptyLastPage  bool `json:"emptyLastPage,omitempty"`  // listings end with a Link to an empty page
	ChunkedLists   bool `json:"chunkedLists,omitempty"`   // listing documents are sent without Content-Length
	OmitEmptyList  bool `json:"omitEmptyList,omitempty"`  // an empty page leaves the list member out ("{}", as omitempty encoders do)
}

// Manifest is a stored manifest.
type Manifest struct {
	Bytes     []byte
	MediaType string
}

// Repo is the state of one repository.
type Repo struct {
	Blobs     map[string][]byte
	Manifests map[string]*Manifest
	Tags      map[string]string
}

// ReqRecord is one observed request.
type ReqRecord struct {
	Seq      int
	Method   string
	URL      string
	Path     string
	RawQuery string
	Header   http.Header
	Body     []byte
	BodyErr  string
	Status   int
	Host     string
	// BodyRead counts the bytes the client read from the response body.
	BodyRead *int64
	RespLen  int64
	// BodyLen is the real length of the response document (also when it is sent
	// without Content-Length).
	BodyLen int64
}

// Registry is one registry host.
type Registry struct {
	mu         sync.Mutex
	Host       string
	Scheme     string
	P          Profile
	Repos      map[string]*Repo
	Log        []*ReqRecord
	Violations []string
	seq        int
	uploads    map[string]string
	// Pre may answer a request before the model handles it (faults, gates). A nil,
	// nil result lets the model proceed.
	Pre func(req *http.Request, rec *ReqRecord) (*http.Response, error)
	// Post may alter the model's response (single-field corruptions).
	Post func(req *http.Request, resp *http.Response) *http.Response
	// Begin/End bracket every request (from before the request body is read until
	// the response is handed back): in-flight gauges.
	Begin func(req *http.Request)
	End   func(req *http.Request)
	// Catalog lists extra repository names for _catalog.
	Catalog []string
	// PadJSON > 0: listing documents are padded (with a leading "pad" member) to
	// exactly that many bytes when they are shorter.
	PadJSON int
}

// New creates an empty registry.
func New(host string, p Profile) *Registry {
	return &Registry{Host: host, Scheme: "https", P: p, Repos: map[string]*Repo{}, uploads: map[string]string{}}
}

// Repo returns (creating) a repository.
func (r *Registry) Repo(name string) *Repo {
	rp := r.Repos[name]
	if rp == nil {
		rp = &Repo{Blobs: map[string][]byte{}, Manifests: map[string]*Manifest{}, Tags: map[string]string{}}
		r.Repos[name] = rp
	}
	return rp
}

// Lock gives oracles a consistent view.
func (r *Registry) Lock()   { r.mu.Lock() }
func (r *Registry) Unlock() { r.mu.Unlock() }

func (r *Registry) violation(format string, args ...any) {
	r.Violations = append(r.Violations, fmt.Sprintf(format, args...))
}

// DigestOf computes "alg:hex" for supported algorithms.
func DigestOf(alg string, b []byte) string {
	switch alg {
	case "sha512":
		h := sha512.Sum512(b)
		return "sha512:" + hex.EncodeToString(h[:])
	case "sha384":
		h := sha512.Sum384(b)
		return "sha384:" + hex.EncodeToString(h[:])
	default:
		h := sha256.Sum256(b)
		return "sha256:" + hex.EncodeToString(h[:])
	}
}

func algOf(d string) string {
	if i := strings.IndexByte(d, ':'); i > 0 {
		return d[:i]
	}
	return ""
}

var (
	nameRe   = `[a-z0-9]+(?:(?:[._]|__|[-]*)[a-z0-9]+)*(?:/[a-z0-9]+(?:(?:[._]|__|[-]*)[a-z0-9]+)*)*`
	digestRe = `[a-z0-9]+(?:[+._-][a-z0-9]+)*:[a-zA-Z0-9=_-]+`
	tagRe    = `[a-zA-Z0-9_][a-zA-Z0-9._-]{0,127}`
	reBlob   = regexp.MustCompile(`^/v2/(` + nameRe + `)/blobs/(` + digestRe + `)$`)
	reUpload = regexp.MustCompile(`^/v2/(` + nameRe + `)/blobs/uploads/$`)
	reUpPut  = regexp.MustCompile(`^/v2/(` + nameRe + `)/blobs/uploads/([A-Za-z0-9_-]+)$`)
	reMan    = regexp.MustCompile(`^/v2/(` + nameRe + `)/manifests/(` + digestRe + `|` + tagRe + `)$`)
	reTags   = regexp.MustCompile(`^/v2/(` + nameRe + `)/tags/list$`)
	reRefs   = regexp.MustCompile(`^/v2/(` + nameRe + `)/referrers/(` + digestRe + `)$`)
)

type countingBody struct {
	r  io.Reader
	n  *int64
	mu sync.Mutex
}

func (c *countingBody) Read(p []byte) (int, error) {
	n, err := c.r.Read(p)
	c.mu.Lock()
	*c.n += int64(n)
	c.mu.Unlock()
	// like net/http bodies with a known length: the last bytes come together with EOF
	if br, ok := c.r.(*bytes.Reader); ok && err == nil && n > 0 && br.Len() == 0 {
		err = io.EOF
	}
	return n, err
}
func (c *countingBody) Close() error { return nil }

// Response builds an *http.Response the way net/http's Transport would.
func Response(req *http.Request, status int, hdr http.Header, body []byte, chunked bool, counter *int64) *http.Response {
	if hdr == nil {
		hdr = http.Header{}
	}
	resp := &http.Response{
		StatusCode: status, Status: fmt.Sprintf("%d %s", status, http.StatusText(status)),
		Proto: "HTTP/1.1", ProtoMajor: 1, ProtoMinor: 1, Header: hdr, Request: req,
		ContentLength: int64(len(body)),
	}
	if req.Method == http.MethodHead {
		resp.Body = http.NoBody
		if cl := hdr.Get("X-Head-Length"); cl != "" {
			n, _ := strconv.ParseInt(cl, 10, 64)
			resp.ContentLength = n
			hdr.Del("X-Head-Length")
		}
		hdr.Set("Content-Length", strconv.FormatInt(resp.ContentLength, 10))
		return resp
	}
	if chunked && status == 200 {
		resp.ContentLength = -1
		resp.TransferEncoding = []string{"chunked"}
	} else {
		hdr.Set("Content-Length", strconv.Itoa(len(body)))
	}
	if counter == nil {
		var n int64
		counter = &n
	}
	resp.Body = &countingBody{r: bytes.NewReader(body), n: counter}
	return resp
}

func errBody(code, msg string) []byte {
	b, _ := json.Marshal(map[string]any{"errors": []map[string]string{{"code": code, "message": msg}}})
	return b
}

func jsonHdr() http.Header { return http.Header{"Content-Type": []string{"application/json"}} }

// RoundTrip implements http.RoundTripper.
func (r *Registry) RoundTrip(req *http.Request) (*http.Response, error) {
	r.mu.Lock()
	r.seq++
	rec := &ReqRecord{Seq: r.seq, Method: req.Method, URL: req.URL.String(), Path: req.URL.Path, RawQuery: req.URL.RawQuery, Header: req.Header.Clone(), Host: req.URL.Host}
	var n int64
	rec.BodyRead = &n
	r.Log = append(r.Log, rec)
	pre := r.Pre
	begin, end := r.Begin, r.End
	r.mu.Unlock()
	if begin != nil {
		begin(req)
	}
	if end != nil {
		defer end(req)
	}

	// read the request body completely (as a server would)
	if req.Body != nil && req.Body != http.NoBody {
		b, err := io.ReadAll(req.Body)
		req.Body.Close()
		rec.Body = b
		if err != nil {
			rec.BodyErr = err.Error()
		}
	}
	if pre != nil {
		resp, err := pre(req, rec)
		if err != nil || resp != nil {
			if resp != nil {
				rec.Status = resp.StatusCode
			}
			return resp, err
		}
	}
	r.mu.Lock()
	resp := r.handle(req, rec)
	post := r.Post
	r.mu.Unlock()
	if post != nil {
		resp = post(req, resp)
	}
	rec.Status = resp.StatusCode
	rec.RespLen = resp.ContentLength
	if cb, ok := resp.Body.(*countingBody); ok {
		if br, ok := cb.r.(*bytes.Reader); ok {
			rec.BodyLen = int64(br.Len())
		}
	}
	return resp, nil
}

func (r *Registry) handle(req *http.Request, rec *ReqRecord) *http.Response {
	p := req.URL.Path
	if req.URL.EscapedPath() != p {
		r.violation("%s %s: path is percent-encoded (%s)", req.Method, p, req.URL.EscapedPath())
	}
	if req.URL.Fragment != "" || req.URL.User != nil {
		r.violation("%s %s: fragment or user-info in request URL", req.Method, req.URL.String())
	}
	hasBody := len(rec.Body) > 0
	if (req.Method == http.MethodGet || req.Method == http.MethodHead || req.Method == http.MethodDelete) && hasBody {
		r.violation("%s %s carries a body", req.Method, p)
	}
	if req.ContentLength >= 0 && req.Body != nil && req.Body != http.NoBody && int64(len(rec.Body)) != req.ContentLength && rec.BodyErr == "" {
		r.violation("%s %s: Content-Length %d but body has %d bytes", req.Method, p, req.ContentLength, len(rec.Body))
	}
	switch {
	case p == "/v2/" || p == "/v2":
		return Response(req, 200, jsonHdr(), []byte("{}"), false, rec.BodyRead)
	case p == "/v2/_catalog":
		return r.catalog(req, rec)
	}
	if m := reBlob.FindStringSubmatch(p); m != nil {
		return r.blob(req, rec, m[1], m[2])
	}
	if m := reUpload.FindStringSubmatch(p); m != nil {
		return r.uploadStart(req, rec, m[1])
	}
	if m := reUpPut.FindStringSubmatch(p); m != nil {
		return r.uploadPut(req, rec, m[1], m[2])
	}
	if m := reMan.FindStringSubmatch(p); m != nil {
		return r.manifest(req, rec, m[1], m[2])
	}
	if m := reTags.FindStringSubmatch(p); m != nil {
		return r.tags(req, rec, m[1])
	}
	if m := reRefs.FindStringSubmatch(p); m != nil {
		return r.referrers(req, rec, m[1], m[2])
	}
	r.violation("%s %s: not an endpoint of the distribution specification", req.Method, p)
	return Response(req, 404, jsonHdr(), errBody("UNSUPPORTED", "unknown endpoint"), false, rec.BodyRead)
}

func (r *Registry) allowQuery(req *http.Request, allowed ...string) {
	for k := range req.URL.Query() {
		ok := false
		for _, a := range allowed {
			if a == k {
				ok = true
			}
		}
		if !ok {
			r.violation("%s %s: unexpected query parameter %q", req.Method, req.URL.Path, k)
		}
	}
}

func (r *Registry) digestHdr(h http.Header, d string) {
	if !r.P.NoDigestHeader {
		h.Set("Docker-Content-Digest", d)
	}
}

var rangeRe = regexp.MustCompile(`^bytes=(\d+)-(\d+)$`)

func (r *Registry) blob(req *http.Request, rec *ReqRecord, name, dg string) *http.Response {
	r.allowQuery(req)
	rp := r.Repos[name]
	var data []byte
	ok := false
	if rp != nil {
		data, ok = rp.Blobs[dg]
	}
	switch req.Method {
	case http.MethodHead, http.MethodGet:
		if !ok {
			return Response(req, 404, jsonHdr(), errBody("BLOB_UNKNOWN", dg), false, rec.BodyRead)
		}
		h := http.Header{"Content-Type": []string{"application/octet-stream"}}
		r.digestHdr(h, dg)
		if r.P.AcceptRanges {
			h.Set("Accept-Ranges", "bytes")
		}
		if req.Method == http.MethodHead {
			h.Set("X-Head-Length", strconv.Itoa(len(data)))
			return Response(req, 200, h, nil, false, rec.BodyRead)
		}
		if rg := req.Header.Get("Range"); rg != "" {
			m := rangeRe.FindStringSubmatch(rg)
			if m == nil {
				r.violation("GET %s: malformed Range %q", req.URL.Path, rg)
				return Response(req, 416, jsonHdr(), errBody("RANGE_INVALID", rg), false, rec.BodyRead)
			}
			a, _ := strconv.Atoi(m[1])
			b, _ := strconv.Atoi(m[2])
			if a > b || b >= len(data) {
				r.violation("GET %s: Range %q outside content of %d bytes", req.URL.Path, rg, len(data))
				return Response(req, 416, jsonHdr(), errBody("RANGE_INVALID", rg), false, rec.BodyRead)
			}
			if r.P.AcceptRanges {
				h.Set("Content-Range", fmt.Sprintf("bytes %d-%d/%d", a, b, len(data)))
				return Response(req, 206, h, data[a:b+1], false, rec.BodyRead)
			}
		}
		return Response(req, 200, h, data, r.P.Chunked, rec.BodyRead)
	case http.MethodDelete:
		if !ok {
			return Response(req, 404, jsonHdr(), errBody("BLOB_UNKNOWN", dg), false, rec.BodyRead)
		}
		delete(rp.Blobs, dg)
		h := http.Header{}
		r.digestHdr(h, dg)
		return Response(req, 202, h, nil, false, rec.BodyRead)
	}
	r.violation("%s %s: method not allowed on a blob", req.Method, req.URL.Path)
	return Response(req, 405, jsonHdr(), errBody("UNSUPPORTED", "method"), false, rec.BodyRead)
}

func (r *Registry) uploadStart(req *http.Request, rec *ReqRecord, name string) *http.Response {
	if req.Method != http.MethodPost {
		r.violation("%s %s: method not allowed", req.Method, req.URL.Path)
		return Response(req, 405, jsonHdr(), errBody("UNSUPPORTED", "method"), false, rec.BodyRead)
	}
	r.allowQuery(req, "mount", "from", "digest")
	q := req.URL.Query()
	if mount := q.Get("mount"); mount != "" {
		from := q.Get("from")
		if src := r.Repos[from]; src != nil && r.P.MountCreated {
			if data, ok := src.Blobs[mount]; ok {
				r.Repo(name).Blobs[mount] = data
				h := http.Header{"Location": []string{"/v2/" + name + "/blobs/" + mount}}
				r.digestHdr(h, mount)
				return Response(req, 201, h, nil, false, rec.BodyRead)
			}
		}
	}
	id := fmt.Sprintf("up%d", rec.Seq)
	r.uploads[id] = name
	loc := "/v2/" + name + "/blobs/uploads/" + id
	if r.P.LocationQuery {
		loc += "?state=s" + id
	}
	if r.P.LocationAbs {
		loc = r.Scheme + "://" + req.URL.Host + loc
	}
	return Response(req, 202, http.Header{"Location": []string{loc}, "Range": []string{"0-0"}}, nil, false, rec.BodyRead)
}

func (r *Registry) uploadPut(req *http.Request, rec *ReqRecord, name, id string) *http.Response {
	if req.Method != http.MethodPut {
		r.violation("%s %s: method not allowed on an upload session", req.Method, req.URL.Path)
		return Response(req, 405, jsonHdr(), errBody("UNSUPPORTED", "method"), false, rec.BodyRead)
	}
	r.allowQuery(req, "digest", "state")
	if r.uploads[id] != name {
		return Response(req, 404, jsonHdr(), errBody("BLOB_UPLOAD_UNKNOWN", id), false, rec.BodyRead)
	}
	if r.P.LocationQuery && req.URL.Query().Get("state") != "s"+id {
		r.violation("PUT %s: the query of the Location URL (state=s%s) was lost: %q", req.URL.Path, id, req.URL.RawQuery)
	}
	dg := req.URL.Query().Get("digest")
	if dg == "" {
		r.violation("PUT %s: missing digest query parameter", req.URL.Path)
		return Response(req, 400, jsonHdr(), errBody("DIGEST_INVALID", "missing"), false, rec.BodyRead)
	}
	if ct := req.Header.Get("Content-Type"); ct != "application/octet-stream" {
		r.violation("PUT %s: Content-Type %q, expected application/octet-stream", req.URL.Path, ct)
	}
	if rec.BodyErr != "" {
		return Response(req, 400, jsonHdr(), errBody("BLOB_UPLOAD_INVALID", rec.BodyErr), false, rec.BodyRead)
	}
	if req.ContentLength >= 0 && int64(len(rec.Body)) != req.ContentLength {
		return Response(req, 400, jsonHdr(), errBody("SIZE_INVALID", "length"), false, rec.BodyRead)
	}
	if DigestOf(algOf(dg), rec.Body) != dg {
		return Response(req, 400, jsonHdr(), errBody("DIGEST_INVALID", "content does not match digest"), false, rec.BodyRead)
	}
	delete(r.uploads, id)
	r.Repo(name).Blobs[dg] = rec.Body
	h := http.Header{"Location": []string{"/v2/" + name + "/blobs/" + dg}}
	r.digestHdr(h, dg)
	return Response(req, 201, h, nil, false, rec.BodyRead)
}

type descJ struct {
	MediaType    string            `json:"mediaType"`
	Digest       string            `json:"digest"`
	Size         int64             `json:"size"`
	Annotations  map[string]string `json:"annotations,omitempty"`
	ArtifactType string            `json:"artifactType,omitempty"`
}

type manifestJ struct {
	MediaType    string            `json:"mediaType"`
	ArtifactType string            `json:"artifactType"`
	Config       *descJ            `json:"config"`
	Layers       []descJ           `json:"layers"`
	Blobs        []descJ           `json:"blobs"`
	Manifests    []descJ           `json:"manifests"`
	Subject      *descJ            `json:"subject"`
	Annotations  map[string]string `json:"annotations"`
}

func isForeign(mt string) bool {
	switch mt {
	case "application/vnd.docker.image.rootfs.foreign.diff.tar.gzip", "application/vnd.oci.image.layer.nondistributable.v1.tar",
		"application/vnd.oci.image.layer.nondistributable.v1.tar+gzip", "application/vnd.oci.image.layer.nondistributable.v1.tar+zstd":
		return true
	}
	return false
}

func (r *Registry) manifest(req *http.Request, rec *ReqRecord, name, ref string) *http.Response {
	r.allowQuery(req)
	rp := r.Repos[name]
	isDigest := strings.Contains(ref, ":")
	lookup := func() (string, *Manifest) {
		if rp == nil {
			return "", nil
		}
		dg := ref
		if !isDigest {
			var ok bool
			dg, ok = rp.Tags[ref]
			if !ok {
				return "", nil
			}
		}
		return dg, rp.Manifests[dg]
	}
	switch req.Method {
	case http.MethodHead, http.MethodGet:
		if req.Header.Get("Accept") == "" {
			r.violation("%s %s: no Accept header on a manifest request", req.Method, req.URL.Path)
		}
		dg, m := lookup()
		if m == nil {
			return Response(req, 404, jsonHdr(), errBody("MANIFEST_UNKNOWN", ref), false, rec.BodyRead)
		}
		h := http.Header{"Content-Type": []string{m.MediaType}}
		r.digestHdr(h, dg)
		if req.Method == http.MethodHead {
			h.Set("X-Head-Length", strconv.Itoa(len(m.Bytes)))
			return Response(req, 200, h, nil, false, rec.BodyRead)
		}
		return Response(req, 200, h, m.Bytes, r.P.Chunked, rec.BodyRead)
	case http.MethodPut:
		ct := req.Header.Get("Content-Type")
		if ct == "" {
			r.violation("PUT %s: missing Content-Type", req.URL.Path)
		}
		if rec.BodyErr != "" {
			return Response(req, 400, jsonHdr(), errBody("MANIFEST_INVALID", rec.BodyErr), false, rec.BodyRead)
		}
		if req.ContentLength >= 0 && int64(len(rec.Body)) != req.ContentLength {
			return Response(req, 400, jsonHdr(), errBody("SIZE_INVALID", "length"), false, rec.BodyRead)
		}
		alg := "sha256"
		if isDigest {
			alg = algOf(ref)
		}
		dg := DigestOf(alg, rec.Body)
		if isDigest && dg != ref {
			return Response(req, 400, jsonHdr(), errBody("DIGEST_INVALID", "body does not match the digest in the URL"), false, rec.BodyRead)
		}
		var mj manifestJ
		if err := json.Unmarshal(rec.Body, &mj); err != nil {
			return Response(req, 400, jsonHdr(), errBody("MANIFEST_INVALID", err.Error()), false, rec.BodyRead)
		}
		if mj.MediaType != "" && ct != "" && mj.MediaType != ct {
			r.violation("PUT %s: Content-Type %q differs from the manifest's mediaType %q", req.URL.Path, ct, mj.MediaType)
		}
		rp = r.Repo(name)
		if r.P.StrictBlobs {
			var missing []string
			chk := func(d *descJ, manifest bool) {
				if d == nil || isForeign(d.MediaType) {
					return
				}
				if manifest {
					if rp.Manifests[d.Digest] == nil {
						missing = append(missing, d.Digest)
					}
				} else if _, ok := rp.Blobs[d.Digest]; !ok {
					missing = append(missing, d.Digest)
				}
			}
			chk(mj.Config, false)
			for i := range mj.Layers {
				chk(&mj.Layers[i], false)
			}
			for i := range mj.Blobs {
				chk(&mj.Blobs[i], false)
			}
			for i := range mj.Manifests {
				chk(&mj.Manifests[i], true)
			}
			if len(missing) > 0 {
				return Response(req, 400, jsonHdr(), errBody("MANIFEST_BLOB_UNKNOWN", strings.Join(missing, ",")), false, rec.BodyRead)
			}
		}
		rp.Manifests[dg] = &Manifest{Bytes: rec.Body, MediaType: ct}
		if !isDigest {
			rp.Tags[ref] = dg
		}
		h := http.Header{"Location": []string{"/v2/" + name + "/manifests/" + dg}}
		r.digestHdr(h, dg)
		if mj.Subject != nil && r.P.ReferrersAPI && r.P.SubjectHeader {
			h.Set("OCI-Subject", mj.Subject.Digest)
		}
		return Response(req, 201, h, nil, false, rec.BodyRead)
	case http.MethodDelete:
		dg, m := lookup()
		if m == nil {
			return Response(req, 404, jsonHdr(), errBody("MANIFEST_UNKNOWN", ref), false, rec.BodyRead)
		}
		if !isDigest {
			delete(rp.Tags, ref)
		} else {
			delete(rp.Manifests, dg)
			for t, d := range rp.Tags {
				if d == dg {
					delete(rp.Tags, t)
				}
			}
		}
		h := http.Header{}
		r.digestHdr(h, dg)
		return Response(req, 202, h, nil, false, rec.BodyRead)
	}
	r.violation("%s %s: method not allowed on a manifest", req.Method, req.URL.Path)
	return Response(req, 405, jsonHdr(), errBody("UNSUPPORTED", "method"), false, rec.BodyRead)
}

// pad brings a JSON object document to exactly r.PadJSON bytes.
func (r *Registry) pad(b []byte) []byte {
	if r.PadJSON <= 0 || len(b)+9 > r.PadJSON || len(b) < 3 || b[0] != '{' {
		return b // (an empty object "{}" is left alone)
	}
	// {"pad":"xxx",<rest>
	n := r.PadJSON - len(b) - 9
	out := append([]byte(`{"pad":"`), bytes.Repeat([]byte{'x'}, n)...)
	out = append(out, '"', ',')
	return append(out, b[1:]...)
}

// page cuts items after last to the effective page size and reports whether more follow.
func (r *Registry) page(req *http.Request, items []string, nParam string) (out []string, next string, more bool) {
	q := req.URL.Query()
	last := q.Get("last")
	if m := q.Get("marker"); m != "" && last == "" {
		// opaque continuation token of LinkStyle 5 (an explicit last wins, as it
		// does for a first request)
		if b, err := hex.DecodeString(m); err == nil {
			last = string(b)
		}
	}
	start := 0
	if last != "" {
		start = sort.SearchStrings(items, last)
		if start < len(items) && items[start] == last {
			start++
		}
	}
	items = items[start:]
	size := len(items)
	if n, err := strconv.Atoi(q.Get(nParam)); err == nil && n > 0 && n < size {
		size = n
	} else if err == nil && n == 0 && q.Get(nParam) != "" {
		size = 0
	}
	if r.P.PageCap > 0 && r.P.PageCap < size {
		size = r.P.PageCap
	}
	out = items[:size]
	more = size < len(items)
	if len(out) > 0 {
		next = out[len(out)-1]
	}
	return
}

// link renders the Link header for the next page.
func (r *Registry) link(req *http.Request, last string) string {
	q := url.Values{}
	for k, v := range req.URL.Query() {
		if k != "last" {
			q[k] = v
		}
	}
	q.Set("last", last)
	path := req.URL.Path
	switch r.P.LinkStyle {
	case 0:
		return "<" + r.Scheme + "://" + req.URL.Host + path + "?" + q.Encode() + `>; rel="next"`
	case 1:
		return "<" + path + "?" + q.Encode() + `>; rel="next"`
	case 2:
		// relative reference: last path segment
		seg := path[strings.LastIndexByte(path, '/')+1:]
		if strings.Contains(seg, ":") {
			seg = "./" + seg // RFC 3986 4.2: no colon in the first segment of a relative-path reference
		}
		return "<" + seg + "?" + q.Encode() + `>; rel="next"`
	case 3:
		return "<?" + q.Encode() + `>; rel="next"`
	case 5:
		// the continuation is an opaque token, not a last parameter
		q.Del("last")
		q.Set("marker", hex.EncodeToString([]byte(last)))
		return "<" + path + "?" + q.Encode() + `>; rel="next"`
	default:
		q.Set("extra", "1")
		return "<" + path + "?" + q.Encode() + `>;   rel="next"; title="more"`
	}
}

func (r *Registry) tags(req *http.Request, rec *ReqRecord, name string) *http.Response {
	if req.Method != http.MethodGet {
		r.violation("%s %s: method not allowed", req.Method, req.URL.Path)
		return Response(req, 405, jsonHdr(), errBody("UNSUPPORTED", "method"), false, rec.BodyRead)
	}
	r.allowQuery(req, "n", "last", "extra", "marker")
	rp := r.Repos[name]
	if rp == nil {
		return Response(req, 404, jsonHdr(), errBody("NAME_UNKNOWN", name), false, rec.BodyRead)
	}
	var all []string
	for t := range rp.Tags {
		all = append(all, t)
	}
	sort.Strings(all)
	out, next, more := r.page(req, all, "n")
	if out == nil {
		out = []string{}
	}
	b, _ := json.Marshal(map[string]any{"name": name, "tags": out})
	if r.P.OmitEmptyList && len(out) == 0 {
		b, _ = json.Marshal(map[string]any{"name": name})
	}
	b = r.pad(b)
	h := jsonHdr()
	if more || (r.P.EmptyLastPage && len(out) > 0) {
		h.Set("Link", r.link(req, next))
	}
	return Response(req, 200, h, b, r.P.ChunkedLists, rec.BodyRead)
}

func (r *Registry) catalog(req *http.Request, rec *ReqRecord) *http.Response {
	r.allowQuery(req, "n", "last", "extra", "marker")
	var all []string
	for n := range r.Repos {
		all = append(all, n)
	}
	all = append(all, r.Catalog...)
	sort.Strings(all)
	out, next, more := r.page(req, all, "n")
	if out == nil {
		out = []string{}
	}
	b, _ := json.Marshal(map[string]any{"repositories": out})
	if r.P.OmitEmptyList && len(out) == 0 {
		b = []byte("{}")
	}
	b = r.pad(b)
	h := jsonHdr()
	if more || (r.P.EmptyLastPage && len(out) > 0) {
		h.Set("Link", r.link(req, next))
	}
	return Response(req, 200, h, b, r.P.ChunkedLists, rec.BodyRead)
}

// ReferrersOf computes the referrer descriptors of subject in repo name (the
// model's ground truth), sorted by digest.
func (r *Registry) ReferrersOf(name, subject string) []descJ {
	rp := r.Repos[name]
	if rp == nil {
		return nil
	}
	var out []descJ
	for dg, m := range rp.Manifests {
		var mj manifestJ
		if json.Unmarshal(m.Bytes, &mj) != nil || mj.Subject == nil || mj.Subject.Digest != subject {
			continue
		}
		at := mj.ArtifactType
		if at == "" && mj.Config != nil {
			at = mj.Config.MediaType
		}
		out = append(out, descJ{MediaType: m.MediaType, Digest: dg, Size: int64(len(m.Bytes)), ArtifactType: at, Annotations: mj.Annotations})
	}
	sort.Slice(out, func(i, j int) bool { return out[i].Digest < out[j].Digest })
	return out
}

func (r *Registry) referrers(req *http.Request, rec *ReqRecord, name, dg string) *http.Response {
	if req.Method != http.MethodGet {
		r.violation("%s %s: method not allowed", req.Method, req.URL.Path)
	}
	r.allowQuery(req, "artifactType", "n", "last", "extra", "marker")
	if !r.P.ReferrersAPI {
		return Response(req, 404, http.Header{"Content-Type": []string{"text/plain"}}, []byte("404 page not found\n"), false, rec.BodyRead)
	}
	all := r.ReferrersOf(name, dg)
	at := req.URL.Query().Get("artifactType")
	applied := false
	if at != "" && r.P.FilterMode > 0 {
		var f []descJ
		for _, d := range all {
			if d.ArtifactType == at {
				f = append(f, d)
			}
		}
		all, applied = f, true
	}
	keys := make([]string, len(all))
	byKey := map[string]descJ{}
	for i, d := range all {
		keys[i] = d.Digest
		byKey[d.Digest] = d
	}
	out, next, more := r.page(req, keys, "n")
	ms := []descJ{}
	for _, k := range out {
		ms = append(ms, byKey[k])
	}
	idx := map[string]any{"schemaVersion": 2, "mediaType": "application/vnd.oci.image.index.v1+json", "manifests": ms}
	h := http.Header{"Content-Type": []string{"application/vnd.oci.image.index.v1+json"}}
	if applied {
		if r.P.FilterMode == 1 {
			h.Set("OCI-Filters-Applied", "artifactType")
		} else {
			idx["annotations"] = map[string]string{"org.opencontainers.referrers.filtersApplied": "artifactType"}
		}
	}
	b, _ := json.Marshal(idx)
	b = r.pad(b)
	if more || (r.P.EmptyLastPage && len(out) > 0) {
		h.Set("Link", r.link(req, next))
	}
	return Response(req, 200, h, b, r.P.ChunkedLists, rec.BodyRead)
}

// Net routes requests to registries (and other handlers) by host.
type Net struct {
	mu    sync.Mutex
	Hosts map[string]http.RoundTripper
	Seen  []*http.Request
}

// NewNet creates an empty network.
func NewNet() *Net { return &Net{Hosts: map[string]http.RoundTripper{}} }

// RoundTrip implements http.RoundTripper.
func (n *Net) RoundTrip(req *http.Request) (*http.Response, error) {
	n.mu.Lock()
	h := n.Hosts[req.URL.Host]
	n.mu.Unlock()
	if h == nil {
		return nil, fmt.Errorf("regmodel: dial %s: no such host", req.URL.Host)
	}
	return h.RoundTrip(req)
}
