package c03

import (
	"context"
	"fmt"
	"regexp"
	"testing"
	"time"

	ocispec "github.com/opencontainers/image-spec/specs-go/v1"
	"pgregory.net/rapid"

	"verif/harness/copyx"
	"verif/harness/gen"
	"verif/harness/regmodel"
	"verif/harness/vt"
)

var srcKinds = []string{"memory", "oci", "oci-ro", "oci-tar", "file"}
var dstKinds = []string{"memory", "memory", "oci"}

var atPool = []string{"application/vnd.verif.sig", "application/vnd.verif.sbom", "application/vnd.good"}
var annKeys = []string{"k", "role"}
var annVals = []string{"good", "bad", "goodish"}
var atRegexes = []string{`^application/vnd\.good$`, `sig|sbom`, `^application/vnd\.verif\.`, `nomatch-at-all`, `config`}
var annRegexes = []string{"", `^good$`, `good`, `^bad$`, `zzz`}

func genCase(t *rapid.T) copyx.Case {
	max := 14
	if vt.Thorough() {
		max = 28
	}
	o := gen.DAGOpts{MaxNodes: max, Referrers: true, NoDocker: true, ATPool: atPool, AnnKeys: annKeys, AnnVals: annVals, EmbMeta: true, NoBigBlobs: true}
	c := copyx.GenBase(t, o, srcKinds, dstKinds)
	d := gen.Build(c.Specs)
	// start node: any node the source holds
	var present []int
	for _, id := range d.CanonIDs() {
		// narrowing: the start node is not itself a foreign (non-distributable) layer -
		// such a node is by design never transferred through the link that reaches it
		if !d.Nodes[id].Spec.Absent && !gen.IsForeignMT(d.Nodes[id].Desc.MediaType) {
			present = append(present, id)
		}
	}
	c.Root = rapid.SampledFrom(present).Draw(t, "start")
	c.API = rapid.SampledFrom([]string{"extcopygraph", "extcopygraph", "extcopy"}).Draw(t, "api")
	c.Depth = rapid.SampledFrom([]int{0, 0, 1, 2, 3, 99}).Draw(t, "depth")
	if rapid.IntRange(0, 3).Draw(t, "prePopulate") == 0 {
		// the destination already holds a link-closed part of the source (possibly an
		// ancestor of the start node together with everything below it)
		universe := map[int]bool{}
		for _, id := range present {
			universe[id] = true
		}
		c.Pre = copyx.GenPre(t, d, universe, c.Root)
	}
	addPreTag(t, &c, d)
	switch rapid.IntRange(0, 4).Draw(t, "filterMode") {
	case 0, 1:
	case 2:
		c.FilterAT = rapid.SampledFrom(atRegexes).Draw(t, "atRe")
	case 3:
		c.FilterAnnKey = rapid.SampledFrom(annKeys).Draw(t, "annKey")
		c.FilterAnnRe = rapid.SampledFrom(annRegexes).Draw(t, "annRe")
	default:
		c.FilterAT = rapid.SampledFrom(atRegexes).Draw(t, "atRe2")
		c.FilterAnnKey = rapid.SampledFrom(annKeys).Draw(t, "annKey2")
		c.FilterAnnRe = rapid.SampledFrom(annRegexes).Draw(t, "annRe2")
		c.FilterOrder = rapid.IntRange(0, 1).Draw(t, "order")
	}
	return c
}

// fanSpecs builds a referrer fan: a subject with 2-7 referrers (some of them
// referrers of referrers) whose artifact types and annotations come from small
// pools, so that filters reject some and accept others and listings span pages.
func fanSpecs(t *rapid.T, sha256Only bool) []gen.NodeSpec {
	specs := []gen.NodeSpec{
		{Kind: gen.KBlob, Seed: 1, Size: 2, MT: gen.MTConfig},
		{Kind: gen.KBlob, Seed: 2, Size: 9, MT: gen.MTLayer},
		{Kind: gen.KImage, Config: &gen.Ref{N: 0}, Layers: []gen.Ref{{N: 1}}},
	}
	manifests := []int{2}
	k := rapid.IntRange(2, 7).Draw(t, "fanReferrers")
	for i := 0; i < k; i++ {
		subj := 2
		if rapid.IntRange(0, 3).Draw(t, "chain") == 0 {
			subj = rapid.SampledFrom(manifests).Draw(t, "chainSubject")
		}
		s := gen.NodeSpec{Subject: &gen.Ref{N: subj}}
		switch rapid.IntRange(0, 3).Draw(t, "fanKind") {
		case 0:
			s.Kind = gen.KArtifact
			s.ArtifactType = rapid.SampledFrom(atPool).Draw(t, "fanAT")
			s.Layers = []gen.Ref{{N: 1}}
		case 1:
			s.Kind = gen.KIndex
			s.ArtifactType = rapid.SampledFrom(atPool).Draw(t, "fanAT")
		case 2:
			// artifact type only as config media type
			mi := rapid.IntRange(0, len(atPool)-1).Draw(t, "fanCfgMT")
			specs = append(specs, gen.NodeSpec{Kind: gen.KBlob, Seed: 3 + mi, Size: 2 + mi, MT: atPool[mi]})
			s.Kind = gen.KImage
			s.Config = &gen.Ref{N: len(specs) - 1}
		default:
			s.Kind = gen.KImage
			s.Config = &gen.Ref{N: 0}
			s.ArtifactType = rapid.SampledFrom(atPool).Draw(t, "fanAT")
		}
		switch rapid.IntRange(0, 4).Draw(t, "fanAnn") {
		case 0:
		case 1:
			// no annotations at all: annotation filters have to fetch the manifest
			s.NoAnn = true
			if s.Kind != gen.KIndex {
				specs = append(specs, gen.NodeSpec{Kind: gen.KBlob, Seed: 50 + i, Size: 3, MT: gen.MTLayer})
				s.Layers = append(s.Layers, gen.Ref{N: len(specs) - 1})
			}
		default:
			s.Ann = map[string]string{rapid.SampledFrom(annKeys).Draw(t, "fanK"): rapid.SampledFrom(annVals).Draw(t, "fanV")}
		}
		specs = append(specs, s)
		manifests = append(manifests, len(specs)-1)
	}
	return specs
}

// addPreTag makes, for some ExtendedCopy cases, the destination look as after an
// earlier Copy of the start node: its own graph is there and the destination
// reference already names it (its ancestors may be new).
func addPreTag(t *rapid.T, c *copyx.Case, d *gen.DAG) {
	for id := range d.Reach(c.Root, true) {
		if d.Nodes[id].Spec.Absent {
			return
		}
	}
	if c.API != "extcopy" || rapid.IntRange(0, 2).Draw(t, "preTag") != 0 {
		return
	}
	c.PreTag = true
	have := map[int]bool{}
	for _, id := range c.Pre {
		have[id] = true
	}
	for _, id := range gen.SortedKeys(d.Reach(c.Root, true)) {
		if !have[id] {
			c.Pre = append(c.Pre, id)
		}
	}
}

// genRemote: the source is a remote.Repository (Referrers API, possibly paginated,
// or the referrers tag schema), where predecessors are the subject-referrers only.
func genRemote(t *rapid.T) copyx.Case {
	max := 12
	if vt.Thorough() {
		max = 24
	}
	o := gen.DAGOpts{MaxNodes: max, Referrers: true, NoDocker: true, ATPool: atPool, AnnKeys: annKeys, AnnVals: annVals, NoBigBlobs: true, ManifestSHA: true, OnlySHA256: true, SingleMT: true, NoBlobSubj: true, NoAbsent: true, NoForeign: true}
	c := copyx.GenBase(t, o, []string{"remote"}, []string{"memory"})
	c.SrcKind, c.DstKind = "remote", "memory"
	fan := rapid.IntRange(0, 3).Draw(t, "fan") != 0
	if fan {
		c.Specs = fanSpecs(t, true)
	}
	d := gen.Build(c.Specs)
	api := rapid.Bool().Draw(t, "referrersAPI")
	c.SrcProfile = regmodel.Profile{ReferrersAPI: api, PageCap: rapid.SampledFrom([]int{0, 1, 2}).Draw(t, "cap"), LinkStyle: rapid.IntRange(0, 4).Draw(t, "link"), FilterMode: rapid.IntRange(0, 2).Draw(t, "filterMode")}
	c.RefPage = rapid.SampledFrom([]int{0, 1, 3}).Draw(t, "refPage")
	var manifests []int
	for _, id := range d.CanonIDs() {
		if d.IsManifest(id) {
			manifests = append(manifests, id)
		}
	}
	if len(manifests) == 0 {
		c.Root = d.CanonIDs()[0]
		c.API = "extcopygraph"
	} else {
		c.Root = rapid.SampledFrom(manifests).Draw(t, "start")
		if fan && rapid.IntRange(0, 2).Draw(t, "startAtSubject") != 0 {
			c.Root = 2
		}
		c.API = rapid.SampledFrom([]string{"extcopygraph", "extcopygraph", "extcopy"}).Draw(t, "api")
	}
	c.Depth = rapid.SampledFrom([]int{0, 0, 1, 2, 99}).Draw(t, "depth")
	switch rapid.IntRange(0, 4).Draw(t, "filterMode2") {
	case 0:
	case 1, 2:
		c.FilterAT = rapid.SampledFrom(atRegexes).Draw(t, "atRe")
	case 3:
		c.FilterAnnKey = rapid.SampledFrom(annKeys).Draw(t, "annKey")
		c.FilterAnnRe = rapid.SampledFrom(annRegexes).Draw(t, "annRe")
	default:
		c.FilterAT = rapid.SampledFrom(atRegexes).Draw(t, "atRe2")
		c.FilterAnnKey = rapid.SampledFrom(annKeys).Draw(t, "annKey2")
		c.FilterAnnRe = rapid.SampledFrom(annRegexes).Draw(t, "annRe2")
		c.FilterOrder = rapid.IntRange(0, 1).Draw(t, "order")
	}
	// a stale referrers-index entry (tag schema only): one referrer vanishes from
	// the registry without the index being updated
	if !api && rapid.IntRange(0, 2).Draw(t, "stale") == 0 {
		var refs []int
		for _, id := range manifests {
			for _, e := range d.Nodes[id].Edges {
				if e.Role == "subject" && id != d.Nodes[c.Root].Canon {
					refs = append(refs, id)
				}
			}
		}
		if len(refs) > 0 {
			c.HasStale, c.StaleRef = true, rapid.SampledFrom(refs).Draw(t, "staleRef")
			// prefer a referrer without annotations (its index entry carries none, so an
			// annotation filter has to fetch the vanished manifest) under chained filters
			var bare []int
			for _, id := range refs {
				if d.Nodes[id].Spec.NoAnn {
					bare = append(bare, id)
				}
			}
			if len(bare) > 0 && rapid.IntRange(0, 3).Draw(t, "staleBare") != 0 {
				c.StaleRef = rapid.SampledFrom(bare).Draw(t, "staleBareRef")
				c.FilterAT = `vnd`
				c.FilterAnnKey = rapid.SampledFrom(annKeys).Draw(t, "staleAnnKey")
				c.FilterAnnRe = rapid.SampledFrom([]string{"", "good"}).Draw(t, "staleAnnRe")
				c.FilterOrder = 0
				c.Depth = 0
			}
		}
	}
	if !c.HasStale {
		addPreTag(t, &c, d)
	}
	return c
}

// keepRef is the reference predicate "this predecessor manifest satisfies the
// filters", evaluated on the generator's own manifest records.
func keepRef(c *copyx.Case, d *gen.DAG, p int) bool {
	n := d.Nodes[p]
	if c.FilterAT != "" {
		if !regexp.MustCompile(c.FilterAT).MatchString(n.EffectiveArtifactType(d)) {
			return false
		}
	}
	if c.FilterAnnKey != "" {
		v, ok := manifestAnnotations(n)[c.FilterAnnKey]
		if !ok {
			return false
		}
		if c.FilterAnnRe != "" && !regexp.MustCompile(c.FilterAnnRe).MatchString(v) {
			return false
		}
	}
	return true
}

func manifestAnnotations(n *gen.Node) map[string]string {
	if n.Spec.NoAnn {
		return map[string]string{}
	}
	out := map[string]string{"verif.id": fmt.Sprint(n.ID)}
	for k, v := range n.Spec.Ann {
		out[k] = v
	}
	return out
}

// keepStored is the same predicate evaluated the way the known finding describes:
// annotations (and artifact type) are taken from the descriptor the source returns
// for the predecessor when they are present there.
func keepStored(c *copyx.Case, d *gen.DAG, p int, stored ocispec.Descriptor) bool {
	n := d.Nodes[p]
	if c.FilterAT != "" {
		at := stored.ArtifactType
		if at == "" {
			at = n.EffectiveArtifactType(d)
		}
		if !regexp.MustCompile(c.FilterAT).MatchString(at) {
			return false
		}
	}
	if c.FilterAnnKey != "" {
		ann := stored.Annotations
		if ann == nil {
			ann = manifestAnnotations(n)
		}
		v, ok := ann[c.FilterAnnKey]
		if !ok {
			return false
		}
		if c.FilterAnnRe != "" && !regexp.MustCompile(c.FilterAnnRe).MatchString(v) {
			return false
		}
	}
	return true
}

// upward computes the ancestors reached from start following predecessors accepted
// by keep, with their minimal distance.
// parentsOf is the source's predecessor relation: every link for the built-in stores,
// subject links only for a remote repository (its Predecessors are the referrers).
func parentsOf(d *gen.DAG, remote bool) map[int][]int {
	if !remote {
		return d.Parents()
	}
	out := map[int][]int{}
	for _, p := range d.CanonIDs() {
		for _, e := range d.Nodes[p].Edges {
			if e.Role == "subject" {
				out[e.To] = append(out[e.To], p)
			}
		}
	}
	return out
}

var remoteSource bool

func upward(d *gen.DAG, stored map[int]bool, start int, keep func(p, child int) bool) map[int]int {
	parents := parentsOf(d, remoteSource)
	dist := map[int]int{start: 0}
	queue := []int{start}
	for len(queue) > 0 {
		x := queue[0]
		queue = queue[1:]
		for _, p := range parents[x] {
			if !stored[p] || !keep(p, x) {
				continue
			}
			if _, ok := dist[p]; !ok {
				dist[p] = dist[x] + 1
				queue = append(queue, p)
			}
		}
	}
	return dist
}

func unionReach(d *gen.DAG, roots map[int]int, maxDist int) map[int]bool {
	out := map[int]bool{}
	for a, dist := range roots {
		if maxDist > 0 && dist > maxDist {
			continue
		}
		for id := range d.Reach(a, true) {
			out[id] = true
		}
	}
	return out
}

// genFan: the referrer fan on the built-in stores.
func genFan(t *rapid.T) copyx.Case {
	c := genCase(t)
	c.Specs = fanSpecs(t, false)
	c.Pre, c.PreTag = nil, false // drawn for the graph that was just replaced
	c.Root = 2
	if rapid.IntRange(0, 2).Draw(t, "fanStartElsewhere") == 0 {
		c.Root = rapid.IntRange(0, len(c.Specs)-1).Draw(t, "fanStart")
	}
	if rapid.IntRange(0, 3).Draw(t, "fanPre") == 0 {
		d := gen.Build(c.Specs)
		universe := map[int]bool{}
		for _, id := range d.CanonIDs() {
			universe[id] = true
		}
		c.Pre = copyx.GenPre(t, d, universe, c.Root)
	}
	addPreTag(t, &c, gen.Build(c.Specs))
	return c
}

func runCase(c copyx.Case) (res vt.Result, fail *vt.Fail) {
	e, f := copyx.Setup(&c)
	if f != nil {
		return res, f
	}
	defer e.Close()
	d := e.D
	ctx := context.Background()
	remoteSource = c.SrcKind == "remote"
	start := d.Nodes[c.Root].Canon
	stored := map[int]bool{}
	for _, id := range d.CanonIDs() {
		if !d.Nodes[id].Spec.Absent {
			stored[id] = true
		}
	}
	if c.HasStale {
		delete(stored, d.Nodes[c.StaleRef].Canon)
	}
	filtered := c.FilterAT != "" || c.FilterAnnKey != ""
	// descriptors as the source reports them (for attributing the known finding)
	storedDesc := map[[2]int]ocispec.Descriptor{}
	byKey := map[string]int{}
	for _, id := range d.CanonIDs() {
		byKey[gen.TripleKey(d.Nodes[id].Desc)] = id
	}
	descDiffers := false
	if filtered {
		for _, id := range d.CanonIDs() {
			if remoteSource && (!d.IsManifest(id) || !stored[id]) {
				continue // a repository lists referrers of manifests only
			}
			ps, err := e.RawSrc.Predecessors(ctx, d.Nodes[id].Desc)
			if err != nil && c.HasStale {
				continue
			}
			if err != nil {
				return res, vt.Failf("harness/src-preds", "%v", err)
			}
			for _, p := range ps {
				if pid, ok := byKey[gen.TripleKey(p)]; ok {
					storedDesc[[2]int{pid, id}] = p
				}
			}
		}
	}
	keepR := func(p, child int) bool { return !filtered || keepRef(&c, d, p) }
	keepS := func(p, child int) bool {
		if !filtered {
			return true
		}
		sd := storedDesc[[2]int{p, child}]
		k := keepStored(&c, d, p, sd)
		if k != keepRef(&c, d, p) {
			descDiffers = true
		}
		return k
	}
	upRef := upward(d, stored, start, keepR)
	upAll := upward(d, stored, start, func(p, ch int) bool { return true })

	var out copyx.Outcome
	fin, _ := vt.Watch(60*time.Second, func() { out = e.Invoke(false) })
	if !fin {
		vt.Infra("extended copy did not return within 60 s (see C02)")
	}
	// classification
	res.Classes = append(res.Classes, "api-"+c.API, "src-"+c.SrcKind, fmt.Sprintf("depth-%d", c.Depth))
	cut := false
	if c.Depth > 0 {
		for _, dist := range upRef {
			if dist > c.Depth {
				cut = true
			}
		}
	}
	rejected, accepted := 0, 0
	if filtered {
		parents := parentsOf(d, remoteSource)
		for x := range upAll {
			for _, p := range parents[x] {
				if !stored[p] {
					continue
				}
				if keepRef(&c, d, p) {
					accepted++
				} else {
					rejected++
				}
			}
		}
	}
	if cut {
		res.Classes = append(res.Classes, "depth-cuts-an-ancestor")
	}
	if filtered {
		res.Classes = append(res.Classes, "filtered")
	}
	if rejected > 0 && accepted > 0 {
		res.Classes = append(res.Classes, "filter-rejects-and-accepts")
	}
	shared := false
	{
		seen := map[int]int{}
		for a := range upRef {
			if true {
				for id := range d.Reach(a, true) {
					seen[id]++
				}
			}
		}
		for _, k := range seen {
			if k >= 2 {
				shared = true
			}
		}
	}
	res.NonTrivial = len(upAll) >= 2 && (shared || cut || (rejected > 0 && accepted > 0) || c.SrcKind == "oci-ro" || c.SrcKind == "oci-tar")

	if c.HasStale {
		res.Classes = append(res.Classes, "stale-referrers-index-entry")
		if out.Err != nil {
			// a listed predecessor whose manifest is gone: reporting that is fine
			return res, nil
		}
	}
	if out.Err != nil {
		return res, vt.Failf("C03/fault-free-extended-copy-failed", "%s from %s failed: %v", c.API, c.SrcKind, out.Err)
	}
	present, pf := e.PresentSet()
	if pf != nil {
		return res, pf
	}
	prePop := map[int]bool{}
	for _, p := range c.Pre {
		prePop[d.Nodes[p].Canon] = true
	}
	if len(c.Pre) > 0 {
		res.Classes = append(res.Classes, "destination-pre-populated")
	}
	judge := func(up map[int]int) *vt.Fail {
		must := unionReach(d, up, 0)
		if c.Depth > 0 {
			// with a depth limit only the start node's own graph is mandatory
			must = d.Reach(start, true)
		}
		for id := range must {
			if d.Nodes[id].Spec.Absent {
				continue
			}
			if !present[id] {
				return vt.Failf("C03/missing-node", "node %d (%s) belongs to the graph of an ancestor of start node %d that must be followed, but is missing in the destination", id, d.Nodes[id].Spec.Kind, start)
			}
		}
		if f := e.CheckPresent(filterAbsent(d, must), "C03", "after "+c.API); f != nil {
			return f
		}
		if c.Depth > 0 || filtered {
			allowed := unionReach(d, up, c.Depth)
			for id := range present {
				if !allowed[id] && !prePop[id] {
					why := "outside the graphs of ancestors at most Depth predecessor steps away"
					if filtered {
						why = "only reachable through predecessors the filter rejects (or beyond Depth)"
					}
					return vt.Failf("C03/extra-node", "destination holds node %d (%s), which is %s (start %d, depth %d)", id, d.Nodes[id].Spec.Kind, why, start, c.Depth)
				}
			}
		}
		return nil
	}
	if f := judge(upRef); f != nil {
		if filtered {
			upS := upward(d, stored, start, keepS)
			if descDiffers && judge(upS) == nil {
				return res, vt.Failf("C03/filter-uses-descriptor-annotations", "the copied set matches what the filter yields on the annotations/artifact type of the descriptors the source RETURNS for the predecessors, not on the manifests' own: %s", f.Msg)
			}
		}
		return res, f
	}
	if c.API == "extcopy" {
		got, err := e.RawDst.Resolve(ctx, copyx.DstRef)
		root := d.Nodes[start]
		if err != nil {
			return res, vt.Failf("C03/start-not-tagged", "Resolve(%q): %v", copyx.DstRef, err)
		}
		if got.Digest != root.Desc.Digest || gen.TripleKey(out.Desc) != gen.TripleKey(root.Desc) {
			return res, vt.Failf("C03/tag-points-elsewhere", "ExtendedCopy tagged %s / returned %s, expected the given node %s", got.Digest, out.Desc.Digest, root.Desc.Digest)
		}
	}
	return res, nil
}

func filterAbsent(d *gen.DAG, set map[int]bool) map[int]bool {
	out := map[int]bool{}
	for id := range set {
		if !d.Nodes[id].Spec.Absent {
			out[id] = true
		}
	}
	return out
}

func TestMain(m *testing.M) {
	vt.Main(m, "C03",
		vt.NewLeg("main", 1500, 4000, 16, genCase, runCase),
		vt.NewLeg("remote", 1200, 3000, 8, genRemote, runCase),
		vt.NewLeg("fan", 800, 2500, 8, genFan, runCase),
	)
}

func TestLegs(t *testing.T)   { vt.TestLegs(t) }
func TestReplay(t *testing.T) { vt.TestReplay(t) }
