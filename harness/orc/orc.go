// Package orc holds oracles shared by several properties.
package orc

import (
	"bytes"
	"context"
	"errors"
	"fmt"
	"os"
	"path/filepath"
	"sort"

	ocispec "github.com/opencontainers/image-spec/specs-go/v1"
	"oras.land/oras-go/v2/content"
	"oras.land/oras-go/v2/errdef"

	"verif/harness/fsx"
	"verif/harness/gen"
	"verif/harness/model"
	"verif/harness/vt"
)

// PredFinder is the Predecessors half of a graph store.
type PredFinder interface {
	Predecessors(ctx context.Context, node ocispec.Descriptor) ([]ocispec.Descriptor, error)
}

// CheckPreds compares Predecessors of every node of the DAG (present or not) with
// the ground truth {p : p stored and p->n in the generator's edge list}, as
// multisets of descriptor triples.
func CheckPreds(ctx context.Context, pf PredFinder, d *gen.DAG, stored map[int]bool, prop, when string) *vt.Fail {
	parents := d.Parents()
	for _, id := range d.CanonIDs() {
		n := d.Nodes[id]
		got, err := pf.Predecessors(ctx, n.Desc)
		if err != nil {
			return vt.Failf(prop+"/predecessors-error", "%s: Predecessors(node %d): %v", when, id, err)
		}
		var want []string
		for _, p := range parents[id] {
			if stored[p] {
				want = append(want, gen.TripleKey(d.Nodes[p].Desc))
			}
		}
		var have []string
		for _, g := range got {
			have = append(have, gen.TripleKey(g))
		}
		sort.Strings(want)
		sort.Strings(have)
		if fmt.Sprint(want) != fmt.Sprint(have) {
			return vt.Failf(prop+"/predecessors-mismatch", "%s: Predecessors(node %d %s, stored=%v): got %v want %v", when, id, n.Spec.Kind, stored[id], have, want)
		}
	}
	return nil
}

// OCIView is what the state oracle needs from an OCI-layout store (live or reopened).
type OCIView interface {
	content.ReadOnlyStorage
	content.Resolver
	PredFinder
	Tags(ctx context.Context, last string, fn func(tags []string) error) error
}

// CheckOCIState compares the observable state of an OCI-layout store with the model:
// Exists and Fetch bytes per node, the tag list, Resolve per tag, Predecessors.
func CheckOCIState(ctx context.Context, s OCIView, m *model.OCI, prop, when string) *vt.Fail {
	d := m.D
	for _, id := range d.CanonIDs() {
		n := d.Nodes[id]
		ok, err := s.Exists(ctx, n.Desc)
		if err != nil {
			return vt.Failf(prop+"/exists-error", "%s: Exists(node %d): %v", when, id, err)
		}
		if ok != m.Has(id) {
			return vt.Failf(prop+"/exists-mismatch", "%s: Exists(node %d %s) = %v, model says %v", when, id, n.Spec.Kind, ok, m.Has(id))
		}
		b, err := gen.ReadBack(ctx, s, n.Desc)
		if m.Has(id) {
			if err != nil {
				return vt.Failf(prop+"/fetch-error", "%s: Fetch(node %d): %v", when, id, err)
			}
			if !bytes.Equal(b, n.Bytes) {
				return vt.Failf(prop+"/fetch-bytes", "%s: Fetch(node %d) returned %d bytes that differ from the %d pushed", when, id, len(b), len(n.Bytes))
			}
		} else if err == nil {
			return vt.Failf(prop+"/fetch-absent", "%s: Fetch(node %d) succeeded although the node is absent in the model", when, id)
		}
	}
	var tags []string
	if err := s.Tags(ctx, "", func(t []string) error { tags = append(tags, t...); return nil }); err != nil {
		return vt.Failf(prop+"/tags-error", "%s: Tags: %v", when, err)
	}
	want := m.TagNames()
	if fmt.Sprint(tags) != fmt.Sprint(want) {
		return vt.Failf(prop+"/tags-mismatch", "%s: Tags = %v, model says %v", when, tags, want)
	}
	for _, ref := range want {
		desc, err := s.Resolve(ctx, ref)
		if err != nil {
			return vt.Failf(prop+"/resolve-error", "%s: Resolve(%q): %v", when, ref, err)
		}
		n := d.Nodes[m.Tags[ref]]
		if desc.Digest != n.Desc.Digest || desc.Size != n.Desc.Size {
			return vt.Failf(prop+"/resolve-mismatch", "%s: Resolve(%q) = %s/%s/%d, model says node %d %s/%s/%d", when, ref, desc.MediaType, desc.Digest, desc.Size, n.ID, n.Desc.MediaType, n.Desc.Digest, n.Desc.Size)
		}
	}
	return CheckPreds(ctx, s, d, m.StoredTriples(), prop, when)
}

// IsNotFound reports the not-found error class.
func IsNotFound(err error) bool { return errors.Is(err, errdef.ErrNotFound) }

// BlobFiles lists "alg/name" for every file under dir/blobs.
func BlobFiles(dir string) ([]string, error) {
	var out []string
	algs, err := os.ReadDir(filepath.Join(dir, "blobs"))
	if err != nil {
		return nil, err
	}
	for _, a := range algs {
		if !a.IsDir() {
			out = append(out, a.Name())
			continue
		}
		ents, err := os.ReadDir(filepath.Join(dir, "blobs", a.Name()))
		if err != nil {
			return nil, err
		}
		for _, e := range ents {
			out = append(out, a.Name()+"/"+e.Name())
		}
	}
	sort.Strings(out)
	return out, nil
}

// IndexedSet returns the stored nodes reachable (through the generator's edges, over
// stored nodes) from the entries of dir/index.json - what an OCI layout "contains"
// as far as a reader of the directory can tell.
func IndexedSet(dir string, d *gen.DAG, stored map[int]bool) (map[int]bool, error) {
	idx, err := fsx.ReadIndex(dir)
	if err != nil {
		return nil, err
	}
	byDigest := map[string][]int{}
	for _, id := range d.CanonIDs() {
		byDigest[d.Nodes[id].Desc.Digest.String()] = append(byDigest[d.Nodes[id].Desc.Digest.String()], id)
	}
	out := map[int]bool{}
	var visit func(id int)
	visit = func(id int) {
		if out[id] || !stored[id] {
			return
		}
		out[id] = true
		for _, e := range d.Nodes[id].Edges {
			visit(e.To)
		}
	}
	for _, m := range idx.Manifests {
		for _, id := range byDigest[m.Digest] {
			visit(id)
		}
	}
	return out, nil
}

// CheckPredsView is CheckPreds for a reopened view of an OCI layout. A predecessor
// that the view omits although it is stored, while it is NOT reachable from any
// index.json entry (an orphan manifest), is reported under the dedicated key
// prop+"/reopen-omits-unindexed-manifest"; every other difference is a plain mismatch.
func CheckPredsView(ctx context.Context, pf PredFinder, d *gen.DAG, stored map[int]bool, dir, prop, when string) *vt.Fail {
	f := CheckPreds(ctx, pf, d, stored, prop, when)
	if f == nil {
		return nil
	}
	indexed, err := IndexedSet(dir, d, stored)
	if err != nil {
		return f
	}
	if CheckPreds(ctx, pf, d, indexed, prop, when) == nil {
		return vt.Failf(prop+"/reopen-omits-unindexed-manifest", "%s: the reopened store's Predecessors are exact for the manifests reachable from index.json but omit stored manifests no index entry reaches: %s", when, f.Msg)
	}
	return f
}
