package c13

import (
	"bytes"
	"context"
	"errors"
	"fmt"
	"io"
	"net/http"
	"sort"
	"strings"
	"sync"
	"testing"

	ocispec "github.com/opencontainers/image-spec/specs-go/v1"
	"oras.land/oras-go/v2/content"
	"oras.land/oras-go/v2/errdef"
	"oras.land/oras-go/v2/registry/remote"
	"oras.land/oras-go/v2/registry/remote/auth"
	"oras.land/oras-go/v2/registry/remote/retry"
	"pgregory.net/rapid"

	"verif/harness/gen"
	"verif/harness/regmodel"
	"verif/harness/vt"
)

const host = "reg.test"
const repoName = "proj/app"
const sibling = "proj/base"

// Op is one operation of a history.
type Op struct {
	Op     string     `json:"op"`
	N      int        `json:"n,omitempty"`
	Tag    string     `json:"tag,omitempty"`
	Form   int        `json:"form,omitempty"`   // reference spelling for fetchref/resolve
	Reader int        `json:"reader,omitempty"` // 0 bytes.Reader, 1 one-shot reader, 2 NopCloser(bytes.Reader)
	Via    int        `json:"via,omitempty"`    // 0 Repository, 1 Blobs()/Manifests()
	AT     string     `json:"at,omitempty"`
	Seek   []SeekStep `json:"seek,omitempty"`
}

// SeekStep is one step of a Read/Seek script.
type SeekStep struct {
	Read   int   `json:"read,omitempty"` // >0: Read(n)
	Off    int64 `json:"off,omitempty"`
	Whence int   `json:"whence,omitempty"`
	IsSeek bool  `json:"isSeek,omitempty"`
	// Fault: the range request this Seek issues (if any) is answered with an error status (400, which no retry layer repeats); the
	// script then repeats the same Seek (a caller's retry)
	Fault bool `json:"fault,omitempty"`
}

// Case is a generated history.
type Case struct {
	Specs      []gen.NodeSpec   `json:"specs"`
	P          regmodel.Profile `json:"profile"`
	PlainHTTP  bool             `json:"plainHTTP,omitempty"`
	AuthClient bool             `json:"authClient,omitempty"`
	TagPage    int              `json:"tagPage,omitempty"`
	RefPage    int              `json:"refPage,omitempty"`
	SkipGC     bool             `json:"skipReferrersGC,omitempty"`
	CustomMT   bool             `json:"customManifestMT,omitempty"` // ManifestMediaTypes reclassifies the custom blob type as manifest
	Ops        []Op             `json:"ops"`
}

var tagNames = []string{"latest", "v1", "rel-2.0", "x_y"}

func genProfile(t *rapid.T) regmodel.Profile {
	p := regmodel.Profile{
		ReferrersAPI:   rapid.Bool().Draw(t, "referrersAPI"),
		NoDigestHeader: rapid.IntRange(0, 3).Draw(t, "noDigestHeader") == 0,
		AcceptRanges:   rapid.Bool().Draw(t, "acceptRanges"),
		Chunked:        rapid.IntRange(0, 4).Draw(t, "chunked") == 0,
		MountCreated:   rapid.Bool().Draw(t, "mountCreated"),
		PageCap:        rapid.SampledFrom([]int{0, 0, 1, 2, 3}).Draw(t, "pageCap"),
		StrictBlobs:    false,
		LinkStyle:      rapid.IntRange(0, 4).Draw(t, "linkStyle"),
		FilterMode:     rapid.IntRange(0, 2).Draw(t, "filterMode"),
		LocationQuery:  rapid.Bool().Draw(t, "locationQuery"),
		LocationAbs:    rapid.Bool().Draw(t, "locationAbs"),
	}
	p.SubjectHeader = p.ReferrersAPI && rapid.Bool().Draw(t, "subjectHeader")
	if p.Chunked {
		// a registry that announces neither the digest nor the length of a manifest
		// leaves a tag unresolvable (the client documents an error for that): the two
		// omissions are not combined
		p.NoDigestHeader = false
	}
	return p
}

func genCase(t *rapid.T) Case {
	max, steps := 10, 25
	if vt.Thorough() {
		max, steps = 14, 50
	}
	c := Case{P: genProfile(t)}
	c.PlainHTTP = rapid.Bool().Draw(t, "plainHTTP")
	c.AuthClient = rapid.Bool().Draw(t, "authClient")
	c.TagPage = rapid.SampledFrom([]int{0, 0, 1, 2, 5}).Draw(t, "tagPage")
	c.RefPage = rapid.SampledFrom([]int{0, 0, 1, 2}).Draw(t, "refPage")
	c.SkipGC = rapid.IntRange(0, 3).Draw(t, "skipGC") == 0
	c.CustomMT = rapid.IntRange(0, 4).Draw(t, "customMT") == 0
	o := gen.DAGOpts{MaxNodes: max, Referrers: true, NoDocker: false, ManifestSHA: true, OnlySHA256: false, NoAbsent: true, NoForeign: true, NoBigBlobs: false, SingleMT: true, NoBlobSubj: true,
		// artifact types with characters that need escaping in a query string
		ATPool: []string{"application/vnd.verif.sig", "application/vnd.verif.sbom+json", "application/vnd.good", "application/vnd.x&y"}}
	c.Specs = gen.Specs(t, o)
	d := gen.Build(c.Specs)
	ids := d.CanonIDs()
	n := rapid.IntRange(5, steps).Draw(t, "nOps")
	for i := 0; i < n; i++ {
		id := rapid.SampledFrom(ids).Draw(t, "n")
		var op Op
		switch r := rapid.IntRange(0, 99).Draw(t, "opRoll"); {
		case r < 28:
			op = Op{Op: "push", N: id, Reader: rapid.IntRange(0, 2).Draw(t, "reader"), Via: rapid.IntRange(0, 1).Draw(t, "via")}
		case r < 36:
			op = Op{Op: "pushref", N: id, Tag: rapid.SampledFrom(tagNames).Draw(t, "tag"), Reader: rapid.IntRange(0, 2).Draw(t, "reader")}
			if rapid.Bool().Draw(t, "pushrefSpelled") {
				op.Form = rapid.IntRange(0, 4).Draw(t, "pushrefForm")
			}
		case r < 46:
			op = Op{Op: "fetch", N: id, Via: rapid.IntRange(0, 1).Draw(t, "via")}
		case r < 54:
			op = Op{Op: "fetchref", N: id, Tag: rapid.SampledFrom(tagNames).Draw(t, "tag"), Form: rapid.IntRange(0, 4).Draw(t, "form")}
		case r < 60:
			op = Op{Op: "exists", N: id}
		case r < 68:
			op = Op{Op: "resolve", N: id, Tag: rapid.SampledFrom(tagNames).Draw(t, "tag"), Form: rapid.IntRange(0, 4).Draw(t, "form")}
		case r < 76:
			op = Op{Op: "tag", N: id, Tag: rapid.SampledFrom(tagNames).Draw(t, "tag")}
			if rapid.Bool().Draw(t, "tagSpelled") {
				op.Form = rapid.IntRange(0, 4).Draw(t, "tagForm")
			}
		case r < 83:
			op = Op{Op: "delete", N: id}
		case r < 88:
			op = Op{Op: "mount", N: id, Via: rapid.IntRange(0, 1).Draw(t, "getContent")}
		case r < 93:
			op = Op{Op: "referrers", N: id, AT: rapid.SampledFrom([]string{"", "", "application/vnd.verif.sig", "application/vnd.nomatch", "application/vnd.verif.sbom+json", "application/vnd.x&y"}).Draw(t, "at")}
		case r < 96:
			op = Op{Op: "tags", Tag: rapid.SampledFrom([]string{"", "latest", "m"}).Draw(t, "last")}
		default:
			op = Op{Op: "seek", N: id, Via: rapid.IntRange(0, 2).Draw(t, "seekVia")}
			k := rapid.IntRange(1, 8).Draw(t, "nSeek")
			for j := 0; j < k; j++ {
				if rapid.Bool().Draw(t, "isSeek") {
					op.Seek = append(op.Seek, SeekStep{IsSeek: true, Off: int64(rapid.IntRange(-3, 80).Draw(t, "off")), Whence: rapid.IntRange(0, 2).Draw(t, "whence"), Fault: rapid.IntRange(0, 4).Draw(t, "seekFault") == 0})
				} else {
					op.Seek = append(op.Seek, SeekStep{Read: rapid.IntRange(1, 40).Draw(t, "read")})
				}
			}
		}
		c.Ops = append(c.Ops, op)
	}
	return c
}

type oneShot struct{ r io.Reader }

func (o *oneShot) Read(p []byte) (int, error) { return o.r.Read(p) }

func mkReader(kind int, b []byte) io.Reader {
	switch kind {
	case 1:
		return &oneShot{bytes.NewReader(b)}
	case 2:
		return io.NopCloser(bytes.NewReader(b))
	}
	return bytes.NewReader(b)
}

type env struct {
	c    *Case
	d    *gen.DAG
	reg  *regmodel.Registry
	repo *remote.Repository
	// harness ground truth
	present map[int]bool
	tags    map[string]int
}

func newEnv(c *Case) (*env, *vt.Fail) {
	d := gen.Build(c.Specs)
	reg := regmodel.New(host, c.P)
	if c.PlainHTTP {
		reg.Scheme = "http"
	}
	reg.Repo(repoName)
	reg.Repo(sibling)
	repo, err := remote.NewRepository(host + "/" + repoName)
	if err != nil {
		return nil, vt.Failf("harness/newrepo", "%v", err)
	}
	repo.PlainHTTP = c.PlainHTTP
	if c.AuthClient {
		repo.Client = &auth.Client{Client: &http.Client{Transport: retry.NewTransport(reg)}}
	} else {
		repo.Client = &http.Client{Transport: reg}
	}
	repo.TagListPageSize = c.TagPage
	repo.ReferrerListPageSize = c.RefPage
	repo.SkipReferrersGC = c.SkipGC
	if c.CustomMT {
		repo.ManifestMediaTypes = []string{gen.MTImage, gen.MTIndex, gen.MTDocker, gen.MTDockerList, gen.MTArtifact}
	}
	return &env{c: c, d: d, reg: reg, repo: repo, present: map[int]bool{}, tags: map[string]int{}}, nil
}

func (e *env) isManifest(n *gen.Node) bool { return n.Spec.Kind != gen.KBlob }

func (e *env) refString(op Op, n *gen.Node) (string, bool) {
	// returns the reference spelling and whether it addresses by tag
	fq := host + "/" + repoName
	switch op.Form {
	case 0:
		return op.Tag, true
	case 1:
		return n.Desc.Digest.String(), false
	case 2:
		return op.Tag + "@" + n.Desc.Digest.String(), false
	case 3:
		return fq + ":" + op.Tag, true
	default:
		return fq + "@" + n.Desc.Digest.String(), false
	}
}

// modelHas reads the registry model directly.
func (e *env) modelHas(n *gen.Node) bool {
	e.reg.Lock()
	defer e.reg.Unlock()
	rp := e.reg.Repos[repoName]
	if e.isManifest(n) {
		return rp.Manifests[n.Desc.Digest.String()] != nil
	}
	_, ok := rp.Blobs[n.Desc.Digest.String()]
	return ok
}

func (e *env) checkConformance(when string) *vt.Fail {
	e.reg.Lock()
	defer e.reg.Unlock()
	if len(e.reg.Violations) > 0 {
		return vt.Failf("C13/request-not-spec-conformant", "%s: %s", when, strings.Join(e.reg.Violations, "; "))
	}
	return nil
}

// agree compares harness ground truth with the registry model state.
func (e *env) agree(when string) *vt.Fail {
	for _, id := range e.d.CanonIDs() {
		n := e.d.Nodes[id]
		if e.modelHas(n) != e.present[id] {
			return vt.Failf("C13/registry-state-diverged", "%s: registry model holds node %d (%s) = %v, the history of successful operations says %v", when, id, n.Spec.Kind, e.modelHas(n), e.present[id])
		}
	}
	e.reg.Lock()
	defer e.reg.Unlock()
	rp := e.reg.Repos[repoName]
	for t, id := range e.tags {
		if rp.Tags[t] != e.d.Nodes[id].Desc.Digest.String() {
			return vt.Failf("C13/registry-tag-diverged", "%s: registry tag %q -> %q, expected node %d %s", when, t, rp.Tags[t], id, e.d.Nodes[id].Desc.Digest)
		}
	}
	return nil
}

func runCase(c Case) (res vt.Result, fail *vt.Fail) {
	ctx := context.Background()
	e, f := newEnv(&c)
	if f != nil {
		return res, f
	}
	d := e.d
	cl := map[string]bool{}
	var subjPush, fetchTag, delOrMount, seekMoved bool
	for i, op := range c.Ops {
		n := d.Nodes[d.Nodes[op.N].Canon]
		when := fmt.Sprintf("step %d (%s n=%d %s tag=%q form=%d)", i, op.Op, op.N, n.Spec.Kind, op.Tag, op.Form)
		isMan := e.isManifest(n)
		switch op.Op {
		case "push", "pushref":
			if op.Op == "pushref" && !isMan {
				continue
			}
			var err error
			pushSpelling, pushByTag := e.refString(op, n)
			if op.Op == "pushref" {
				err = e.repo.PushReference(ctx, n.Desc, mkReader(op.Reader, n.Bytes), pushSpelling)
			} else if op.Via == 1 && isMan {
				err = e.repo.Manifests().Push(ctx, n.Desc, mkReader(op.Reader, n.Bytes))
			} else if op.Via == 1 {
				err = e.repo.Blobs().Push(ctx, n.Desc, mkReader(op.Reader, n.Bytes))
			} else {
				err = e.repo.Push(ctx, n.Desc, mkReader(op.Reader, n.Bytes))
			}
			if err != nil {
				var re *remote.ReferrersError
				if !(errors.As(err, &re) && re.IsReferrersIndexDelete()) {
					return res, vt.Failf("C13/push-failed", "%s: %v", when, err)
				}
			}
			e.present[n.ID] = true
			if op.Op == "pushref" && pushByTag {
				e.tags[op.Tag] = n.ID
			}
			if isMan {
				for _, ed := range n.Edges {
					if ed.Role == "subject" {
						subjPush = true
					}
				}
			}
		case "fetch":
			var rc io.ReadCloser
			var err error
			if op.Via == 1 && isMan {
				rc, err = e.repo.Manifests().Fetch(ctx, n.Desc)
			} else if op.Via == 1 {
				rc, err = e.repo.Blobs().Fetch(ctx, n.Desc)
			} else {
				rc, err = e.repo.Fetch(ctx, n.Desc)
			}
			if e.present[n.ID] {
				if err != nil {
					return res, vt.Failf("C13/fetch-failed", "%s: %v", when, err)
				}
				b, rerr := io.ReadAll(rc)
				rc.Close()
				if rerr != nil || !bytes.Equal(b, n.Bytes) {
					return res, vt.Failf("C13/fetch-bytes", "%s: got %d bytes (err %v), pushed %d", when, len(b), rerr, len(n.Bytes))
				}
			} else {
				if err == nil {
					rc.Close()
					return res, vt.Failf("C13/fetch-absent-succeeded", "%s", when)
				}
				if !errors.Is(err, errdef.ErrNotFound) {
					return res, vt.Failf("C13/fetch-absent-error-class", "%s: %v", when, err)
				}
			}
		case "fetchref", "resolve":
			ref, byTag := e.refString(op, n)
			wantID, ok := n.ID, e.present[n.ID] && isMan
			if byTag {
				wantID, ok = e.tags[op.Tag]
			}
			var got ocispec.Descriptor
			var err error
			var body []byte
			if op.Op == "resolve" {
				got, err = e.repo.Resolve(ctx, ref)
			} else {
				var rc io.ReadCloser
				got, rc, err = e.repo.FetchReference(ctx, ref)
				if err == nil {
					body, _ = io.ReadAll(rc)
					rc.Close()
				}
				if byTag {
					fetchTag = true
				}
			}
			if !isMan && !byTag {
				// a digest of a blob addressed through the manifest endpoint: not found
				ok = false
			}
			if !ok {
				if err == nil {
					return res, vt.Failf("C13/resolve-absent-succeeded", "%s: %q resolved to %s although nothing is there", when, ref, got.Digest)
				}
				if !errors.Is(err, errdef.ErrNotFound) {
					return res, vt.Failf("C13/resolve-absent-error-class", "%s: %q: %v", when, ref, err)
				}
				break
			}
			w := d.Nodes[wantID]
			headNoDigest := c.P.NoDigestHeader && byTag && op.Op == "resolve"
			if err != nil {
				if headNoDigest {
					// HEAD by tag without Docker-Content-Digest: the client cannot know
					// the digest; an error is an admissible answer
					cl["head-by-tag-without-digest-header"] = true
					break
				}
				return res, vt.Failf("C13/resolve-failed", "%s: %q: %v", when, ref, err)
			}
			if got.Digest != w.Desc.Digest || got.Size != w.Desc.Size || got.MediaType != w.Desc.MediaType {
				return res, vt.Failf("C13/resolve-wrong-descriptor", "%s: %q = %s, expected node %d %s", when, ref, gen.TripleKey(got), wantID, gen.TripleKey(w.Desc))
			}
			if op.Op == "fetchref" && !bytes.Equal(body, w.Bytes) {
				return res, vt.Failf("C13/fetchref-bytes", "%s: %q returned %d bytes, expected %d", when, ref, len(body), len(w.Bytes))
			}
		case "exists":
			ok, err := e.repo.Exists(ctx, n.Desc)
			if err != nil {
				return res, vt.Failf("C13/exists-error", "%s: %v", when, err)
			}
			if ok != e.present[n.ID] {
				return res, vt.Failf("C13/exists-mismatch", "%s: Exists = %v, registry holds it = %v", when, ok, e.present[n.ID])
			}
		case "tag":
			if !isMan {
				continue
			}
			spelling, byTag := e.refString(op, n)
			err := e.repo.Tag(ctx, n.Desc, spelling)
			if e.present[n.ID] {
				if err != nil {
					return res, vt.Failf("C13/tag-failed", "%s: %v", when, err)
				}
				if byTag {
					e.tags[op.Tag] = n.ID
				}
			} else if err == nil {
				return res, vt.Failf("C13/tag-absent-succeeded", "%s", when)
			}
		case "delete":
			err := e.repo.Delete(ctx, n.Desc)
			if e.present[n.ID] {
				if err != nil {
					var re *remote.ReferrersError
					if !(errors.As(err, &re) && re.IsReferrersIndexDelete()) {
						return res, vt.Failf("C13/delete-failed", "%s: %v", when, err)
					}
				}
				delete(e.present, n.ID)
				for t, id := range e.tags {
					if id == n.ID {
						delete(e.tags, t)
					}
				}
				delOrMount = true
			} else if err == nil {
				return res, vt.Failf("C13/delete-absent-succeeded", "%s", when)
			} else if !errors.Is(err, errdef.ErrNotFound) {
				return res, vt.Failf("C13/delete-absent-error-class", "%s: %v", when, err)
			}
		case "mount":
			if isMan || e.present[n.ID] {
				continue
			}
			// the sibling repository holds the blob
			e.reg.Lock()
			e.reg.Repo(sibling).Blobs[n.Desc.Digest.String()] = n.Bytes
			e.reg.Unlock()
			var getContent func() (io.ReadCloser, error)
			if op.Via == 1 {
				getContent = func() (io.ReadCloser, error) { return io.NopCloser(bytes.NewReader(n.Bytes)), nil }
			}
			if err := e.repo.Mount(ctx, n.Desc, sibling, getContent); err != nil {
				return res, vt.Failf("C13/mount-failed", "%s: %v", when, err)
			}
			e.present[n.ID] = true
			delOrMount = true
			cl["mount"] = true
		case "referrers":
			if !isMan {
				continue
			}
			var got []string
			err := e.repo.Referrers(ctx, n.Desc, op.AT, func(rs []ocispec.Descriptor) error {
				for _, r := range rs {
					got = append(got, r.Digest.String()+"|"+r.ArtifactType)
				}
				return nil
			})
			if err != nil {
				return res, vt.Failf("C13/referrers-failed", "%s: %v", when, err)
			}
			var want []string
			for _, id := range d.CanonIDs() {
				p := d.Nodes[id]
				if !e.present[id] || !e.isManifest(p) || p.Spec.Kind == gen.KDocker || p.Spec.Kind == gen.KDockerList {
					continue
				}
				for _, ed := range p.Edges {
					if ed.Role == "subject" && ed.To == n.ID {
						at := p.EffectiveArtifactType(d)
						if op.AT == "" || op.AT == at {
							want = append(want, p.Desc.Digest.String()+"|"+at)
						}
					}
				}
			}
			sort.Strings(got)
			sort.Strings(want)
			if fmt.Sprint(got) != fmt.Sprint(want) {
				return res, vt.Failf("C13/referrers-mismatch", "%s (artifactType %q): got %v, the registry holds %v", when, op.AT, short(got), short(want))
			}
			cl["referrers"] = true
		case "tags":
			var got []string
			if err := e.repo.Tags(ctx, op.Tag, func(ts []string) error { got = append(got, ts...); return nil }); err != nil {
				return res, vt.Failf("C13/tags-failed", "%s: %v", when, err)
			}
			var want []string
			e.reg.Lock()
			for t := range e.reg.Repos[repoName].Tags {
				if op.Tag == "" || t > op.Tag {
					want = append(want, t)
				}
			}
			e.reg.Unlock()
			sort.Strings(want)
			if fmt.Sprint(got) != fmt.Sprint(want) {
				return res, vt.Failf("C13/tags-mismatch", "%s: Tags(%q) = %v, registry holds %v", when, op.Tag, got, want)
			}
		case "seek":
			if isMan || !e.present[n.ID] {
				continue
			}
			moved, f := e.seekScript(ctx, n, op.Seek, op.Via, when)
			if f != nil {
				return res, f
			}
			if moved {
				seekMoved = true
			}
		}
		if f := e.checkConformance(when); f != nil {
			return res, f
		}
		if f := e.agree(when); f != nil {
			return res, f
		}
	}
	res.NonTrivial = subjPush && fetchTag && delOrMount
	if seekMoved {
		cl["seek-moved-position"] = true
	}
	if c.P.ReferrersAPI {
		cl["profile-referrers-api"] = true
	} else {
		cl["profile-tag-schema"] = true
	}
	if c.AuthClient {
		cl["auth-client-over-retry"] = true
	}
	for k := range cl {
		res.Classes = append(res.Classes, k)
	}
	sort.Strings(res.Classes)
	return res, nil
}

// seekScript runs a Read/Seek script on a fetched blob and on a bytes.Reader.
func (e *env) seekScript(ctx context.Context, n *gen.Node, steps []SeekStep, via int, when string) (moved bool, f *vt.Fail) {
	var rc io.ReadCloser
	var err error
	switch via {
	case 1:
		rc, err = e.repo.Blobs().Fetch(ctx, n.Desc)
	case 2:
		// by reference (the digest string): the size comes from the registry's answer
		var got ocispec.Descriptor
		got, rc, err = e.repo.Blobs().FetchReference(ctx, n.Desc.Digest.String())
		if err == nil && (got.Digest != n.Desc.Digest || got.Size != n.Desc.Size) {
			rc.Close()
			return false, vt.Failf("C13/fetchreference-descriptor", "%s: Blobs().FetchReference(%s) returned descriptor %s size %d, the blob has size %d", when, n.Desc.Digest, got.Digest, got.Size, n.Desc.Size)
		}
	default:
		rc, err = e.repo.Fetch(ctx, n.Desc)
	}
	if err != nil {
		return false, vt.Failf("C13/fetch-failed", "%s: %v", when, err)
	}
	defer rc.Close()
	rs, ok := rc.(io.ReadSeeker)
	if !ok {
		if e.c.P.AcceptRanges {
			return false, vt.Failf("C13/not-seekable", "%s: the registry announces Accept-Ranges but the blob reader is not an io.Seeker", when)
		}
		return false, nil
	}
	ref := bytes.NewReader(n.Bytes)
	for j, st := range steps {
		if st.IsSeek && st.Fault {
			// a transient failure of the range request, then the caller's retry
			var mu sync.Mutex
			armed, hit := true, false
			e.reg.Lock()
			e.reg.Pre = func(req *http.Request, rec *regmodel.ReqRecord) (*http.Response, error) {
				mu.Lock()
				defer mu.Unlock()
				if armed && req.Header.Get("Range") != "" {
					armed, hit = false, true
					return regmodel.Response(req, 400, http.Header{"Content-Type": []string{"application/json"}}, []byte(`{"errors":[{"code":"UNAVAILABLE"}]}`), false, rec.BodyRead), nil
				}
				return nil, nil
			}
			e.reg.Unlock()
			before, _ := ref.Seek(0, io.SeekCurrent)
			want, werr := ref.Seek(st.Off, st.Whence)
			ref.Seek(before, io.SeekStart)
			_, e1 := rs.Seek(st.Off, st.Whence)
			mu.Lock()
			armed = false
			wasHit := hit
			mu.Unlock()
			e.reg.Lock()
			e.reg.Pre = nil
			e.reg.Unlock()
			if wasHit {
				if e1 == nil {
					return moved, vt.Failf("C13/seek-fault-swallowed", "%s: step %d Seek(%d,%d): the range request was answered 400 but Seek reported success", when, j, st.Off, st.Whence)
				}
				if werr != nil {
					continue
				}
				// the retry: an absolute Seek to the same position must now succeed
				// and the reader must really be there
				p1, e1 := rs.Seek(want, io.SeekStart)
				ref.Seek(want, io.SeekStart)
				if e1 != nil || p1 != want {
					return moved, vt.Failf("C13/seek-retry-failed", "%s: step %d retry Seek(%d, start) after a failed range request = %d, %v", when, j, want, p1, e1)
				}
				moved = true
				probe := make([]byte, 5)
				probe2 := make([]byte, 5)
				n1, _ := io.ReadFull(rs, probe)
				n2, _ := io.ReadFull(ref, probe2)
				if n1 != n2 || !bytes.Equal(probe[:n1], probe2[:n2]) {
					return moved, vt.Failf("C13/seek-read-differs", "%s: step %d after a failed Seek and its retry to offset %d the reader delivers %q, the blob has %q there", when, j, want, probe[:n1], probe2[:n2])
				}
				cur1, _ := rs.Seek(0, io.SeekCurrent)
				cur2, _ := ref.Seek(0, io.SeekCurrent)
				if cur1 != cur2 {
					return moved, vt.Failf("C13/seek-position", "%s: step %d position after retry and read: %d, expected %d", when, j, cur1, cur2)
				}
				continue
			}
			// no range request was needed: judged like an ordinary Seek
			p2, e2 := ref.Seek(st.Off, st.Whence)
			if (e1 == nil) != (e2 == nil) {
				return moved, vt.Failf("C13/seek-error-differs", "%s: step %d Seek(%d,%d): blob reader err=%v, bytes.Reader err=%v", when, j, st.Off, st.Whence, e1, e2)
			}
			if e1 == nil {
				if cur, _ := rs.Seek(0, io.SeekCurrent); cur != p2 {
					return moved, vt.Failf("C13/seek-position", "%s: step %d Seek(%d,%d): position %d, bytes.Reader gives %d", when, j, st.Off, st.Whence, cur, p2)
				}
			}
			continue
		}
		if st.IsSeek {
			p1, e1 := rs.Seek(st.Off, st.Whence)
			p2, e2 := ref.Seek(st.Off, st.Whence)
			if (e1 == nil) != (e2 == nil) {
				return moved, vt.Failf("C13/seek-error-differs", "%s: step %d Seek(%d,%d): blob reader err=%v, bytes.Reader err=%v", when, j, st.Off, st.Whence, e1, e2)
			}
			if e1 == nil && p1 != p2 {
				return moved, vt.Failf("C13/seek-position", "%s: step %d Seek(%d,%d) = %d, bytes.Reader gives %d", when, j, st.Off, st.Whence, p1, p2)
			}
			if e1 == nil {
				moved = true
			}
			continue
		}
		b1 := make([]byte, st.Read)
		b2 := make([]byte, st.Read)
		n1, e1 := io.ReadFull(rs, b1)
		n2, e2 := io.ReadFull(ref, b2)
		if n1 != n2 || !bytes.Equal(b1[:n1], b2[:n2]) || (e1 == nil) != (e2 == nil) {
			return moved, vt.Failf("C13/seek-read-differs", "%s: step %d Read(%d): blob reader %d bytes err=%v, bytes.Reader %d bytes err=%v", when, j, st.Read, n1, e1, n2, e2)
		}
	}
	return moved, nil
}

func short(xs []string) []string {
	var out []string
	for _, x := range xs {
		if len(x) > 30 {
			x = x[:19] + "…" + x[strings.LastIndexByte(x, '|'):]
		}
		out = append(out, x)
	}
	return out
}

var _ = content.Equal

func TestMain(m *testing.M) {
	vt.Main(m, "C13",
		vt.NewLeg("main", 700, 2500, 16, genCase, runCase),
		vt.NewLeg("corrupt", 1500, 6000, 8, genCorrupt, runCorrupt),
	)
}

func TestLegs(t *testing.T)   { vt.TestLegs(t) }
func TestReplay(t *testing.T) { vt.TestReplay(t) }
