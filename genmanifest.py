#!/usr/bin/env python3
"""Regenerates MANIFEST.json from checks.json (single source of truth for the
per-property metadata that the driver also puts into evidence files)."""
import json, os
ROOT = os.path.dirname(os.path.abspath(__file__))
checks = json.load(open(os.path.join(ROOT, "checks.json")))
props = [json.loads(l) for l in open(os.path.join(ROOT, "properties.jsonl"))]
na_reasons = {}
p = os.path.join(ROOT, "not_applicable.json")
if os.path.exists(p):
    na_reasons = json.load(open(p))
out = {
    "version": 1,
    "setup_cmd": "./setup.sh",
    "hooks": {
        "guard": "verif",
        "enable": "no source hooks: the harness is a separate Go module (harness/) with `replace oras.land/oras-go/v2 => /repo`, so every check recompiles /repo's working tree; nothing in /repo carries the build tag",
        "baseline_off_cmd": "cd /repo && GOFLAGS=-mod=mod GOPROXY=off GOSUMDB=off go test -json -vet=off -count=1 -timeout 25m ./...",
        "source_commits": [],
        "add_only": True,
    },
    "engines": [
        {"name": "harness", "path": "harness/", "serves_properties": sorted(checks.keys()),
         "kind_free_text": "Go module: rapid v1.3.0 property tests, exhaustive enumerators, strace-driven crash injection, native go fuzz targets; driven by ./check"}
    ],
    "checks": [],
    "not_applicable": [],
    "notes": "Property-based testing and fuzzing only. ./check <ID> [--tier quick|thorough] [--replay F]. Exit 0 held / 1 VIOLATION / 2 infrastructure. Genuine defects repaired in /repo as 'fix:' commits and known findings are listed in KNOWN_FINDINGS.txt; see DESIGN.md.",
}
for pr in props:
    pid = pr["id"]
    if pid in checks:
        c = checks[pid]
        out["checks"].append({
            "property_id": pid,
            "quick_cmd": "./check %s --tier quick" % pid,
            "thorough_cmd": "./check %s --tier thorough" % pid,
            "evidence_file": "/verif/evidence/%s.json" % pid,
            "replay_cmd_template": "./check %s --replay {path}" % pid,
            "engine": "harness",
            "level_claimed": {"category": c["level"], "text": c["level_text"], "design_ref": c.get("design_ref", "DESIGN.md")},
            "level_note": c["level_note"],
            "technique": c["technique"],
        })
    else:
        out["not_applicable"].append({"property_id": pid, "reason": na_reasons.get(pid, "check not built yet in this revision of /verif (work in progress; the technique applies, see DESIGN.md)")})
json.dump(out, open(os.path.join(ROOT, "MANIFEST.json"), "w"), indent=1)
print("MANIFEST.json:", len(out["checks"]), "checks,", len(out["not_applicable"]), "not applicable")
