package c09

import (
	"context"
	"fmt"
	"os"
	"path/filepath"
	"sync"
	"time"

	"oras.land/oras-go/v2/content/oci"
	"pgregory.net/rapid"

	"verif/harness/gen"
	"verif/harness/vt"
)

// Leg "gcrace" (OCI layout): GC runs while other goroutines push and tag new images.
// Whatever the order of GC and the pushes, an image manifest whose Push and Tag both
// returned nil is in the store afterwards, under its tag - GC may only remove what no
// tag reaches (blobs pushed before their manifest are fair game for a GC in between). The store
// holds a few dozen unreferenced sha256 blobs, so the sweep has something to do, and
// the new images are sha512-addressed (their directory is swept after blobs/sha256).
// Leg "gcbig": a tagged index over many child manifests / a long subject chain,
// then GC, which has to return.

type GCRaceCase struct {
	Fillers int  `json:"fillers"`
	Pushers int  `json:"pushers"`
	Alg512  bool `json:"alg512"`
	// Big (> 0): no race; a tagged index with Big child manifests and a referrer
	// chain of Chain manifests on top of it, then GC
	Big   int `json:"big,omitempty"`
	Chain int `json:"chain,omitempty"`
}

func genGCRace(t *rapid.T) GCRaceCase {
	if rapid.IntRange(0, 3).Draw(t, "big") == 2 {
		return GCRaceCase{Big: rapid.IntRange(10, 40).Draw(t, "children"), Chain: rapid.IntRange(0, 24).Draw(t, "chain")}
	}
	return GCRaceCase{Fillers: rapid.IntRange(20, 300).Draw(t, "fillers"), Pushers: rapid.IntRange(1, 4).Draw(t, "pushers"), Alg512: rapid.IntRange(0, 3).Draw(t, "alg") != 1}
}

func runGCRace(c GCRaceCase) (res vt.Result, fail *vt.Fail) {
	ctx := context.Background()
	root := vt.Scratch("c09gr-")
	defer os.RemoveAll(root)
	s, err := oci.New(filepath.Join(root, "l"))
	if err != nil {
		return res, vt.Failf("harness/oci", "%v", err)
	}
	res.NonTrivial = true
	if c.Big > 0 {
		return runGCBig(ctx, s, filepath.Join(root, "l"), c, res)
	}
	alg := ""
	if c.Alg512 {
		alg = "sha512"
	}
	var specs []gen.NodeSpec
	for i := 0; i < c.Fillers; i++ {
		sp := gen.NodeSpec{Kind: gen.KBlob, Seed: 900 + i, Size: 40 + i, MT: "application/octet-stream"}
		if i == 0 {
			sp.Alg = "sha512" // (the directory of the later algorithm exists before GC starts)
		}
		specs = append(specs, sp)
	}
	first := len(specs)
	for g := 0; g < c.Pushers; g++ {
		cfg := len(specs)
		specs = append(specs, gen.NodeSpec{Kind: gen.KBlob, Seed: 990 + g, Size: 11 + g, MT: "application/vnd.oci.image.config.v1+json", Alg: alg})
		specs = append(specs, gen.NodeSpec{Kind: gen.KBlob, Seed: 995 + g, Size: 23 + g, MT: "application/vnd.oci.image.layer.v1.tar", Alg: alg})
		specs = append(specs, gen.NodeSpec{Kind: gen.KImage, Config: &gen.Ref{N: cfg}, Layers: []gen.Ref{{N: cfg + 1}}, Alg: alg, Ann: map[string]string{"pusher": fmt.Sprint(g)}})
	}
	d := gen.Build(specs)
	for i := 0; i < c.Fillers; i++ {
		if err := gen.PushNode(ctx, s, d.Nodes[i]); err != nil {
			return res, vt.Failf("harness/push", "%v", err)
		}
	}
	res.Classes = []string{fmt.Sprintf("pushers-%d", c.Pushers), fmt.Sprintf("sha512-%v", c.Alg512)}
	var wg sync.WaitGroup
	start := make(chan struct{})
	var gcErr error
	pushErr := make([]error, c.Pushers)
	wg.Add(1)
	go func() {
		defer wg.Done()
		<-start
		gcErr = s.GC(ctx)
	}()
	for g := 0; g < c.Pushers; g++ {
		wg.Add(1)
		go func(g int) {
			defer wg.Done()
			<-start
			// spread the pushers over the first milliseconds of the GC
			time.Sleep(time.Duration(g*g) * time.Duration(100+c.Fillers) * time.Microsecond)
			for _, id := range []int{first + 3*g, first + 3*g + 1, first + 3*g + 2} {
				if err := gen.PushNode(ctx, s, d.Nodes[id]); err != nil {
					pushErr[g] = err
					return
				}
			}
			pushErr[g] = s.Tag(ctx, d.Nodes[first+3*g+2].Desc, fmt.Sprintf("img-%d", g))
		}(g)
	}
	fin, dump := vt.Watch(watchdog, func() { close(start); wg.Wait() })
	if !fin {
		vt.ReportHang("gcrace", vt.MustJSON(c), vt.Failf("C09/gc-hang", "GC with concurrent pushes did not return"), dump)
	}
	if gcErr != nil {
		return res, vt.Failf("C09/gc-failed", "GC (with %d concurrent pushers): %v", c.Pushers, gcErr)
	}
	for g := 0; g < c.Pushers; g++ {
		if pushErr[g] != nil {
			// a blob pushed before the manifest that will link to it may be swept by a
			// GC that runs in between; the push of the manifest is then free to fail
			res.Classes = append(res.Classes, "pusher-lost-to-gc")
			continue
		}
		// (the image's config and layer were pushed before the manifest that links
		// to them: a GC that ran in between swept them, and rightly so - only the
		// manifest, which was tagged after it was pushed, is certain)
		for _, id := range []int{first + 3*g + 2} {
			n := d.Nodes[id]
			if _, err := gen.ReadBack(ctx, s, n.Desc); err != nil {
				return res, vt.Failf("C09/gc-removed-reachable-node", "image %d was pushed and tagged (both returned nil) while GC ran; afterwards node %d (%s %s) cannot be fetched: %v", g, id, n.Spec.Kind, n.Desc.Digest.Algorithm(), err)
			}
		}
		got, err := s.Resolve(ctx, fmt.Sprintf("img-%d", g))
		if err != nil || got.Digest != d.Nodes[first+3*g+2].Desc.Digest {
			return res, vt.Failf("C09/surviving-node-lost-tag", "tag img-%d set while GC ran: Resolve = %s, %v", g, got.Digest, err)
		}
	}
	return res, nil
}

func runGCBig(ctx context.Context, s *oci.Store, dir string, c GCRaceCase, res vt.Result) (vt.Result, *vt.Fail) {
	specs := []gen.NodeSpec{{Kind: gen.KBlob, Seed: 1, Size: 9, MT: "application/vnd.oci.image.config.v1+json"}}
	var kids []gen.Ref
	for i := 0; i < c.Big; i++ {
		specs = append(specs, gen.NodeSpec{Kind: gen.KBlob, Seed: 100 + i, Size: 10 + i, MT: "application/vnd.oci.image.layer.v1.tar"})
		specs = append(specs, gen.NodeSpec{Kind: gen.KImage, Config: &gen.Ref{N: 0}, Layers: []gen.Ref{{N: len(specs) - 1}}})
		kids = append(kids, gen.Ref{N: len(specs) - 1})
	}
	specs = append(specs, gen.NodeSpec{Kind: gen.KIndex, Layers: kids})
	idx := len(specs) - 1
	subj := idx
	for i := 0; i < c.Chain; i++ {
		specs = append(specs, gen.NodeSpec{Kind: gen.KImage, Config: &gen.Ref{N: 0}, Subject: &gen.Ref{N: subj}, ArtifactType: "application/vnd.verif.sig", Ann: map[string]string{"depth": fmt.Sprint(i)}})
		subj = len(specs) - 1
	}
	d := gen.Build(specs)
	for _, n := range d.Nodes {
		if err := gen.PushNode(ctx, s, n); err != nil {
			return res, vt.Failf("harness/push", "%v", err)
		}
	}
	if err := s.Tag(ctx, d.Nodes[idx].Desc, "big"); err != nil {
		return res, vt.Failf("harness/tag", "%v", err)
	}
	res.Classes = []string{fmt.Sprintf("children>=15:%v", c.Big >= 15), fmt.Sprintf("chain>=16:%v", c.Chain >= 16)}
	for round := 0; round < 2; round++ {
		var gerr error
		fin, dump := vt.Watch(watchdog, func() { gerr = s.GC(ctx) })
		if !fin {
			vt.ReportHang("gcrace", vt.MustJSON(c), vt.Failf("C09/gc-hang", "GC of a tagged index with %d child manifests and a referrer chain of %d did not return", c.Big, c.Chain), dump)
		}
		if gerr != nil {
			return res, vt.Failf("C09/gc-failed", "GC: %v", gerr)
		}
		for _, n := range d.Nodes {
			if _, err := gen.ReadBack(ctx, s, n.Desc); err != nil {
				return res, vt.Failf("C09/gc-removed-reachable-node", "GC %d removed node %d (%s), which the tagged index or its referrer chain reaches: %v", round, n.ID, n.Spec.Kind, err)
			}
		}
	}
	// a reopened store rebuilds the same index
	var re *oci.Store
	var rerr error
	fin, dump := vt.Watch(watchdog, func() { re, rerr = oci.New(dir) })
	_ = re
	if !fin {
		vt.ReportHang("gcrace", vt.MustJSON(c), vt.Failf("C09/gc-hang", "reopening the layout did not return"), dump)
	}
	if rerr != nil {
		return res, vt.Failf("C09/reopen-failed", "%v", rerr)
	}
	return res, nil
}
