#!/bin/bash
# usage: sweepsel.sh <tier> "<ids>" <seed>...   -- like sweep.sh for selected checks
tier=$1; ids=$2; shift 2
for seed in "$@"; do
  for id in $ids; do
    out=$(VERIF_SEED=$seed ./check $id --tier $tier 2>&1); rc=$?
    line=$(echo "$out" | grep -E "^C[0-9]+ tier" | tail -1)
    echo "seed=$seed $id rc=$rc $line"
    if [ $rc -ne 0 ]; then echo "$out" | grep -E "VIOLATION|INFRA|  leg" | cut -c1-400; fi
  done
done
