package c09

import (
	"context"
	"errors"
	"fmt"
	"os"
	"path/filepath"

	"oras.land/oras-go/v2/content/oci"
	"oras.land/oras-go/v2/errdef"
	"pgregory.net/rapid"

	"verif/harness/fsx"
	"verif/harness/gen"
	"verif/harness/vt"
)

// Leg "delfault" (OCI layout, AutoGC on): Delete of a tagged manifest whose
// cascade hits a file-system fault on one of the blobs it collects (a non-empty
// directory sits where that blob file was, so the unlink fails). Delete reports the
// fault; what it did before the fault still has to be coherent: the manifest is
// gone together with its tags - in the live store and in the layout as a reopened
// store reads it - and the layout stays valid. A repeated Delete changes nothing.

type DelFaultCase struct {
	Layers   int  `json:"layers"`   // layer blobs of the manifest
	Tags     int  `json:"tags"`     // tags on the manifest
	Referrer bool `json:"referrer"` // an untagged referrer (with a blob of its own) names the manifest
	FaultAt  int  `json:"faultAt"`  // which collected blob is obstructed
	Retry    bool `json:"retry"`    // Delete is called again after the fault is gone
	Other    bool `json:"other"`    // another tagged manifest shares the config
}

func genDelFault(t *rapid.T) DelFaultCase {
	return DelFaultCase{Layers: rapid.IntRange(1, 4).Draw(t, "layers"), Tags: rapid.IntRange(1, 3).Draw(t, "tags"), Referrer: rapid.Bool().Draw(t, "referrer"),
		FaultAt: rapid.IntRange(0, 5).Draw(t, "faultAt"), Retry: rapid.Bool().Draw(t, "retry"), Other: rapid.Bool().Draw(t, "other")}
}

func runDelFault(c DelFaultCase) (res vt.Result, fail *vt.Fail) {
	ctx := context.Background()
	root := vt.Scratch("c09df-")
	defer os.RemoveAll(root)
	dir := filepath.Join(root, "l")
	s, err := oci.New(dir)
	if err != nil {
		return res, vt.Failf("harness/oci", "%v", err)
	}
	s.AutoGC = true
	specs := []gen.NodeSpec{{Kind: gen.KBlob, Seed: 1, Size: 9, MT: "application/vnd.oci.image.config.v1+json"}}
	var layers []gen.Ref
	for i := 0; i < c.Layers; i++ {
		specs = append(specs, gen.NodeSpec{Kind: gen.KBlob, Seed: 10 + i, Size: 12 + i, MT: "application/vnd.oci.image.layer.v1.tar"})
		layers = append(layers, gen.Ref{N: 1 + i})
	}
	mID := len(specs)
	specs = append(specs, gen.NodeSpec{Kind: gen.KImage, Config: &gen.Ref{N: 0}, Layers: layers})
	collected := append([]int(nil), func() []int {
		var ids []int
		for i := 0; i < c.Layers; i++ {
			ids = append(ids, 1+i)
		}
		return ids
	}()...)
	if c.Referrer {
		specs = append(specs, gen.NodeSpec{Kind: gen.KBlob, Seed: 40, Size: 7, MT: "application/octet-stream"})
		specs = append(specs, gen.NodeSpec{Kind: gen.KImage, Config: &gen.Ref{N: 0}, Layers: []gen.Ref{{N: len(specs) - 1}}, Subject: &gen.Ref{N: mID}, ArtifactType: "application/vnd.verif.sig"})
		collected = append(collected, len(specs)-2)
	}
	otherID := -1
	if c.Other {
		otherID = len(specs)
		specs = append(specs, gen.NodeSpec{Kind: gen.KImage, Config: &gen.Ref{N: 0}, Ann: map[string]string{"other": "1"}})
	} else {
		collected = append(collected, 0) // the config loses its last predecessor too
	}
	d := gen.Build(specs)
	for _, n := range d.Nodes {
		if err := gen.PushNode(ctx, s, n); err != nil {
			return res, vt.Failf("harness/push", "%v", err)
		}
	}
	m := d.Nodes[mID]
	var refs []string
	for i := 0; i < c.Tags; i++ {
		refs = append(refs, fmt.Sprintf("t%d", i))
		if err := s.Tag(ctx, m.Desc, refs[i]); err != nil {
			return res, vt.Failf("harness/tag", "%v", err)
		}
	}
	if otherID >= 0 {
		if err := s.Tag(ctx, d.Nodes[otherID].Desc, "other"); err != nil {
			return res, vt.Failf("harness/tag", "%v", err)
		}
	}
	// the fault: one blob the cascade will collect cannot be unlinked
	victim := d.Nodes[collected[c.FaultAt%len(collected)]]
	vpath := filepath.Join(dir, "blobs", victim.Desc.Digest.Algorithm().String(), victim.Desc.Digest.Encoded())
	if err := os.Remove(vpath); err != nil {
		return res, vt.Failf("harness/obstruct", "%v", err)
	}
	if err := os.MkdirAll(filepath.Join(vpath, "x"), 0o755); err != nil {
		return res, vt.Failf("harness/obstruct", "%v", err)
	}
	derr := s.Delete(ctx, m.Desc)
	os.RemoveAll(vpath)
	res.NonTrivial = true
	res.Classes = []string{fmt.Sprintf("layers-%d", c.Layers), fmt.Sprintf("referrer-%v", c.Referrer), fmt.Sprintf("retry-%v", c.Retry)}
	if derr != nil {
		res.Classes = append(res.Classes, "delete-reported-the-fault")
	} else {
		res.Classes = append(res.Classes, "delete-returned-nil")
	}
	if c.Retry {
		if err := s.Delete(ctx, m.Desc); err != nil && !errors.Is(err, errdef.ErrNotFound) {
			return res, vt.Failf("C09/delete-retry-result", "the repeated Delete returned %v (expected nil or not-found)", err)
		}
	}
	check := func(name string, st *oci.Store) *vt.Fail {
		if ok, err := st.Exists(ctx, m.Desc); err != nil || ok {
			return vt.Failf("C09/delete-left-target", "(%s) after Delete (result: %v) the manifest still exists (Exists=%v/%v)", name, derr, ok, err)
		}
		for _, ref := range refs {
			got, rerr := st.Resolve(ctx, ref)
			if rerr == nil {
				ok, _ := st.Exists(ctx, got)
				return vt.Failf("C09/tag-points-at-deleted-content", "(%s) after Delete (result: %v) of the manifest, its tag %q still resolves to %s (content exists: %v)", name, derr, ref, got.Digest, ok)
			}
			if !errors.Is(rerr, errdef.ErrNotFound) {
				return vt.Failf("C09/resolve-error", "(%s) Resolve(%s): %v", name, ref, rerr)
			}
		}
		if otherID >= 0 {
			o := d.Nodes[otherID]
			got, rerr := st.Resolve(ctx, "other")
			if rerr != nil || got.Digest != o.Desc.Digest {
				return vt.Failf("C09/tag-removed", "(%s) the tag of another manifest is gone or moved: %v %v", name, got.Digest, rerr)
			}
			for _, id := range []int{otherID, 0} {
				if _, err := gen.ReadBack(ctx, st, d.Nodes[id].Desc); err != nil {
					return vt.Failf("C09/reachable-removed", "(%s) node %d, reachable from the tagged manifest \"other\", cannot be fetched: %v", name, id, err)
				}
			}
		}
		return nil
	}
	if f := check("live", s); f != nil {
		return res, f
	}
	if probs := fsx.ValidateLayout(dir, false); len(probs) > 0 {
		return res, vt.Failf("C09/layout-invalid/"+probs[0].Kind, "after the faulted Delete: %v", probs)
	}
	re, err := oci.New(dir)
	if err != nil {
		return res, vt.Failf("C09/reopen-failed", "%v", err)
	}
	if f := check("reopened", re); f != nil {
		return res, f
	}
	return res, nil
}
