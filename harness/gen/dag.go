// Package gen holds the shared generators. Every generator draws from rapid only and
// produces a plain JSON-serialisable spec; Build turns a spec into real bytes.
package gen

import (
	_ "crypto/sha256"
	_ "crypto/sha512"
	"encoding/json"
	"fmt"
	"sort"

	"github.com/opencontainers/go-digest"
	ocispec "github.com/opencontainers/image-spec/specs-go/v1"
	"pgregory.net/rapid"
)

// Media types (written out here; the harness does not import oras-go internals).
const (
	MTOctet        = "application/octet-stream"
	MTLayer        = "application/vnd.oci.image.layer.v1.tar"
	MTLayerGzip    = "application/vnd.oci.image.layer.v1.tar+gzip"
	MTConfig       = "application/vnd.oci.image.config.v1+json"
	MTDockerConfig = "application/vnd.docker.container.image.v1+json"
	MTCustom       = "application/vnd.verif.blob"
	MTEmptyJSON    = "application/vnd.oci.empty.v1+json"

	MTForeignDocker = "application/vnd.docker.image.rootfs.foreign.diff.tar.gzip"
	MTForeignOCI    = "application/vnd.oci.image.layer.nondistributable.v1.tar"
	MTForeignGzip   = "application/vnd.oci.image.layer.nondistributable.v1.tar+gzip"
	MTForeignZstd   = "application/vnd.oci.image.layer.nondistributable.v1.tar+zstd"

	MTImage      = "application/vnd.oci.image.manifest.v1+json"
	MTIndex      = "application/vnd.oci.image.index.v1+json"
	MTDocker     = "application/vnd.docker.distribution.manifest.v2+json"
	MTDockerList = "application/vnd.docker.distribution.manifest.list.v2+json"
	MTArtifact   = "application/vnd.oci.artifact.manifest.v1+json"
)

var blobMTs = []string{MTOctet, MTLayer, MTLayerGzip, MTConfig, MTDockerConfig, MTCustom}
var foreignMTs = []string{MTForeignDocker, MTForeignOCI, MTForeignGzip, MTForeignZstd}

// IsForeignMT is the harness's own notion of a foreign layer media type.
func IsForeignMT(mt string) bool {
	for _, f := range foreignMTs {
		if f == mt {
			return true
		}
	}
	return false
}

// IsManifestMT is the harness's own notion of a manifest media type.
func IsManifestMT(mt string) bool {
	switch mt {
	case MTImage, MTIndex, MTDocker, MTDockerList, MTArtifact:
		return true
	}
	return false
}

// Kinds of node.
const (
	KBlob       = "blob"
	KImage      = "image"
	KDocker     = "docker"
	KIndex      = "index"
	KDockerList = "dockerlist"
	KArtifact   = "artifact"
)

// Ref is an edge from a manifest to an earlier node.
type Ref struct {
	N int `json:"n"`
	// Ann are annotations on the embedding descriptor.
	Ann map[string]string `json:"ann,omitempty"`
	// Plat is a platform on the embedding descriptor (index children).
	Plat *ocispec.Platform `json:"plat,omitempty"`
	// EmbAT puts the child's artifact type on the embedding descriptor.
	EmbAT bool `json:"embAT,omitempty"`
	// URLs: the embedding descriptor carries a urls field (foreign layers)
	URLs bool `json:"urls,omitempty"`
}

// NodeSpec describes one node. Children always refer to earlier nodes, so a spec
// list is acyclic by construction.
type NodeSpec struct {
	Kind string `json:"kind"`
	// blobs
	Seed   int    `json:"seed,omitempty"`
	Size   int    `json:"size,omitempty"`
	MT     string `json:"mt,omitempty"`
	Absent bool   `json:"absent,omitempty"` // foreign content that the source does not hold
	// raw content override (JSON configs for platform selection etc.)
	Raw string `json:"raw,omitempty"`
	// Alias k > 0 (blobs): the bytes (and digest algorithm) of node k-1, i.e. the same
	// content listed under this blob's media type (a manifest also listed as a plain blob)
	Alias int `json:"alias,omitempty"`
	// manifests
	Config       *Ref              `json:"config,omitempty"`
	Layers       []Ref             `json:"layers,omitempty"` // layers / blobs / manifests
	Subject      *Ref              `json:"subject,omitempty"`
	ArtifactType string            `json:"at,omitempty"`
	Ann          map[string]string `json:"mann,omitempty"`
	Alg          string            `json:"alg,omitempty"` // "" = sha256
	// NoAnn: the manifest carries no annotations at all (not even the harness's id
	// annotation; the generator must then make the manifest distinct by content).
	NoAnn bool `json:"noAnn,omitempty"`
	// Title is the file-store name (put on embedding descriptors as the title annotation).
	Title string `json:"title,omitempty"`
}

// Edge is a ground-truth link.
type Edge struct {
	To      int
	Role    string // config, layer, blob, manifest, subject
	Foreign bool
}

// Node is a built node.
type Node struct {
	ID     int
	Canon  int // canonical node with the same descriptor triple (== ID when unique)
	DCanon int // first node with the same digest (== Canon when the bytes appear under one media type)
	Spec   NodeSpec
	Desc   ocispec.Descriptor // plain triple
	Bytes  []byte
	Edges  []Edge // to canonical ids, duplicates preserved
}

// DAG is a built graph.
type DAG struct {
	Nodes []*Node
}

// BlobBytes derives blob content deterministically.
func BlobBytes(seed, size int) []byte {
	b := make([]byte, size)
	x := uint32(seed)*2654435761 + 12345
	for i := range b {
		x = x*1664525 + 1013904223
		b[i] = byte(x >> 24)
	}
	return b
}

func digestOf(alg string, b []byte) digest.Digest {
	switch alg {
	case "sha512":
		return digest.SHA512.FromBytes(b)
	case "sha384":
		return digest.SHA384.FromBytes(b)
	}
	return digest.SHA256.FromBytes(b)
}

type artifactJSON struct {
	MediaType    string               `json:"mediaType"`
	ArtifactType string               `json:"artifactType"`
	Blobs        []ocispec.Descriptor `json:"blobs,omitempty"`
	Subject      *ocispec.Descriptor  `json:"subject,omitempty"`
	Annotations  map[string]string    `json:"annotations,omitempty"`
}

// EffectiveArtifactType is the harness's reference for "artifact type of a
// manifest": the artifactType field, else the config media type for image manifests.
func (n *Node) EffectiveArtifactType(d *DAG) string {
	switch n.Spec.Kind {
	case KImage:
		if n.Spec.ArtifactType != "" {
			return n.Spec.ArtifactType
		}
		if n.Spec.Config != nil {
			return d.Nodes[d.Nodes[n.Spec.Config.N].Canon].Desc.MediaType
		}
	case KIndex, KArtifact:
		return n.Spec.ArtifactType
	case KDocker:
		if n.Spec.Config != nil {
			return d.Nodes[d.Nodes[n.Spec.Config.N].Canon].Desc.MediaType
		}
	}
	return ""
}

// Build materialises specs. Panics on malformed specs (generator bug).
func Build(specs []NodeSpec) *DAG {
	d := &DAG{}
	byTriple := map[string]int{}
	byDigest := map[string]int{}
	for i, s := range specs {
		n := &Node{ID: i, Canon: i, Spec: s}
		emb := func(r Ref) ocispec.Descriptor {
			if r.N < 0 || r.N >= i {
				panic(fmt.Sprintf("gen: node %d refers to %d", i, r.N))
			}
			c := d.Nodes[d.Nodes[r.N].Canon]
			e := c.Desc
			if len(r.Ann) > 0 || c.Spec.Title != "" {
				e.Annotations = map[string]string{}
				for k, v := range r.Ann {
					e.Annotations[k] = v
				}
				if c.Spec.Title != "" {
					e.Annotations[ocispec.AnnotationTitle] = c.Spec.Title
				}
			}
			e.Platform = r.Plat
			if r.URLs {
				e.URLs = []string{"https://layers.example.test/" + c.Desc.Digest.Encoded()}
			}
			if r.EmbAT {
				e.ArtifactType = c.EffectiveArtifactType(d)
			}
			return e
		}
		edge := func(r Ref, role string) {
			c := d.Nodes[r.N].Canon
			n.Edges = append(n.Edges, Edge{To: c, Role: role, Foreign: role == "layer" && IsForeignMT(d.Nodes[c].Desc.MediaType)})
		}
		ann := map[string]string{}
		for k, v := range s.Ann {
			ann[k] = v
		}
		ann["verif.id"] = fmt.Sprint(i)
		if s.NoAnn {
			ann = nil
		}
		var mt string
		var body any
		switch s.Kind {
		case KBlob:
			mt = s.MT
			if s.Alias > 0 {
				if s.Alias-1 >= i {
					panic(fmt.Sprintf("gen: node %d aliases %d", i, s.Alias-1))
				}
				n.Bytes = d.Nodes[s.Alias-1].Bytes
				s.Alg = d.Nodes[s.Alias-1].Spec.Alg
				n.Spec.Alg = s.Alg
			} else if s.Raw != "" {
				n.Bytes = []byte(s.Raw)
			} else {
				n.Bytes = BlobBytes(s.Seed, s.Size)
			}
		case KImage, KDocker:
			mt = MTImage
			if s.Kind == KDocker {
				mt = MTDocker
			}
			m := ocispec.Manifest{MediaType: mt, Annotations: ann}
			m.SchemaVersion = 2
			if s.Kind == KImage {
				m.ArtifactType = s.ArtifactType
				if s.Subject != nil {
					e := emb(*s.Subject)
					m.Subject = &e
					edge(*s.Subject, "subject")
				}
			}
			if s.Config == nil {
				panic("gen: image without config")
			}
			m.Config = emb(*s.Config)
			edge(*s.Config, "config")
			m.Layers = []ocispec.Descriptor{}
			for _, l := range s.Layers {
				m.Layers = append(m.Layers, emb(l))
				edge(l, "layer")
			}
			body = m
		case KIndex, KDockerList:
			mt = MTIndex
			if s.Kind == KDockerList {
				mt = MTDockerList
			}
			m := ocispec.Index{MediaType: mt, Annotations: ann}
			m.SchemaVersion = 2
			if s.Kind == KIndex {
				m.ArtifactType = s.ArtifactType
				if s.Subject != nil {
					e := emb(*s.Subject)
					m.Subject = &e
					edge(*s.Subject, "subject")
				}
			}
			m.Manifests = []ocispec.Descriptor{}
			for _, l := range s.Layers {
				m.Manifests = append(m.Manifests, emb(l))
				edge(l, "manifest")
			}
			body = m
		case KArtifact:
			mt = MTArtifact
			m := artifactJSON{MediaType: mt, ArtifactType: s.ArtifactType, Annotations: ann}
			if s.Subject != nil {
				e := emb(*s.Subject)
				m.Subject = &e
				edge(*s.Subject, "subject")
			}
			for _, l := range s.Layers {
				m.Blobs = append(m.Blobs, emb(l))
				edge(l, "blob")
			}
			body = m
		default:
			panic("gen: unknown kind " + s.Kind)
		}
		if body != nil {
			b, err := json.Marshal(body)
			if err != nil {
				panic(err)
			}
			n.Bytes = b
		}
		n.Desc = ocispec.Descriptor{MediaType: mt, Digest: digestOf(s.Alg, n.Bytes), Size: int64(len(n.Bytes))}
		key := TripleKey(n.Desc)
		if c, ok := byTriple[key]; ok {
			n.Canon = c
		} else {
			byTriple[key] = i
		}
		if c, ok := byDigest[n.Desc.Digest.String()]; ok {
			n.DCanon = c
		} else {
			byDigest[n.Desc.Digest.String()] = n.Canon
			n.DCanon = n.Canon
		}
		d.Nodes = append(d.Nodes, n)
	}
	return d
}

// TripleKey is the identity of a node as copy code sees it.
func TripleKey(d ocispec.Descriptor) string {
	return d.MediaType + "|" + d.Digest.String() + "|" + fmt.Sprint(d.Size)
}

// Canon returns canonical ids, sorted, unique.
func (d *DAG) CanonIDs() []int {
	var out []int
	for _, n := range d.Nodes {
		if n.Canon == n.ID {
			out = append(out, n.ID)
		}
	}
	return out
}

// IsManifest reports whether node id is a manifest kind.
func (d *DAG) IsManifest(id int) bool { return d.Nodes[id].Spec.Kind != KBlob }

// Reach returns the set reachable from root (inclusive) cutting foreign edges when
// cutForeign is set.
func (d *DAG) Reach(root int, cutForeign bool) map[int]bool {
	root = d.Nodes[root].Canon
	seen := map[int]bool{root: true}
	stack := []int{root}
	for len(stack) > 0 {
		x := stack[len(stack)-1]
		stack = stack[:len(stack)-1]
		for _, e := range d.Nodes[x].Edges {
			if cutForeign && e.Foreign {
				continue
			}
			if !seen[e.To] {
				seen[e.To] = true
				stack = append(stack, e.To)
			}
		}
	}
	return seen
}

// Parents returns, for each canonical node, the distinct canonical parents
// (foreign edges included: a stored manifest references its foreign layers).
func (d *DAG) Parents() map[int][]int {
	out := map[int][]int{}
	for _, p := range d.CanonIDs() {
		seen := map[int]bool{}
		for _, e := range d.Nodes[p].Edges {
			if !seen[e.To] {
				seen[e.To] = true
				out[e.To] = append(out[e.To], p)
			}
		}
	}
	return out
}

// Depth returns the height of node id (0 for leaves), foreign edges cut.
func (d *DAG) Depth(id int) int {
	memo := map[int]int{}
	var f func(int) int
	f = func(x int) int {
		if v, ok := memo[x]; ok {
			return v
		}
		h := 0
		for _, e := range d.Nodes[x].Edges {
			if e.Foreign {
				continue
			}
			if c := f(e.To) + 1; c > h {
				h = c
			}
		}
		memo[x] = h
		return h
	}
	return f(d.Nodes[id].Canon)
}

// SortedKeys returns the sorted keys of an int set.
func SortedKeys(m map[int]bool) []int {
	var out []int
	for k, v := range m {
		if v {
			out = append(out, k)
		}
	}
	sort.Ints(out)
	return out
}

// ---------------------------------------------------------------------------------
// generator

// DAGOpts tunes the generator.
type DAGOpts struct {
	MaxNodes    int
	Referrers   bool // bias towards subject chains
	NoForeign   bool
	NoDocker    bool
	NoArtifact  bool
	OnlySHA256  bool
	Titles      bool // give blobs file-store titles
	SingleMT    bool // never the same bytes under two media types
	ATPool      []string
	AnnKeys     []string
	AnnVals     []string
	NoBigBlobs  bool
	NoBlobSubj  bool // subjects are always manifests
	NoAbsent    bool
	NoDupChild  bool
	ManifestSHA bool // only sha256 for manifests (registries, oci index)
	UniqueBytes bool // every blob has distinct bytes
	Wide        bool // manifests with many layers (contended permits)
	FewBytes    bool // blobs drawn from three byte strings only (aliases under several media types)
	EmbMeta     bool // index children may carry annotations / artifactType on the embedding descriptor
	URLsOnAny   bool // distributable layers may carry a urls field as well
	AliasToOCI  bool // keep same-bytes-two-media-types nodes even when the DESTINATION is digest-addressed (oci)
	BlobRich    bool // at least six nodes, images with >= 3 layers, artifacts with >= 2 blobs
}

var defaultATs = []string{"application/vnd.verif.sig", "application/vnd.verif.sbom", "application/vnd.good"}

// Specs draws a node list.
func Specs(t *rapid.T, o DAGOpts) []NodeSpec {
	if o.MaxNodes <= 0 {
		o.MaxNodes = 12
	}
	if o.ATPool == nil {
		o.ATPool = defaultATs
	}
	lo := 1
	if o.MaxNodes >= 6 {
		lo = 3
	}
	blobP := 32
	if o.BlobRich {
		if o.MaxNodes >= 8 {
			lo = 6
		}
	}
	n := rapid.IntRange(lo, o.MaxNodes).Draw(t, "nNodes")
	var specs []NodeSpec
	var blobs, manifests, plainBlobs []int
	titleN := 0
	type mtAlg struct {
		mt, alg string
		absent  bool
	}
	byBytes := map[string]mtAlg{}
	mkBlob := func(label string, noForeign bool) NodeSpec {
		s := NodeSpec{Kind: KBlob}
		sz := rapid.IntRange(0, 9).Draw(t, label+"SizeClass")
		switch {
		case sz == 0:
			s.Size = 0
		case sz == 1:
			s.Size = 1
		case sz == 9 && !o.NoBigBlobs:
			s.Size = rapid.IntRange(4096, 70000).Draw(t, label+"BigSize")
		default:
			s.Size = rapid.IntRange(2, 64).Draw(t, label+"Size")
		}
		s.Seed = rapid.IntRange(0, 5).Draw(t, label+"Seed")
		mtc := rapid.IntRange(0, 9).Draw(t, label+"MTClass")
		if mtc == 9 && !o.NoForeign && !noForeign {
			s.MT = rapid.SampledFrom(foreignMTs).Draw(t, label+"ForeignMT")
			if !o.NoAbsent {
				s.Absent = rapid.Bool().Draw(t, label+"Absent")
			}
		} else {
			s.MT = rapid.SampledFrom(blobMTs).Draw(t, label+"MT")
		}
		if !o.OnlySHA256 && rapid.IntRange(0, 7).Draw(t, label+"Alg") == 0 {
			s.Alg = "sha512"
		}
		if o.Titles && rapid.IntRange(0, 3).Draw(t, label+"HasTitle") != 0 {
			titleN++
			s.Title = fmt.Sprintf("f%d.bin", titleN)
			if rapid.IntRange(0, 4).Draw(t, label+"TitleDir") == 0 {
				s.Title = fmt.Sprintf("d%d/f%d.bin", titleN%2, titleN)
			}
		}
		if o.FewBytes {
			s.Seed = 0
			s.Size = rapid.IntRange(0, 2).Draw(t, label+"FewSize")
			s.Alg = ""
		}
		if o.UniqueBytes {
			s.Seed = 100 + len(specs)
			if s.Size < 4 {
				s.Size += 4
			}
		}
		if o.SingleMT {
			key := fmt.Sprintf("%d/%d", s.Seed, s.Size)
			if s.Size == 0 {
				key = "empty"
			}
			if prev, ok := byBytes[key]; ok {
				s.MT, s.Alg, s.Absent = prev.mt, prev.alg, prev.absent
			} else {
				byBytes[key] = mtAlg{s.MT, s.Alg, s.Absent}
			}
		}
		return s
	}
	pickRef := func(pool []int, label string) Ref {
		r := Ref{N: rapid.SampledFrom(pool).Draw(t, label)}
		return r
	}
	for i := 0; i < n; i++ {
		var s NodeSpec
		kindRoll := rapid.IntRange(0, 99).Draw(t, "kindRoll")
		if len(plainBlobs) == 0 || kindRoll < blobP {
			s = mkBlob("blob", len(plainBlobs) == 0)
		} else {
			k := kindRoll
			switch {
			case k < 56:
				s.Kind = KImage
			case k < 63 && !o.NoDocker:
				s.Kind = KDocker
			case k < 82:
				s.Kind = KIndex
			case k < 87 && !o.NoDocker:
				s.Kind = KDockerList
			case k < 100 && !o.NoArtifact:
				s.Kind = KArtifact
			default:
				s.Kind = KImage
			}
			if o.Referrers && len(manifests) > 0 && (s.Kind == KDocker || s.Kind == KDockerList) {
				s.Kind = KImage
			}
			if !o.OnlySHA256 && !o.ManifestSHA && rapid.IntRange(0, 9).Draw(t, "mAlg") == 0 {
				s.Alg = "sha512"
			}
			switch s.Kind {
			case KImage, KDocker:
				c := pickRef(plainBlobs, "config")
				s.Config = &c
				maxL := 4
				if o.Wide {
					maxL = 9
				}
				minL := 0
				if o.BlobRich {
					minL = 3
				}
				nl := rapid.IntRange(minL, maxL).Draw(t, "nLayers")
				for j := 0; j < nl; j++ {
					if !o.NoDupChild && len(s.Layers) > 0 && rapid.IntRange(0, 5).Draw(t, "dupLayer") == 0 {
						s.Layers = append(s.Layers, s.Layers[rapid.IntRange(0, len(s.Layers)-1).Draw(t, "dupIdx")])
						continue
					}
					lr := pickRef(blobs, "layer")
					if IsForeignMT(specs[lr.N].MT) && rapid.Bool().Draw(t, "foreignURLs") {
						lr.URLs = true
					} else if o.URLsOnAny && !IsForeignMT(specs[lr.N].MT) && rapid.IntRange(0, 4).Draw(t, "layerURLs") == 2 {
						// an ordinary (distributable) layer may name download locations too
						lr.URLs = true
					}
					s.Layers = append(s.Layers, lr)
				}
			case KIndex, KDockerList:
				if len(manifests) > 0 {
					nl := rapid.IntRange(0, 3).Draw(t, "nManifests")
					for j := 0; j < nl; j++ {
						if !o.NoDupChild && len(s.Layers) > 0 && rapid.IntRange(0, 6).Draw(t, "dupM") == 0 {
							s.Layers = append(s.Layers, s.Layers[0])
							continue
						}
						r := pickRef(manifests, "manifest")
						if o.EmbMeta {
							switch rapid.IntRange(0, 5).Draw(t, "embMeta") {
							case 0:
								r.Ann = map[string]string{"emb": "x"}
							case 1:
								if len(o.AnnKeys) > 0 {
									r.Ann = map[string]string{rapid.SampledFrom(o.AnnKeys).Draw(t, "embK"): rapid.SampledFrom(o.AnnVals).Draw(t, "embV")}
								}
							case 2:
								r.EmbAT = true
							}
						}
						s.Layers = append(s.Layers, r)
					}
				}
			case KArtifact:
				minB := 0
				if o.BlobRich {
					minB = 2
				}
				nl := rapid.IntRange(minB, 3+minB/2).Draw(t, "nBlobs")
				for j := 0; j < nl; j++ {
					s.Layers = append(s.Layers, pickRef(plainBlobs, "ablob"))
				}
			}
			if s.Kind == KImage || s.Kind == KIndex || s.Kind == KArtifact {
				p := 25
				if o.Referrers {
					p = 65
				}
				if rapid.IntRange(0, 99).Draw(t, "hasSubject") < p {
					if len(manifests) > 0 && (o.NoBlobSubj || rapid.IntRange(0, 9).Draw(t, "subjBlob") != 0) {
						r := pickRef(manifests, "subject")
						s.Subject = &r
					} else if !o.NoBlobSubj {
						r := pickRef(plainBlobs, "subjectBlob")
						s.Subject = &r
					}
				}
				if s.Kind == KArtifact || rapid.IntRange(0, 2).Draw(t, "hasAT") == 0 {
					s.ArtifactType = rapid.SampledFrom(o.ATPool).Draw(t, "at")
				}
			}
			if len(o.AnnKeys) > 0 && rapid.IntRange(0, 1).Draw(t, "hasAnn") == 0 {
				s.Ann = map[string]string{rapid.SampledFrom(o.AnnKeys).Draw(t, "annK"): rapid.SampledFrom(o.AnnVals).Draw(t, "annV")}
			}
		}
		if s.Kind == KBlob {
			blobs = append(blobs, i)
			if !IsForeignMT(s.MT) {
				plainBlobs = append(plainBlobs, i)
			}
		} else {
			manifests = append(manifests, i)
		}
		specs = append(specs, s)
	}
	return specs
}
