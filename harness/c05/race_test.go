package c05

import (
	"bytes"
	"context"
	"io"
	"os"
	"path/filepath"
	"sync"
	"time"

	"github.com/opencontainers/go-digest"
	ocispec "github.com/opencontainers/image-spec/specs-go/v1"
	"oras.land/oras-go/v2/content"
	"oras.land/oras-go/v2/content/file"
	"oras.land/oras-go/v2/content/memory"
	"oras.land/oras-go/v2/content/oci"
	"pgregory.net/rapid"

	"verif/harness/gen"
	"verif/harness/vt"
)

// RaceCase: one good and one or two bad pushers for the SAME descriptor whose
// reads are released in a generated order ("G0" = good pusher delivers its first
// half, "G1" its second half, "Ge" its EOF; B... likewise for the bad pusher).
type RaceCase struct {
	Seed  int      `json:"seed"`
	Size  int      `json:"size"`
	Sink  string   `json:"sink"`
	Order []string `json:"order"`
	Bad   string   `json:"bad"` // corrupt, short
}

func genRace(t *rapid.T) RaceCase {
	c := RaceCase{Seed: rapid.IntRange(0, 9).Draw(t, "seed"), Size: rapid.IntRange(2, 200).Draw(t, "size")}
	c.Sink = rapid.SampledFrom([]string{"oci-storage", "oci-storage", "oci-store", "memory", "file-named", "file-unnamed"}).Draw(t, "sink")
	c.Bad = rapid.SampledFrom([]string{"corrupt", "corrupt", "short"}).Draw(t, "bad")
	// a random interleaving of the two pushers' three steps each
	g, b := []string{"G0", "G1", "Ge"}, []string{"B0", "B1", "Be"}
	for len(g) > 0 || len(b) > 0 {
		takeG := len(b) == 0 || (len(g) > 0 && rapid.Bool().Draw(t, "takeG"))
		if takeG {
			c.Order = append(c.Order, g[0])
			g = g[1:]
		} else {
			c.Order = append(c.Order, b[0])
			b = b[1:]
		}
	}
	return c
}

// director releases steps in order; a step that is not claimed within the timeout
// (the store serialised the pushers) is skipped so that nothing deadlocks.
type director struct {
	mu    sync.Mutex
	cond  *sync.Cond
	order []string
	idx   int
}

func newDirector(order []string) *director {
	d := &director{order: order}
	d.cond = sync.NewCond(&d.mu)
	go func() {
		// watchdog: advance when the expected step does not show up
		for {
			time.Sleep(15 * time.Millisecond)
			d.mu.Lock()
			if d.idx >= len(d.order) {
				d.mu.Unlock()
				return
			}
			d.idx++
			d.cond.Broadcast()
			d.mu.Unlock()
		}
	}()
	return d
}

// wait blocks until it is step's turn (or its turn has passed), then consumes it.
func (d *director) wait(step string) {
	d.mu.Lock()
	defer d.mu.Unlock()
	for {
		pos := -1
		for i, s := range d.order {
			if s == step {
				pos = i
			}
		}
		if pos < 0 || d.idx >= pos {
			if d.idx == pos {
				d.idx++
				d.cond.Broadcast()
			}
			return
		}
		d.cond.Wait()
	}
}

type stepReader struct {
	who  string
	data []byte
	pos  int
	d    *director
	st   int
}

func (r *stepReader) Read(p []byte) (int, error) {
	half := len(r.data) / 2
	switch r.st {
	case 0:
		r.d.wait(r.who + "0")
		r.st = 1
		n := copy(p, r.data[:half])
		r.pos = n
		if n < half {
			r.st = 10 // small buffer: finish first half without choreography
		}
		return n, nil
	case 10:
		n := copy(p, r.data[r.pos:half])
		r.pos += n
		if r.pos >= half {
			r.st = 1
		}
		return n, nil
	case 1:
		if r.pos == half {
			r.d.wait(r.who + "1")
		}
		n := copy(p, r.data[r.pos:])
		r.pos += n
		if r.pos >= len(r.data) {
			r.st = 2
		}
		return n, nil
	default:
		if r.st == 2 {
			r.d.wait(r.who + "e")
			r.st = 3
		}
		return 0, io.EOF
	}
}

func runRace(c RaceCase) (res vt.Result, fail *vt.Fail) {
	fin, dump := vt.Watch(30*time.Second, func() { res, fail = runRaceInner(c) })
	if !fin {
		vt.ReportHang("race", vt.MustJSON(c), vt.Failf("C05/hang", "concurrent pushes into %s did not return", c.Sink), dump)
	}
	return res, fail
}

func runRaceInner(c RaceCase) (res vt.Result, fail *vt.Fail) {
	ctx := context.Background()
	good := gen.BlobBytes(c.Seed, c.Size)
	bad := append([]byte(nil), good...)
	if c.Bad == "corrupt" {
		bad[len(bad)-1] ^= 0x33
	} else {
		bad = bad[:len(bad)-1]
	}
	desc := ocispec.Descriptor{MediaType: gen.MTOctet, Digest: digest.FromBytes(good), Size: int64(len(good))}
	root := vt.Scratch("c05r-")
	defer os.RemoveAll(root)
	var st content.Storage
	layout := ""
	switch c.Sink {
	case "memory":
		st = memory.New()
	case "oci-storage":
		layout = filepath.Join(root, "l")
		s, err := oci.NewStorage(layout)
		if err != nil {
			return res, vt.Failf("harness/oci", "%v", err)
		}
		st = s
	case "oci-store":
		layout = filepath.Join(root, "l")
		s, err := oci.New(layout)
		if err != nil {
			return res, vt.Failf("harness/oci", "%v", err)
		}
		st = s
	default:
		s, err := file.New(filepath.Join(root, "wd"))
		if err != nil {
			return res, vt.Failf("harness/file", "%v", err)
		}
		defer s.Close()
		st = s
		if c.Sink == "file-named" {
			desc.Annotations = map[string]string{ocispec.AnnotationTitle: "blob.bin"}
		}
	}
	d := newDirector(c.Order)
	var wg sync.WaitGroup
	var gErr, bErr error
	wg.Add(2)
	go func() { defer wg.Done(); gErr = st.Push(ctx, desc, &stepReader{who: "G", data: good, d: d}) }()
	go func() { defer wg.Done(); bErr = st.Push(ctx, desc, &stepReader{who: "B", data: bad, d: d}) }()
	wg.Wait()
	res.NonTrivial = true
	res.Classes = []string{"race-sink-" + c.Sink, "race-bad-" + c.Bad}
	if bErr == nil {
		return res, vt.Failf("C05/store-accepts-mismatch", "%s: the push of %s content returned nil (order %v)", c.Sink, c.Bad, c.Order)
	}
	if gErr != nil && !isAlreadyExists(gErr) {
		// a good push may legitimately lose against ... nothing: the bad one never
		// makes the content exist, so the good push must succeed
		return res, vt.Failf("C05/good-push-rejected", "%s: the push of matching content failed while a bad push for the same descriptor was in flight: %v (order %v)", c.Sink, gErr, c.Order)
	}
	if gErr != nil {
		return res, vt.Failf("C05/good-push-already-exists-without-content", "%s: the good push was refused with already-exists although only a bad push competed: %v", c.Sink, gErr)
	}
	ok, err := st.Exists(ctx, desc)
	if err != nil || !ok {
		return res, vt.Failf("C05/accepted-but-invisible", "%s: good push returned nil but Exists=%v err=%v", c.Sink, ok, err)
	}
	got, err := gen.ReadBack(ctx, st, desc)
	if err != nil || !bytes.Equal(got, good) {
		return res, vt.Failf("C05/visible-content-mismatch", "%s: after a good and a %s push for one descriptor the store returns %d bytes (err %v) that are not the named content (order %v)", c.Sink, c.Bad, len(got), err, c.Order)
	}
	if layout != "" {
		if probs := blobProblems(layout); len(probs) > 0 {
			return res, vt.Failf("C05/blob-file-mismatch", "%s: %v (order %v)", c.Sink, probs, c.Order)
		}
	}
	return res, nil
}
