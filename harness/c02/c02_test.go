package c02

import (
	"context"
	"fmt"
	"net/http"
	"sync"
	"testing"
	"time"

	ocispec "github.com/opencontainers/image-spec/specs-go/v1"
	"pgregory.net/rapid"

	"verif/harness/copyx"
	"verif/harness/gen"
	"verif/harness/inst"
	"verif/harness/regmodel"
	"verif/harness/vt"
)

var srcKinds = []string{"memory", "memory", "oci", "oci-ro", "file"}
var dstKinds = []string{"memory", "memory", "oci", "file"}

type site struct {
	Side, Op string
	Node     int
	Whens    []string
}

// sites lists the (operation, node) pairs a fault-free run of the case is expected
// to perform, from the generator's own knowledge of the graph.
func sites(c *copyx.Case, d *gen.DAG) []site {
	var out []site
	pre := map[int]bool{}
	for _, p := range c.Pre {
		pre[p] = true
	}
	root := d.Nodes[c.Root].Canon
	universe := d.Reach(root, true)
	if c.API == "extcopygraph" {
		// upward closure
		parents := d.Parents()
		up := map[int]bool{root: true}
		stack := []int{root}
		for len(stack) > 0 {
			x := stack[len(stack)-1]
			stack = stack[:len(stack)-1]
			out = append(out, site{"src", "Predecessors", x, []string{"before", "after"}})
			for _, p := range parents[x] {
				if !up[p] && !d.Nodes[p].Spec.Absent {
					up[p] = true
					stack = append(stack, p)
				}
			}
		}
		for a := range up {
			for id := range d.Reach(a, true) {
				universe[id] = true
			}
		}
	}
	for _, id := range gen.SortedKeys(universe) {
		out = append(out, site{"dst", "Exists", id, []string{"before", "after"}})
		if pre[id] {
			if c.Callbacks {
				out = append(out, site{"cb", "OnCopySkipped", id, []string{"before"}})
			}
			continue
		}
		out = append(out, site{"src", "Fetch", id, []string{"before", "after", "mid"}})
		out = append(out, site{"dst", "Push", id, []string{"before", "after"}})
		if c.Callbacks {
			out = append(out, site{"cb", "PreCopy", id, []string{"before"}}, site{"cb", "PostCopy", id, []string{"before"}})
		}
	}
	if c.API == "copy" {
		out = append(out, site{"dst", "Tag", root, []string{"before"}})
		out = append(out, site{"src", "Resolve", -1, []string{"before", "after"}})
	}
	return out
}

func genCase(t *rapid.T) copyx.Case {
	max := 12
	if vt.Thorough() {
		max = 24
	}
	c := copyx.GenBase(t, gen.DAGOpts{MaxNodes: max, Referrers: rapid.Bool().Draw(t, "referrers"), Wide: rapid.Bool().Draw(t, "wide"), AnnKeys: []string{"k"}, AnnVals: []string{"v1", "v2"}}, srcKinds, dstKinds)
	d := gen.Build(c.Specs)
	c.API = rapid.SampledFrom([]string{"copygraph", "copy", "extcopygraph"}).Draw(t, "api")
	if c.API == "extcopygraph" && gen.IsForeignMT(d.Nodes[c.Root].Desc.MediaType) {
		// narrowing (as in C03): a start node that is itself a foreign layer is by
		// design never transferred through the link that reaches it from the roots
		// ExtendedCopyGraph finds, so "the start node arrives" is not promised
		c.API = "copygraph"
	}
	c.Callbacks = rapid.Bool().Draw(t, "callbacks")
	if c.API != "extcopygraph" {
		c.Pre = copyx.GenPre(t, d, d.Reach(c.Root, true), c.Root)
	} else if rapid.Bool().Draw(t, "filtered") {
		// a filter reads the predecessors it judges: source reads of its own
		// start below a node that several manifests point to: the filter then has
		// several predecessors to read, in the order the source lists them
		var multi []int
		parents := d.Parents()
		for _, id := range d.CanonIDs() {
			if len(parents[id]) >= 2 && !d.Nodes[id].Spec.Absent && !gen.IsForeignMT(d.Nodes[id].Desc.MediaType) {
				multi = append(multi, id)
			}
		}
		if len(multi) > 0 && rapid.IntRange(0, 2).Draw(t, "belowSeveral") != 1 {
			c.Root = rapid.SampledFrom(multi).Draw(t, "multiRoot")
		}
		if rapid.Bool().Draw(t, "filterByType") {
			// (an artifact-type filter reads the predecessor manifests as well)
			c.FilterAT = rapid.SampledFrom([]string{"vnd", "sig", "^application/"}).Draw(t, "filterAT")
		} else {
			c.FilterAnnKey = "k"
			c.FilterAnnRe = rapid.SampledFrom([]string{"", "v1", "v."}).Draw(t, "filterRe")
		}
	}
	ss := sites(&c, d)
	// sites on nodes that several parents inside the copied graph share: a failure
	// there is observed by parents that did not dispatch the node themselves
	fanin := map[int]int{}
	for id := range d.Reach(c.Root, true) {
		seen := map[int]bool{}
		for _, ed := range d.Nodes[id].Edges {
			if !ed.Foreign && !seen[ed.To] {
				seen[ed.To] = true
				fanin[ed.To]++
			}
		}
	}
	var sharedSites []site
	for _, s := range ss {
		if fanin[s.Node] >= 2 {
			sharedSites = append(sharedSites, s)
		}
	}
	nf := rapid.IntRange(1, 3).Draw(t, "nFaults")
	for i := 0; i < nf; i++ {
		pool := ss
		if len(sharedSites) > 0 && rapid.Bool().Draw(t, "onShared") {
			pool = sharedSites
		}
		s := rapid.SampledFrom(pool).Draw(t, "site")
		f := inst.Fault{Side: s.Side, Op: s.Op, Node: s.Node, When: rapid.SampledFrom(s.Whens).Draw(t, "when")}
		if s.Op == "Resolve" {
			f.Node, f.Ref = 0, copyx.SrcRef
		}
		f.Kind = "error"
		if rapid.IntRange(0, 2).Draw(t, "cancel") == 0 {
			f.Kind = "cancel"
		}
		c.Faults = append(c.Faults, f)
	}
	if c.FilterAnnKey != "" || c.FilterAT != "" {
		// the read a filter needs: the manifest of a node above the start node
		own := d.Reach(c.Root, true)
		var above []int
		for _, s := range ss {
			if s.Side == "src" && s.Op == "Fetch" && !own[s.Node] && d.IsManifest(s.Node) {
				above = append(above, s.Node)
			}
		}
		if len(above) > 0 && rapid.IntRange(0, 2).Draw(t, "faultFilterRead") != 0 {
			c.Faults[0] = inst.Fault{Side: "src", Op: "Fetch", Node: rapid.SampledFrom(above).Draw(t, "aboveNode"), When: rapid.SampledFrom([]string{"before", "mid"}).Draw(t, "aboveWhen"), Kind: "error"}
		}
	}
	if rapid.IntRange(0, 24).Draw(t, "preCancel") == 0 {
		c.PreCancel = true
	}
	return c
}

// genDiamond: a root index over 2-4 parents that all share one node (a layer, or a
// whole image), every parent with a few nodes of its own; one fault on the shared
// node or on something below it; heavy latency. The shape in which one parent owns
// the failing node while the others wait for it.
func genDiamond(t *rapid.T) copyx.Case {
	var specs []gen.NodeSpec
	blob := func(size int) int {
		specs = append(specs, gen.NodeSpec{Kind: gen.KBlob, Seed: 200 + len(specs), Size: size, MT: "application/octet-stream"})
		return len(specs) - 1
	}
	sharedIsManifest := rapid.Bool().Draw(t, "sharedIsManifest")
	var shared, below int
	if sharedIsManifest {
		cfg := blob(7)
		below = blob(rapid.IntRange(1, 40).Draw(t, "belowSize"))
		specs = append(specs, gen.NodeSpec{Kind: gen.KImage, Config: &gen.Ref{N: cfg}, Layers: []gen.Ref{{N: below}}})
		shared = len(specs) - 1
	} else {
		shared = blob(rapid.IntRange(1, 40).Draw(t, "sharedSize"))
		below = shared
	}
	k := rapid.IntRange(2, 4).Draw(t, "parents")
	var parents []gen.Ref
	for i := 0; i < k; i++ {
		own := rapid.IntRange(0, 3).Draw(t, "own")
		if sharedIsManifest {
			var kids []gen.Ref
			for j := 0; j < own; j++ {
				cfg := blob(5)
				specs = append(specs, gen.NodeSpec{Kind: gen.KImage, Config: &gen.Ref{N: cfg}})
				kids = append(kids, gen.Ref{N: len(specs) - 1})
			}
			pos := rapid.IntRange(0, len(kids)).Draw(t, "sharedPos")
			kids = append(kids[:pos], append([]gen.Ref{{N: shared}}, kids[pos:]...)...)
			specs = append(specs, gen.NodeSpec{Kind: gen.KIndex, Layers: kids})
		} else {
			cfg := blob(6)
			var layers []gen.Ref
			for j := 0; j < own; j++ {
				layers = append(layers, gen.Ref{N: blob(rapid.IntRange(1, 30).Draw(t, "ownSize"))})
			}
			pos := rapid.IntRange(0, len(layers)).Draw(t, "sharedPos")
			layers = append(layers[:pos], append([]gen.Ref{{N: shared}}, layers[pos:]...)...)
			specs = append(specs, gen.NodeSpec{Kind: gen.KImage, Config: &gen.Ref{N: cfg}, Layers: layers})
		}
		parents = append(parents, gen.Ref{N: len(specs) - 1})
	}
	specs = append(specs, gen.NodeSpec{Kind: gen.KIndex, Layers: parents})
	c := copyx.Case{Specs: specs, Root: len(specs) - 1, SrcKind: "memory", DstKind: rapid.SampledFrom([]string{"memory", "oci"}).Draw(t, "dstKind")}
	c.API = rapid.SampledFrom([]string{"copygraph", "copy"}).Draw(t, "api")
	c.Conc = rapid.SampledFrom([]int{2, 3, 4, 0}).Draw(t, "conc")
	c.LatSeed = 2*rapid.IntRange(1, 1<<19).Draw(t, "latSeed") + 1 // odd: heavy
	c.Callbacks = rapid.Bool().Draw(t, "callbacks")
	node := rapid.SampledFrom([]int{shared, shared, below}).Draw(t, "faultNode")
	site := rapid.SampledFrom([]site{{"src", "Fetch", node, []string{"before", "after", "mid"}}, {"dst", "Push", node, []string{"before", "after"}}, {"dst", "Exists", node, []string{"before", "after"}}}).Draw(t, "site")
	c.Faults = []inst.Fault{{Side: site.Side, Op: site.Op, Node: node, When: rapid.SampledFrom(site.Whens).Draw(t, "when"), Kind: "error"}}
	return c
}

// genMountFault: the destination is a remote repository (registry model) that can be
// asked to mount blobs from sibling repositories; MountFrom answers 1-3 candidates
// per blob, most of which cannot provide it, so the copy falls back to fetching from
// the source - where one fault waits.
func genMountFault(t *rapid.T) copyx.Case {
	c := copyx.GenBase(t, gen.DAGOpts{MaxNodes: 12, NoForeign: true, NoDocker: true, OnlySHA256: true, SingleMT: true, UniqueBytes: true, NoAbsent: true, NoBlobSubj: true, NoBigBlobs: true, BlobRich: true}, []string{"memory"}, []string{"remote"})
	c.SrcKind, c.DstKind = "memory", "remote"
	d := gen.Build(c.Specs)
	best, bestN := c.Root, -1
	for _, id := range d.CanonIDs() {
		n := 0
		for r := range d.Reach(id, true) {
			if !d.IsManifest(r) {
				n++
			}
		}
		if n > bestN {
			best, bestN = id, n
		}
	}
	c.Root = best
	c.API = "copygraph"
	c.UseMount = true
	c.Callbacks = rapid.Bool().Draw(t, "callbacks")
	c.Conc = rapid.SampledFrom([]int{1, 2, 3, 0}).Draw(t, "conc")
	c.DstProfile = regmodel.Profile{StrictBlobs: true, MountCreated: rapid.Bool().Draw(t, "mountSupported")}
	var blobs []int
	var held []int
	for _, id := range gen.SortedKeys(d.Reach(c.Root, true)) {
		if d.IsManifest(id) {
			continue
		}
		blobs = append(blobs, id)
		k := rapid.IntRange(1, 3).Draw(t, "nRepos")
		repos := rapid.SliceOfNDistinct(rapid.SampledFrom([]string{"lib/a", "lib/empty", "lib/missing", "lib/other"}), k, k, rapid.ID[string]).Draw(t, "repos")
		c.MountFrom = append(c.MountFrom, copyx.MountSpec{Node: id, Repos: repos})
		if rapid.IntRange(0, 3).Draw(t, "held") == 0 {
			held = append(held, id)
		}
	}
	if len(held) > 0 {
		c.Holds = []copyx.HoldSpec{{Repo: "lib/a", Nodes: held}}
	}
	if len(blobs) == 0 {
		blobs = []int{c.Root}
	}
	node := rapid.SampledFrom(blobs).Draw(t, "faultNode")
	c.Faults = []inst.Fault{{Side: "src", Op: "Fetch", Node: node, When: rapid.SampledFrom([]string{"before", "after", "mid"}).Draw(t, "when"), Kind: "error"}}
	if rapid.IntRange(0, 2).Draw(t, "mountErr") == 1 {
		// instead: mounting from one of the candidate repositories fails hard
		c.Faults = nil
		c.MountErrRepo = rapid.SampledFrom([]string{"lib/a", "lib/empty", "lib/other"}).Draw(t, "mountErrRepo")
	}
	return c
}

func runCase(c copyx.Case) (res vt.Result, fail *vt.Fail) {
	e, f := copyx.Setup(&c)
	if f != nil {
		return res, f
	}
	defer e.Close()
	return Run(e, &c, "main")
}

// Run executes a prepared case: monitored faulty attempt, closure checks, retry.
func Run(e *copyx.Env, c *copyx.Case, leg string) (res vt.Result, fail *vt.Fail) {
	d := e.D
	// half of the latency profiles are heavy (every storage operation takes
	// 0.2-1.2 ms): a failed node's siblings are then still busy when its other
	// parents look at it, which is when a premature release shows
	e.Rec.Heavy = c.LatSeed%2 == 1
	byKey := map[string]int{}
	for _, id := range d.CanonIDs() {
		byKey[gen.TripleKey(d.Nodes[id].Desc)] = id
	}
	var mu sync.Mutex
	var monitorFail *vt.Fail
	e.Rec.OnPushed = func(desc ocispec.Descriptor) {
		id, ok := byKey[gen.TripleKey(desc)]
		if !ok {
			return
		}
		for _, ed := range d.Nodes[id].Edges {
			if ed.Foreign {
				continue
			}
			ok, err := e.RawDst.Exists(context.Background(), copyx.QueryDesc(c.DstKind, d.Nodes[ed.To]))
			if err != nil || !ok {
				mu.Lock()
				if monitorFail == nil {
					monitorFail = vt.Failf("C02/push-completed-before-successor", "push of node %d (%s) completed while its %s successor %d was not in the destination (exists=%v err=%v)", id, d.Nodes[id].Spec.Kind, ed.Role, ed.To, ok, err)
				}
				mu.Unlock()
			}
		}
	}
	var out copyx.Outcome
	mountErrs := 0
	if c.MountErrRepo != "" && e.DstReg != nil {
		var mmu sync.Mutex
		e.DstReg.Pre = func(req *http.Request, rec *regmodel.ReqRecord) (*http.Response, error) {
			if req.Method == http.MethodPost && req.URL.Query().Get("mount") != "" && req.URL.Query().Get("from") == c.MountErrRepo {
				mmu.Lock()
				mountErrs++
				mmu.Unlock()
				return regmodel.Response(req, 500, nil, []byte(`{"errors":[{"code":"UNKNOWN","message":"verif: mount failed"}]}`), false, rec.BodyRead), nil
			}
			return nil, nil
		}
	}
	fin, dump := vt.Watch(30*time.Second, func() { out = e.Invoke(true) })
	if !fin {
		vt.ReportHang(leg, vt.MustJSON(c), vt.Failf("C02/hang", "%s did not return within 30 s with faults %+v", c.API, c.Faults), dump)
	}
	if e.DstReg != nil {
		e.DstReg.Pre = nil
	}
	if mountErrs > 0 {
		res.Classes = append(res.Classes, "mount-request-answered-with-a-server-error")
		if out.Err == nil {
			return res, vt.Failf("C02/fault-swallowed", "%s returned nil although %d mount requests from %s were answered with a server error (MountFrom %+v)", c.API, mountErrs, c.MountErrRepo, c.MountFrom)
		}
	}
	fired := e.Rec.AnyFired() || mountErrs > 0
	depth := d.Depth(c.Root)
	res.NonTrivial = fired && depth >= 2
	res.Classes = append(res.Classes, "api-"+c.API, "src-"+c.SrcKind, "dst-"+c.DstKind, fmt.Sprintf("conc-%d", c.Conc))
	if fired {
		res.Classes = append(res.Classes, "fault-fired")
	} else {
		res.Classes = append(res.Classes, "no-fault-fired")
	}
	mustFail := false
	for i, ft := range c.Faults {
		if e.Rec.Fired[i] {
			res.Classes = append(res.Classes, "fired-"+ft.Side+"-"+ft.Op+"-"+ft.When+"-"+ft.Kind)
			if !(ft.Kind == "cancel" && ft.When == "after") && !(ft.When == "mid" && d.Nodes[ft.Node].Desc.Size == 0) {
				mustFail = true
			}
		}
	}
	mu.Lock()
	mf := monitorFail
	mu.Unlock()
	if mf != nil {
		return res, mf
	}
	if mustFail && out.Err == nil {
		return res, vt.Failf("C02/fault-swallowed", "%s returned nil although a fault fired on an operation it needs: %+v fired=%v", c.API, c.Faults, e.Rec.Fired)
	}
	if c.PreCancel {
		res.Classes = append(res.Classes, "context-cancelled-before-the-call")
		if out.Err == nil {
			return res, vt.Failf("C02/cancelled-call-reports-success", "%s was called with an already cancelled context and returned nil", c.API)
		}
	} else if !fired && out.Err != nil {
		return res, vt.Failf("C02/fault-free-copy-failed", "%s failed although no fault fired: %v", c.API, out.Err)
	}
	if out.Err == nil {
		// a call that reports success (e.g. after a cancellation that arrived once
		// an operation had completed) must have done the work
		if f := e.CheckPresent(d.Reach(c.Root, true), "C02/success-reported", "after a nil result with faults "+fmt.Sprint(c.Faults)); f != nil {
			return res, f
		}
		if c.API == "copy" {
			got, err := e.RawDst.Resolve(context.Background(), copyx.DstRef)
			if err != nil || got.Digest != d.Nodes[d.Nodes[c.Root].Canon].Desc.Digest {
				return res, vt.Failf("C02/success-reported/root-not-tagged", "Copy returned nil (faults %v) but the destination reference does not resolve to the root: %v", c.Faults, err)
			}
		}
	}
	if f := e.CheckClosed("C02", "after the faulty attempt (err="+fmt.Sprint(out.Err)+")"); f != nil {
		return res, f
	}
	// retry without faults
	var out2 copyx.Outcome
	fin, dump = vt.Watch(30*time.Second, func() { out2 = e.Invoke(false) })
	if !fin {
		vt.ReportHang(leg, vt.MustJSON(c), vt.Failf("C02/hang", "retry of %s did not return within 30 s", c.API), dump)
	}
	mu.Lock()
	mf = monitorFail
	mu.Unlock()
	if mf != nil {
		return res, mf
	}
	if out2.Err != nil {
		return res, vt.Failf("C02/retry-failed", "re-running %s without faults failed: %v (first attempt: %v)", c.API, out2.Err, out.Err)
	}
	if f := e.CheckPresent(d.Reach(c.Root, true), "C02", "after the retry"); f != nil {
		return res, f
	}
	if f := e.CheckClosed("C02", "after the retry"); f != nil {
		return res, f
	}
	if c.API == "copy" {
		got, err := e.RawDst.Resolve(context.Background(), copyx.DstRef)
		root := d.Nodes[d.Nodes[c.Root].Canon]
		if err != nil || got.Digest != root.Desc.Digest {
			return res, vt.Failf("C02/retry-root-not-tagged", "after the retry Resolve(%q) = %v, %v", copyx.DstRef, got.Digest, err)
		}
	}
	return res, nil
}

func TestMain(m *testing.M) {
	vt.ReplayRepeat["main"], vt.ReplayRepeat["diamond"] = 30, 30
	vt.Main(m, "C02",
		vt.NewLeg("main", 1200, 4000, 16, genCase, runCase),
		vt.NewLeg("diamond", 400, 1500, 8, genDiamond, runCase),
		vt.NewLeg("mount", 300, 1200, 4, genMountFault, runCase),
	)
}

func TestLegs(t *testing.T)   { vt.TestLegs(t) }
func TestReplay(t *testing.T) { vt.TestReplay(t) }
