package c19

import (
	"bytes"
	"context"
	"encoding/json"
	"errors"
	"fmt"
	"io"
	"os"
	"path/filepath"
	"reflect"
	"strings"
	"sync"
	"testing"
	"time"

	"github.com/opencontainers/go-digest"
	ocispec "github.com/opencontainers/image-spec/specs-go/v1"
	oras "oras.land/oras-go/v2"
	"oras.land/oras-go/v2/content"
	"oras.land/oras-go/v2/content/file"
	"oras.land/oras-go/v2/content/memory"
	"oras.land/oras-go/v2/content/oci"
	"oras.land/oras-go/v2/errdef"
	"pgregory.net/rapid"

	"verif/harness/gen"
	"verif/harness/vt"
)

const (
	mtEmpty          = "application/vnd.oci.empty.v1+json"
	mtUnknownConfig  = "application/vnd.unknown.config.v1+json"
	mtUnknownArtifac = "application/vnd.unknown.artifact.v1"
	annCreated       = "org.opencontainers.image.created"
	annArtCreated    = "org.opencontainers.artifact.created"
)

// Case is one PackManifest / Pack invocation.
type Case struct {
	API          string            `json:"api"` // v1.0, v1.1, v1.1rc4, v0, v3, pack-image, pack-artifact
	ArtifactType string            `json:"artifactType"`
	Config       *BlobRef          `json:"config,omitempty"`
	ConfigAnn    map[string]string `json:"configAnn,omitempty"`
	Layers       []BlobRef         `json:"layers,omitempty"`
	LayersNil    bool              `json:"layersNil,omitempty"`
	Subject      *BlobRef          `json:"subject,omitempty"`
	Ann          map[string]string `json:"ann,omitempty"`
	AnnNil       bool              `json:"annNil,omitempty"`
	Created      string            `json:"created,omitempty"` // value of the created annotation; "" = not set
	CreatedClass string            `json:"createdClass,omitempty"`
	Target       string            `json:"target"`             // memory, oci, file, pusher-only
	PreEmpty     bool              `json:"preEmpty,omitempty"` // target already holds the empty-JSON blob
	// FailPush n > 0: the n-th Push the packer issues fails (target fault)
	FailPush int `json:"failPush,omitempty"`
}

// BlobRef is a caller-supplied descriptor.
type BlobRef struct {
	MT      string            `json:"mt"`
	Seed    int               `json:"seed"`
	Size    int               `json:"size"`
	Present bool              `json:"present"`
	Ann     map[string]string `json:"ann,omitempty"`
	// Raw != "": these exact bytes (Size = len(Raw)), e.g. "{}" under a custom media type
	Raw string `json:"raw,omitempty"`
}

func (b BlobRef) bytes() []byte {
	if b.Raw != "" {
		return []byte(b.Raw)
	}
	return gen.BlobBytes(b.Seed+50, b.Size)
}
func (b BlobRef) desc() ocispec.Descriptor {
	d := ocispec.Descriptor{MediaType: b.MT, Digest: digest.FromBytes(b.bytes()), Size: int64(b.Size), Annotations: b.Ann}
	return d
}

// validMediaType is the harness's own RFC 6838 check (type "/" subtype, each a
// restricted-name of at most 127 characters).
func validMediaType(s string) bool {
	i := strings.IndexByte(s, '/')
	if i < 0 {
		return false
	}
	for _, part := range []string{s[:i], s[i+1:]} {
		if len(part) == 0 || len(part) > 127 {
			return false
		}
		for j := 0; j < len(part); j++ {
			c := part[j]
			alnum := (c >= 'a' && c <= 'z') || (c >= 'A' && c <= 'Z') || (c >= '0' && c <= '9')
			if j == 0 {
				if !alnum {
					return false
				}
				continue
			}
			if !alnum && !strings.ContainsRune("!#$&-^_.+", rune(c)) {
				return false
			}
		}
	}
	return true
}

var validMTs = []string{"application/vnd.test+json", "a/b", "application/vnd.oci.image.config.v1+json", "x1/y-z_0.9+q", "A/B!#$&^", mtEmpty,
	"a/" + strings.Repeat("b", 127), strings.Repeat("t", 127) + "/s"}
var invalidMTs = []string{"/b", "a/", "a", "a/b/c", "a b/c", "a/*", "a/b;q=1", "a/b=c", ".a/b", "a/-b", "a/" + strings.Repeat("b", 128), strings.Repeat("t", 128) + "/s", "application/vnd test", "text/plain\n", "é/x", "application/vnd.\u212aelvin", "a\u017f/b", "\u212a/x"}

var createdValid = []string{"2024-02-29T12:00:00Z", "1999-12-31T23:59:59+05:30", "2030-01-01T00:00:00.123456789-07:00", "2001-09-09T01:46:40.5Z"}
var createdInvalid = []string{"2024-02-29 12:00:00Z", "2024-13-01T00:00:00Z", "2024-01-01T00:00:00", "", "2024-01-01", "yesterday", "2024-02-30T00:00:00Z", "2024-01-01T25:00:00Z"}
var createdUnjudged = []string{"2016-12-31T23:59:60Z", "2024-01-01t00:00:00z", "2024-01-01T00:00:00,5Z"}

func genBlob(t *rapid.T, label string, mts []string) BlobRef {
	return BlobRef{MT: rapid.SampledFrom(mts).Draw(t, label+"MT"), Seed: rapid.IntRange(0, 5).Draw(t, label+"Seed"), Size: rapid.IntRange(0, 40).Draw(t, label+"Size"), Present: rapid.IntRange(0, 3).Draw(t, label+"Present") != 0}
}

// nearMT inserts one printable ASCII character into a short valid media type: the
// result is valid or not as the reference recogniser says (most insertions of
// punctuation are not).
func nearMT(t *rapid.T, label string) string {
	base := rapid.SampledFrom([]string{"application/vnd.demo.v1", "a/b", "x1/y-z_0.9+q", "text/plain"}).Draw(t, label+"Base")
	at := rapid.IntRange(0, len(base)).Draw(t, label+"At")
	ch := byte(rapid.IntRange(0x20, 0x7e).Draw(t, label+"Ch"))
	return base[:at] + string(ch) + base[at:]
}

func genCase(t *rapid.T) Case {
	c := Case{}
	c.API = rapid.SampledFrom([]string{"v1.0", "v1.0", "v1.1", "v1.1", "v1.1", "v1.1rc4", "v0", "v3", "pack-image", "pack-artifact"}).Draw(t, "api")
	switch rapid.IntRange(0, 9).Draw(t, "atClass") {
	case 0:
		c.ArtifactType = ""
	case 1:
		c.ArtifactType = rapid.SampledFrom(invalidMTs).Draw(t, "atInvalid")
	case 2:
		c.ArtifactType = nearMT(t, "atNear")
	default:
		c.ArtifactType = rapid.SampledFrom(validMTs).Draw(t, "atValid")
	}
	if rapid.IntRange(0, 2).Draw(t, "hasConfig") == 0 {
		mts := validMTs
		if rapid.IntRange(0, 4).Draw(t, "cfgInvalid") == 0 {
			mts = invalidMTs
		}
		b := genBlob(t, "cfg", mts)
		if rapid.IntRange(0, 5).Draw(t, "cfgNear") == 0 {
			b.MT = nearMT(t, "cfgNear")
		}
		if rapid.IntRange(0, 2).Draw(t, "cfgEmptyJSON") == 0 {
			// the caller's config is the two bytes "{}" (what v1.0 packing invents,
			// or an empty config under the caller's own media type)
			b.Raw, b.Size = "{}", 2
			if rapid.Bool().Draw(t, "cfgIsEmptyDescriptor") {
				// exactly ocispec.DescriptorEmptyJSON, pushed by the caller or not
				b.MT = mtEmpty
			}
		}
		c.Config = &b
	}
	if rapid.Bool().Draw(t, "hasCfgAnn") {
		c.ConfigAnn = map[string]string{"cfg": "ann"}
		if rapid.IntRange(0, 2).Draw(t, "cfgTitle") == 0 {
			// a named config: the file store keeps it under that name
			c.ConfigAnn["org.opencontainers.image.title"] = "config.json"
		}
	}
	switch rapid.IntRange(0, 4).Draw(t, "layersMode") {
	case 0:
		c.LayersNil = true
	case 1:
	default:
		n := rapid.IntRange(1, 5).Draw(t, "nLayers")
		for i := 0; i < n; i++ {
			if i > 0 && rapid.IntRange(0, 4).Draw(t, "dupLayer") == 0 {
				c.Layers = append(c.Layers, c.Layers[0])
				continue
			}
			l := genBlob(t, "layer", []string{"application/vnd.oci.image.layer.v1.tar", "application/octet-stream", "text/plain"})
			if rapid.IntRange(0, 3).Draw(t, "layerAnn") == 0 {
				l.Ann = map[string]string{"org.opencontainers.image.title": fmt.Sprintf("l%d.txt", i)}
			}
			c.Layers = append(c.Layers, l)
		}
	}
	if rapid.IntRange(0, 2).Draw(t, "hasSubject") == 0 {
		s := genBlob(t, "subj", []string{"application/vnd.oci.image.manifest.v1+json"})
		c.Subject = &s
	}
	switch rapid.IntRange(0, 3).Draw(t, "annMode") {
	case 0:
		c.AnnNil = true
	case 1:
		c.Ann = map[string]string{}
	default:
		c.Ann = map[string]string{"a": "1", "z": "é"}
	}
	switch rapid.IntRange(0, 9).Draw(t, "createdMode") {
	case 0, 1, 2, 3:
	case 4, 5, 6:
		c.Created, c.CreatedClass = rapid.SampledFrom(createdValid).Draw(t, "createdV"), "valid"
	case 7, 8:
		c.Created, c.CreatedClass = rapid.SampledFrom(createdInvalid).Draw(t, "createdI"), "invalid"
	default:
		c.Created, c.CreatedClass = rapid.SampledFrom(createdUnjudged).Draw(t, "createdU"), "unjudged"
	}
	if c.CreatedClass != "" && c.AnnNil {
		c.AnnNil = false
	}
	c.Target = rapid.SampledFrom([]string{"memory", "oci", "file", "file-cas", "pusher-only"}).Draw(t, "target")
	c.PreEmpty = rapid.IntRange(0, 3).Draw(t, "preEmpty") == 0
	if rapid.IntRange(0, 5).Draw(t, "fault") == 0 {
		c.FailPush = rapid.IntRange(1, 3).Draw(t, "failPush")
	}
	return c
}

// recorder is a content.Pusher (optionally a full Storage) that logs pushes.
type recorder struct {
	mu     sync.Mutex
	base   content.Storage
	pushes []ocispec.Descriptor
	failAt int // n-th push fails
	failed bool
}

var errInjected = errors.New("verif: injected push failure")

func (r *recorder) Push(ctx context.Context, d ocispec.Descriptor, rd io.Reader) error {
	r.mu.Lock()
	r.pushes = append(r.pushes, d)
	fail := r.failAt > 0 && len(r.pushes) == r.failAt
	if fail {
		r.failed = true
	}
	r.mu.Unlock()
	if fail {
		return fmt.Errorf("push %s: %w", d.Digest, errInjected)
	}
	return r.base.Push(ctx, d, rd)
}

type recorderStorage struct{ *recorder }

func (r recorderStorage) Fetch(ctx context.Context, d ocispec.Descriptor) (io.ReadCloser, error) {
	return r.base.Fetch(ctx, d)
}
func (r recorderStorage) Exists(ctx context.Context, d ocispec.Descriptor) (bool, error) {
	return r.base.Exists(ctx, d)
}

type artifactDoc struct {
	MediaType    string               `json:"mediaType"`
	ArtifactType string               `json:"artifactType"`
	Blobs        []ocispec.Descriptor `json:"blobs,omitempty"`
	Subject      *ocispec.Descriptor  `json:"subject,omitempty"`
	Annotations  map[string]string    `json:"annotations,omitempty"`
}

type expectation struct {
	reject      error // expected error class; nil = success
	rejectNote  string
	noPushAtAll bool // rejection must happen before anything is pushed
	unjudged    bool
	image       *ocispec.Manifest
	artifact    *artifactDoc
	createdKey  string
	invented    []ocispec.Descriptor // blobs the packer must have put into the target ({} content)
	retAT       string
}

func (c *Case) annotations() map[string]string {
	if c.AnnNil {
		return nil
	}
	m := map[string]string{}
	for k, v := range c.Ann {
		m[k] = v
	}
	return m
}

func emptyDesc() ocispec.Descriptor {
	// the image-spec "empty descriptor" carries its two bytes inline
	return ocispec.Descriptor{MediaType: mtEmpty, Digest: digest.FromBytes([]byte("{}")), Size: 2, Data: []byte("{}")}
}

// expect is the from-scratch reference for what a call must do.
func expect(c *Case) expectation {
	var e expectation
	layers := []ocispec.Descriptor{}
	for _, l := range c.Layers {
		layers = append(layers, l.desc())
	}
	var subject *ocispec.Descriptor
	if c.Subject != nil {
		d := c.Subject.desc()
		subject = &d
	}
	ann := c.annotations()
	e.createdKey = annCreated
	if c.API == "pack-artifact" {
		e.createdKey = annArtCreated
	}
	if c.CreatedClass != "" {
		if ann == nil {
			ann = map[string]string{}
		}
		ann[e.createdKey] = c.Created
	}
	createdCheck := func() {
		switch c.CreatedClass {
		case "invalid":
			if e.reject == nil {
				e.reject = oras.ErrInvalidDateTimeFormat
				e.rejectNote = "malformed created time"
			}
		case "unjudged":
			e.unjudged = true
		}
	}
	customConfig := func(mt string) ocispec.Descriptor {
		return ocispec.Descriptor{MediaType: mt, Digest: digest.FromBytes([]byte("{}")), Size: 2, Annotations: c.ConfigAnn}
	}
	switch c.API {
	case "v0", "v3":
		e.reject, e.noPushAtAll, e.rejectNote = errdef.ErrUnsupported, true, "unsupported pack version"
		return e
	case "v1.0":
		if subject != nil {
			e.reject, e.noPushAtAll, e.rejectNote = errdef.ErrUnsupported, true, "subject with version 1.0"
			return e
		}
		var cfg ocispec.Descriptor
		if c.Config != nil {
			if !validMediaType(c.Config.MT) {
				e.reject, e.noPushAtAll, e.rejectNote = errdef.ErrInvalidMediaType, true, "invalid config media type"
				return e
			}
			cfg = c.Config.desc()
		} else {
			at := c.ArtifactType
			if at == "" {
				at = mtUnknownConfig
			} else if !validMediaType(at) {
				e.reject, e.noPushAtAll, e.rejectNote = errdef.ErrInvalidMediaType, true, "invalid artifact type"
				return e
			}
			cfg = customConfig(at)
			e.invented = append(e.invented, cfg)
		}
		createdCheck()
		m := ocispec.Manifest{MediaType: gen.MTImage, Config: cfg, Layers: layers, Annotations: ann}
		m.SchemaVersion = 2
		e.image = &m
		e.retAT = cfg.MediaType
	case "v1.1", "v1.1rc4":
		if c.ArtifactType == "" && (c.Config == nil || c.Config.MT == mtEmpty) {
			e.reject, e.noPushAtAll, e.rejectNote = oras.ErrMissingArtifactType, true, "missing artifact type"
			return e
		}
		if c.ArtifactType != "" && !validMediaType(c.ArtifactType) {
			e.reject, e.noPushAtAll, e.rejectNote = errdef.ErrInvalidMediaType, true, "invalid artifact type"
			return e
		}
		var cfg ocispec.Descriptor
		if c.Config != nil {
			if !validMediaType(c.Config.MT) {
				e.reject, e.noPushAtAll, e.rejectNote = errdef.ErrInvalidMediaType, true, "invalid config media type"
				return e
			}
			cfg = c.Config.desc()
		} else {
			cfg = emptyDesc()
			cfg.Annotations = c.ConfigAnn
			e.invented = append(e.invented, emptyDesc())
		}
		createdCheck()
		if len(layers) == 0 {
			layers = []ocispec.Descriptor{emptyDesc()}
			e.invented = append(e.invented, emptyDesc())
		}
		m := ocispec.Manifest{MediaType: gen.MTImage, Config: cfg, Layers: layers, Subject: subject, ArtifactType: c.ArtifactType, Annotations: ann}
		m.SchemaVersion = 2
		e.image = &m
		e.retAT = c.ArtifactType
	case "pack-image":
		at := c.ArtifactType
		if at == "" {
			at = mtUnknownConfig
		}
		var cfg ocispec.Descriptor
		if c.Config != nil {
			cfg = c.Config.desc()
		} else {
			cfg = customConfig(at)
			e.invented = append(e.invented, cfg)
		}
		createdCheck()
		m := ocispec.Manifest{MediaType: gen.MTImage, Config: cfg, Layers: layers, Subject: subject, Annotations: ann}
		m.SchemaVersion = 2
		e.image = &m
		e.retAT = cfg.MediaType
	case "pack-artifact":
		at := c.ArtifactType
		if at == "" {
			at = mtUnknownArtifac
		}
		createdCheck()
		var blobs []ocispec.Descriptor
		if len(c.Layers) > 0 || !c.LayersNil {
			blobs = layers
		}
		if len(blobs) == 0 {
			blobs = nil
		}
		e.artifact = &artifactDoc{MediaType: gen.MTArtifact, ArtifactType: at, Blobs: blobs, Subject: subject, Annotations: ann}
		e.retAT = at
	}
	return e
}

func call(ctx context.Context, c *Case, p content.Pusher) (ocispec.Descriptor, error) {
	var layers []ocispec.Descriptor
	if !c.LayersNil || len(c.Layers) > 0 {
		layers = []ocispec.Descriptor{}
		for _, l := range c.Layers {
			layers = append(layers, l.desc())
		}
	}
	var subject, config *ocispec.Descriptor
	if c.Subject != nil {
		d := c.Subject.desc()
		subject = &d
	}
	if c.Config != nil {
		d := c.Config.desc()
		config = &d
	}
	ann := c.annotations()
	if c.CreatedClass != "" {
		key := annCreated
		if c.API == "pack-artifact" {
			key = annArtCreated
		}
		if ann == nil {
			ann = map[string]string{}
		}
		ann[key] = c.Created
	}
	switch c.API {
	case "pack-image", "pack-artifact":
		return oras.Pack(ctx, p, c.ArtifactType, layers, oras.PackOptions{Subject: subject, ManifestAnnotations: ann, PackImageManifest: c.API == "pack-image", ConfigDescriptor: config, ConfigAnnotations: c.ConfigAnn})
	}
	ver := map[string]oras.PackManifestVersion{"v1.0": oras.PackManifestVersion1_0, "v1.1": oras.PackManifestVersion1_1, "v1.1rc4": oras.PackManifestVersion1_1_RC4, "v0": 0, "v3": 3}[c.API]
	return oras.PackManifest(ctx, p, ver, c.ArtifactType, oras.PackManifestOptions{Subject: subject, Layers: layers, ManifestAnnotations: ann, ConfigDescriptor: config, ConfigAnnotations: c.ConfigAnn})
}

func newTarget(kind, dir string) (content.Storage, func(), error) {
	switch kind {
	case "oci":
		s, err := oci.New(dir)
		return s, func() {}, err
	case "file", "file-cas":
		s, err := file.New(dir)
		if err != nil {
			return nil, nil, err
		}
		s.ForceCAS = kind == "file-cas"
		return s, func() { s.Close() }, nil
	}
	return memory.New(), func() {}, nil
}

func runCase(c Case) (res vt.Result, fail *vt.Fail) {
	ctx := context.Background()
	root := vt.Scratch("c19-")
	defer os.RemoveAll(root)
	base, closeFn, err := newTarget(c.Target, filepath.Join(root, "t"))
	if err != nil {
		return res, vt.Failf("harness/target", "%v", err)
	}
	defer closeFn()
	// populate caller-supplied content
	supplied := []*BlobRef{}
	if c.Config != nil {
		supplied = append(supplied, c.Config)
	}
	if c.Subject != nil {
		supplied = append(supplied, c.Subject)
	}
	for i := range c.Layers {
		supplied = append(supplied, &c.Layers[i])
	}
	allPresent := true
	for _, b := range supplied {
		if !b.Present {
			allPresent = false
			continue
		}
		d := b.desc()
		if c.Target != "file-cas" {
			// (a file store that does not restore duplicates must be given the
			// blob under the name the manifest will use)
			d.Annotations = nil
		}
		if d.MediaType == gen.MTImage {
			// a subject must be a manifest; it is only referenced, store it as an opaque blob elsewhere
			continue
		}
		if err := base.Push(ctx, d, bytes.NewReader(b.bytes())); err != nil && !errors.Is(err, errdef.ErrAlreadyExists) && !errors.Is(err, file.ErrDuplicateName) {
			return res, vt.Failf("harness/prepush", "%v", err)
		}
	}
	if c.PreEmpty {
		ed := emptyDesc()
		ed.Data = nil
		if err := base.Push(ctx, ed, strings.NewReader("{}")); err != nil && !errors.Is(err, errdef.ErrAlreadyExists) {
			return res, vt.Failf("harness/prepush", "%v", err)
		}
	}
	rec := &recorder{base: base, failAt: c.FailPush}
	var pusher content.Pusher = recorderStorage{rec}
	if c.Target == "pusher-only" {
		pusher = rec
	}
	exp := expect(&c)
	t0 := time.Now().Add(-2 * time.Second)
	desc, err := call(ctx, &c, pusher)
	t1 := time.Now().Add(2 * time.Second)

	res.Classes = append(res.Classes, "api-"+c.API, "target-"+c.Target)
	if exp.reject != nil {
		res.Classes = append(res.Classes, "expect-reject: "+exp.rejectNote)
		res.NonTrivial = true
	} else if len(exp.invented) > 0 || c.Subject != nil {
		res.NonTrivial = true
		res.Classes = append(res.Classes, "success-with-placeholder-or-subject")
	}
	if exp.unjudged {
		res.Classes = append(res.Classes, "created-acceptance-unjudged")
		if err != nil {
			return res, nil
		}
	}
	manifestPushed := func() bool {
		for _, p := range rec.pushes {
			if gen.IsManifestMT(p.MediaType) {
				return true
			}
		}
		return false
	}
	if rec.failed {
		// a push the packer needed failed: the call must not report success
		res.NonTrivial = true
		res.Classes = append(res.Classes, fmt.Sprintf("push-%d-failed", c.FailPush))
		if err == nil {
			return res, vt.Failf("C19/push-failure-swallowed", "%s returned %s although push number %d (%s) failed", c.API, desc.Digest, c.FailPush, rec.pushes[c.FailPush-1].MediaType)
		}
		if !errors.Is(err, errInjected) && exp.reject == nil {
			return res, vt.Failf("C19/push-failure-replaced", "%s: push number %d failed but the call returned another error: %v", c.API, c.FailPush, err)
		}
		return res, nil
	}
	if exp.reject != nil {
		if err == nil {
			return res, vt.Failf("C19/accepted-invalid-input", "%s succeeded although the input must be rejected (%s)", c.API, exp.rejectNote)
		}
		if !errors.Is(err, exp.reject) {
			return res, vt.Failf("C19/wrong-rejection-class", "%s: %v; expected error class %v (%s)", c.API, err, exp.reject, exp.rejectNote)
		}
		if exp.noPushAtAll && len(rec.pushes) > 0 {
			return res, vt.Failf("C19/pushed-before-rejecting", "%s rejected the input (%s) but had already pushed %d blob(s): %v", c.API, exp.rejectNote, len(rec.pushes), rec.pushes[0].MediaType)
		}
		if manifestPushed() {
			return res, vt.Failf("C19/manifest-pushed-before-rejecting", "%s rejected the input (%s) after pushing a manifest", c.API, exp.rejectNote)
		}
		return res, nil
	}
	if err != nil {
		return res, vt.Failf("C19/rejected-valid-input", "%s failed on valid input: %v", c.API, err)
	}
	// stored bytes
	var stored []byte
	for i := len(rec.pushes) - 1; i >= 0; i-- {
		if rec.pushes[i].Digest == desc.Digest {
			b, ferr := gen.ReadBack(ctx, base, ocispec.Descriptor{MediaType: desc.MediaType, Digest: desc.Digest, Size: desc.Size})
			if ferr != nil {
				return res, vt.Failf("C19/result-not-stored", "Fetch of the returned descriptor failed: %v", ferr)
			}
			stored = b
			break
		}
	}
	if stored == nil {
		return res, vt.Failf("C19/result-not-pushed", "no push with the returned digest %s was observed", desc.Digest)
	}
	if digest.FromBytes(stored) != desc.Digest || int64(len(stored)) != desc.Size {
		return res, vt.Failf("C19/descriptor-does-not-match-stored-bytes", "returned %s/%d, stored bytes hash to %s/%d", desc.Digest, desc.Size, digest.FromBytes(stored), len(stored))
	}
	dec := json.NewDecoder(bytes.NewReader(stored))
	dec.DisallowUnknownFields()
	var gotAnn map[string]string
	if exp.image != nil {
		if desc.MediaType != gen.MTImage {
			return res, vt.Failf("C19/media-type", "returned media type %s", desc.MediaType)
		}
		var got ocispec.Manifest
		if err := dec.Decode(&got); err != nil {
			return res, vt.Failf("C19/manifest-unparsable", "%v", err)
		}
		gotAnn = got.Annotations
		want := *exp.image
		if f := fixCreated(&got.Annotations, &want.Annotations, exp.createdKey, c.CreatedClass, t0, t1); f != nil {
			return res, f
		}
		if !reflect.DeepEqual(normM(got), normM(want)) {
			gj, _ := json.Marshal(got)
			wj, _ := json.Marshal(want)
			return res, vt.Failf("C19/manifest-content", "stored manifest differs from the requested one:\n got  %s\n want %s", gj, wj)
		}
	} else {
		if desc.MediaType != gen.MTArtifact {
			return res, vt.Failf("C19/media-type", "returned media type %s", desc.MediaType)
		}
		var got artifactDoc
		if err := dec.Decode(&got); err != nil {
			return res, vt.Failf("C19/manifest-unparsable", "%v", err)
		}
		gotAnn = got.Annotations
		want := *exp.artifact
		if f := fixCreated(&got.Annotations, &want.Annotations, exp.createdKey, c.CreatedClass, t0, t1); f != nil {
			return res, f
		}
		if len(got.Blobs) == 0 {
			got.Blobs = nil
		}
		if !reflect.DeepEqual(got, want) {
			gj, _ := json.Marshal(got)
			wj, _ := json.Marshal(want)
			return res, vt.Failf("C19/manifest-content", "stored artifact manifest differs:\n got  %s\n want %s", gj, wj)
		}
	}
	if desc.ArtifactType != exp.retAT {
		return res, vt.Failf("C19/returned-artifact-type", "returned ArtifactType %q, expected %q", desc.ArtifactType, exp.retAT)
	}
	if !reflect.DeepEqual(nilIfEmpty(desc.Annotations), nilIfEmpty(gotAnn)) {
		return res, vt.Failf("C19/returned-annotations", "returned annotations %v differ from the stored manifest's %v", desc.Annotations, gotAnn)
	}
	for _, inv := range exp.invented {
		q := inv
		q.Annotations = nil
		q.Data = nil
		b, ferr := gen.ReadBack(ctx, base, q)
		if ferr != nil {
			return res, vt.Failf("C19/invented-blob-missing", "placeholder/config blob %s %s that the packer invented is not in the target: %v", inv.MediaType, inv.Digest, ferr)
		}
		if string(b) != "{}" {
			return res, vt.Failf("C19/invented-blob-content", "placeholder blob holds %q", b)
		}
	}
	// the result can be copied when everything the caller referenced is there
	if allPresent && c.Subject == nil && c.Target != "pusher-only" {
		dst := memory.New()
		if err := oras.CopyGraph(ctx, recorderStorage{rec}, dst, desc, oras.DefaultCopyGraphOptions); err != nil {
			return res, vt.Failf("C19/result-not-copyable", "CopyGraph of the packed manifest failed: %v", err)
		}
		res.Classes = append(res.Classes, "copied")
	}
	// determinism with a fixed created value
	if c.CreatedClass == "valid" {
		base2, close2, err := newTarget("memory", "")
		if err == nil {
			defer close2()
			for _, b := range supplied {
				_ = b
			}
			d2, err2 := call(ctx, &c, recorderStorage{&recorder{base: base2}})
			if err2 != nil || d2.Digest != desc.Digest || d2.Size != desc.Size {
				return res, vt.Failf("C19/not-deterministic", "same inputs with a fixed created time gave %s then %s (err %v)", desc.Digest, d2.Digest, err2)
			}
			// and once more into the SAME target, which now holds the manifest: the
			// returned descriptor is the same in every field
			if c.Target != "pusher-only" {
				d3, err3 := call(ctx, &c, recorderStorage{&recorder{base: base}})
				if err3 != nil || !reflect.DeepEqual(normD(d3), normD(desc)) {
					return res, vt.Failf("C19/not-deterministic", "packing the same inputs (fixed created time) again into the same target returned %+v (err %v), the first call returned %+v", d3, err3, desc)
				}
				res.Classes = append(res.Classes, "repacked-into-same-target")
			}
			res.Classes = append(res.Classes, "determinism-checked")
		}
	}
	return res, nil
}

func normD(d ocispec.Descriptor) ocispec.Descriptor {
	d.Annotations = nilIfEmpty(d.Annotations)
	return d
}

func nilIfEmpty(m map[string]string) map[string]string {
	if len(m) == 0 {
		return nil
	}
	return m
}

func normM(m ocispec.Manifest) ocispec.Manifest {
	if len(m.Annotations) == 0 {
		m.Annotations = nil
	}
	if m.Layers == nil {
		m.Layers = []ocispec.Descriptor{}
	}
	return m
}

// fixCreated validates a filled-in created annotation and copies it into want.
func fixCreated(got, want *map[string]string, key, class string, t0, t1 time.Time) *vt.Fail {
	if class != "" {
		return nil
	}
	v, ok := (*got)[key]
	if !ok {
		return vt.Failf("C19/created-missing", "no %s annotation was filled in", key)
	}
	ts, err := time.Parse(time.RFC3339, v)
	if err != nil {
		return vt.Failf("C19/created-malformed", "filled-in created %q is not RFC 3339: %v", v, err)
	}
	if ts.Before(t0.Truncate(time.Second)) || ts.After(t1) {
		return vt.Failf("C19/created-not-now", "filled-in created %q is outside the call's time window", v)
	}
	if *want == nil {
		*want = map[string]string{}
	}
	(*want)[key] = v
	return nil
}

func TestMain(m *testing.M) {
	vt.Main(m, "C19", vt.NewLeg("main", 4000, 10000, 16, genCase, runCase))
}

func TestLegs(t *testing.T)   { vt.TestLegs(t) }
func TestReplay(t *testing.T) { vt.TestReplay(t) }
