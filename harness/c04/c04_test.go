package c04

import (
	"errors"
	"fmt"
	"testing"
	"time"

	"pgregory.net/rapid"

	"verif/harness/copyx"
	"verif/harness/gen"
	"verif/harness/inst"
	"verif/harness/vt"
)

var kinds = []string{"memory", "memory", "oci"}

// rootsOverlap: ExtendedCopyGraph with Depth 1 from N, whose predecessors are an
// index A over N and B, and B itself (a referrer of N): B is a root and a successor
// of the root A. The destination holds B's graph (so B and N) but not A.
func rootsOverlap(t *rapid.T) copyx.Case {
	var specs []gen.NodeSpec
	add := func(s gen.NodeSpec) int { specs = append(specs, s); return len(specs) - 1 }
	blob := func() int {
		return add(gen.NodeSpec{Kind: gen.KBlob, Seed: 700 + len(specs), Size: 4 + len(specs), MT: "application/octet-stream"})
	}
	cfg := blob()
	n := add(gen.NodeSpec{Kind: gen.KImage, Config: &gen.Ref{N: cfg}, Layers: []gen.Ref{{N: blob()}}})
	var bs []int
	for i := rapid.IntRange(1, 3).Draw(t, "referrers"); i > 0; i-- {
		bs = append(bs, add(gen.NodeSpec{Kind: gen.KImage, Config: &gen.Ref{N: cfg}, Layers: []gen.Ref{{N: blob()}}, Subject: &gen.Ref{N: n}, ArtifactType: "application/vnd.verif.sig"}))
	}
	kids := []gen.Ref{{N: n}}
	for _, b := range bs {
		if rapid.Bool().Draw(t, "listed") || b == bs[0] {
			kids = append(kids, gen.Ref{N: b})
		}
	}
	add(gen.NodeSpec{Kind: gen.KIndex, Layers: rapid.Permutation(kids).Draw(t, "order")})
	c := copyx.Case{Specs: specs, Root: n, SrcKind: "memory", DstKind: rapid.SampledFrom([]string{"memory", "oci"}).Draw(t, "dstKind"), API: "extcopygraph", Depth: 1, Callbacks: true}
	c.Conc = rapid.SampledFrom([]int{1, 2, 3, 0}).Draw(t, "conc")
	c.LatSeed = rapid.IntRange(1, 1<<20).Draw(t, "latSeed")
	d := gen.Build(specs)
	pre := map[int]bool{}
	for _, b := range bs {
		if rapid.Bool().Draw(t, "prePopulated") || b == bs[0] {
			for id := range d.Reach(b, true) {
				pre[id] = true
			}
		}
	}
	c.Pre = gen.SortedKeys(pre)
	return c
}

func genCase(t *rapid.T) copyx.Case {
	if rapid.IntRange(0, 11).Draw(t, "rootsOverlap") == 0 {
		return rootsOverlap(t)
	}
	max := 14
	if vt.Thorough() {
		max = 28
	}
	c := copyx.GenBase(t, gen.DAGOpts{MaxNodes: max, Referrers: rapid.Bool().Draw(t, "referrers"), Wide: true, NoDupChild: true, AliasToOCI: true, FewBytes: rapid.IntRange(0, 3).Draw(t, "fewBytes") == 0}, kinds, kinds)
	d := gen.Build(c.Specs)
	c.API = rapid.SampledFrom([]string{"copygraph", "copy", "extcopygraph"}).Draw(t, "api")
	c.Callbacks = true
	c.Conc = rapid.SampledFrom([]int{1, 2, 3, 4, 6, 0}).Draw(t, "conc4")
	c.LatSeed = rapid.IntRange(1, 1<<20).Draw(t, "latSeed4")
	c.CustomFind = rapid.IntRange(0, 2).Draw(t, "customFind") == 0
	c.FindBypass = c.CustomFind && rapid.Bool().Draw(t, "findBypass")
	if c.API != "extcopygraph" {
		c.Pre = copyx.GenPre(t, d, d.Reach(c.Root, true), c.Root)
	} else {
		// a depth limit makes roots of nodes that other roots reach as successors;
		// the destination may hold any link-closed part of the source beforehand
		c.Depth = rapid.SampledFrom([]int{0, 0, 1, 2}).Draw(t, "depth4")
		if rapid.Bool().Draw(t, "extPre") {
			universe := map[int]bool{}
			for _, id := range d.CanonIDs() {
				if !d.Nodes[id].Spec.Absent {
					universe[id] = true
				}
			}
			c.Pre = copyx.GenPre(t, d, universe, c.Root)
		}
	}
	if rapid.IntRange(0, 3).Draw(t, "cbError") == 0 {
		ids := gen.SortedKeys(d.Reach(c.Root, true))
		n := rapid.SampledFrom(ids).Draw(t, "cbNode")
		pre := false
		for _, p := range c.Pre {
			if p == n {
				pre = true
			}
		}
		op := rapid.SampledFrom([]string{"PreCopy", "PostCopy"}).Draw(t, "cbOp")
		if pre {
			op = "OnCopySkipped"
		}
		c.Faults = []inst.Fault{{Side: "cb", Op: op, Node: n, When: "before", Kind: "error"}}
	}
	return c
}

// genDiamond (as in C02, with a failing callback instead of a storage fault): a root index over 2-4 parents that all share one node (a layer, or a
// whole image), every parent with a few nodes of its own; one fault on the shared
// node or on something below it; heavy latency. The shape in which one parent owns
// the failing node while the others wait for it.
func genDiamond(t *rapid.T) copyx.Case {
	var specs []gen.NodeSpec
	blob := func(size int) int {
		specs = append(specs, gen.NodeSpec{Kind: gen.KBlob, Seed: 200 + len(specs), Size: size, MT: "application/octet-stream"})
		return len(specs) - 1
	}
	sharedIsManifest := rapid.Bool().Draw(t, "sharedIsManifest")
	var shared, below int
	if sharedIsManifest {
		cfg := blob(7)
		below = blob(rapid.IntRange(1, 40).Draw(t, "belowSize"))
		specs = append(specs, gen.NodeSpec{Kind: gen.KImage, Config: &gen.Ref{N: cfg}, Layers: []gen.Ref{{N: below}}})
		shared = len(specs) - 1
	} else {
		shared = blob(rapid.IntRange(1, 40).Draw(t, "sharedSize"))
		below = shared
	}
	k := rapid.IntRange(2, 4).Draw(t, "parents")
	var parents []gen.Ref
	for i := 0; i < k; i++ {
		own := rapid.IntRange(0, 3).Draw(t, "own")
		if sharedIsManifest {
			var kids []gen.Ref
			for j := 0; j < own; j++ {
				cfg := blob(5)
				specs = append(specs, gen.NodeSpec{Kind: gen.KImage, Config: &gen.Ref{N: cfg}})
				kids = append(kids, gen.Ref{N: len(specs) - 1})
			}
			pos := rapid.IntRange(0, len(kids)).Draw(t, "sharedPos")
			kids = append(kids[:pos], append([]gen.Ref{{N: shared}}, kids[pos:]...)...)
			specs = append(specs, gen.NodeSpec{Kind: gen.KIndex, Layers: kids})
		} else {
			cfg := blob(6)
			var layers []gen.Ref
			for j := 0; j < own; j++ {
				layers = append(layers, gen.Ref{N: blob(rapid.IntRange(1, 30).Draw(t, "ownSize"))})
			}
			pos := rapid.IntRange(0, len(layers)).Draw(t, "sharedPos")
			layers = append(layers[:pos], append([]gen.Ref{{N: shared}}, layers[pos:]...)...)
			specs = append(specs, gen.NodeSpec{Kind: gen.KImage, Config: &gen.Ref{N: cfg}, Layers: layers})
		}
		parents = append(parents, gen.Ref{N: len(specs) - 1})
	}
	specs = append(specs, gen.NodeSpec{Kind: gen.KIndex, Layers: parents})
	c := copyx.Case{Specs: specs, Root: len(specs) - 1, SrcKind: "memory", DstKind: rapid.SampledFrom([]string{"memory", "oci"}).Draw(t, "dstKind")}
	c.API = rapid.SampledFrom([]string{"copygraph", "copy"}).Draw(t, "api")
	c.Conc = rapid.SampledFrom([]int{2, 3, 4, 0}).Draw(t, "conc")
	c.Callbacks = true
	c.LatSeed = rapid.IntRange(1, 1<<20).Draw(t, "latSeed")
	// the shared node's own transfer fails in a callback (or, for the node below it,
	// the failure comes up from a successor)
	node := rapid.SampledFrom([]int{shared, shared, shared, below}).Draw(t, "faultNode")
	op := rapid.SampledFrom([]string{"PreCopy", "PreCopy", "PostCopy"}).Draw(t, "cbOp")
	c.Faults = []inst.Fault{{Side: "cb", Op: op, Node: node, When: "before", Kind: "error"}}
	if rapid.IntRange(0, 2).Draw(t, "sharedPresent") == 1 {
		// no failure: the shared node (and what is below it) is in the destination
		// already, so its terminal notification is an OnCopySkipped - which every
		// parent has to wait for, not only the one that looked the node up
		d := gen.Build(c.Specs)
		c.Pre = gen.SortedKeys(d.Reach(shared, true))
		c.Faults = nil
	}
	return c
}

type nodeLog struct {
	termEnd            int64        // seq of the end of the first successful PostCopy / OnCopySkipped
	pre, post, skipped []inst.Event // callback begin events
	pushBegin, pushEnd []inst.Event
	fetchBegin         []inst.Event
	pushOK             int
}

func runCase(c copyx.Case) (res vt.Result, fail *vt.Fail) {
	e, f := copyx.Setup(&c)
	if f != nil {
		return res, f
	}
	defer e.Close()
	e.Rec.Heavy = true
	e.Rec.SlowCallbacks = c.LatSeed%2 == 0
	if len(c.Pre) > 0 && len(c.Pre) <= 4 {
		// long enough for a parent that was released too early to overtake it
		e.Rec.SlowSkipped = 5 * time.Millisecond
	}
	d := e.D
	var out copyx.Outcome
	fin, _ := vt.Watch(60*time.Second, func() { out = e.Invoke(true) })
	if !fin {
		vt.Infra("copy call did not return within 60 s (see C02)")
	}
	limit := c.Conc
	if limit <= 0 {
		limit = 3
	}
	evs := e.Rec.Snapshot()
	byKey := map[string]int{}
	for _, id := range d.CanonIDs() {
		byKey[gen.TripleKey(d.Nodes[id].Desc)] = id
	}
	logs := map[int]*nodeLog{}
	get := func(id int) *nodeLog {
		if logs[id] == nil {
			logs[id] = &nodeLog{}
		}
		return logs[id]
	}
	for _, ev := range evs {
		id, ok := byKey[ev.Node]
		if !ok {
			continue
		}
		l := get(id)
		switch {
		case ev.Side == "cb" && ev.Ph == "begin" && ev.Op == "PreCopy":
			l.pre = append(l.pre, ev)
		case ev.Side == "cb" && ev.Ph == "begin" && ev.Op == "PostCopy":
			l.post = append(l.post, ev)
		case ev.Side == "cb" && ev.Ph == "begin" && ev.Op == "OnCopySkipped":
			l.skipped = append(l.skipped, ev)
		case ev.Side == "cb" && ev.Ph == "end" && (ev.Op == "PostCopy" || ev.Op == "OnCopySkipped") && !ev.Err:
			if l.termEnd == 0 {
				l.termEnd = ev.Seq
			}
		case ev.Side == "dst" && ev.Op == "Push" && ev.Ph == "begin":
			l.pushBegin = append(l.pushBegin, ev)
		case ev.Side == "dst" && ev.Op == "Push" && ev.Ph == "end":
			l.pushEnd = append(l.pushEnd, ev)
			if !ev.Err {
				l.pushOK++
			}
		case ev.Side == "src" && ev.Op == "Fetch" && ev.Ph == "begin":
			l.fetchBegin = append(l.fetchBegin, ev)
		}
	}
	transferred, leaves := 0, 0
	for id, l := range logs {
		if l.pushOK > 0 {
			transferred++
			if len(d.Nodes[id].Edges) == 0 {
				leaves++
			}
		}
	}
	pressure := e.Rec.MaxSrc == limit || e.Rec.MaxDst == limit
	res.NonTrivial = transferred >= 4 && limit < leaves && pressure
	res.Classes = append(res.Classes, "api-"+c.API, fmt.Sprintf("conc-%d", c.Conc))
	if pressure {
		res.Classes = append(res.Classes, "high-water-reached-limit")
	}
	if len(c.Faults) > 0 && e.Rec.AnyFired() {
		res.Classes = append(res.Classes, "callback-error-fired-"+c.Faults[0].Op)
	}

	// 1. bounded concurrency
	if e.Rec.MaxSrc > limit {
		return res, vt.Failf("C04/source-reads-exceed-concurrency", "%d source reads were open at once, Concurrency=%d (effective %d)", e.Rec.MaxSrc, c.Conc, limit)
	}
	if e.Rec.MaxDst > limit {
		return res, vt.Failf("C04/destination-ops-exceed-concurrency", "%d destination operations were in flight at once, Concurrency=%d (effective %d)", e.Rec.MaxDst, c.Conc, limit)
	}
	// 2. single transfer
	for _, id := range gen.SortedKeys(keysOf(logs)) {
		l := logs[id]
		if !d.IsManifest(id) && len(l.fetchBegin) > 1 {
			return res, vt.Failf("C04/blob-fetched-twice", "blob node %d was fetched from the source %d times", id, len(l.fetchBegin))
		}
		if len(l.pushBegin) > 1 {
			return res, vt.Failf("C04/pushed-twice", "node %d (%s) was pushed to the destination %d times", id, d.Nodes[id].Spec.Kind, len(l.pushBegin))
		}
		// 3. callbacks per node
		if len(l.pre) > 1 || len(l.post) > 1 || len(l.skipped) > 1 {
			return res, vt.Failf("C04/callback-repeated", "node %d: PreCopy x%d PostCopy x%d OnCopySkipped x%d", id, len(l.pre), len(l.post), len(l.skipped))
		}
		if len(l.skipped) > 0 && (len(l.pre) > 0 || len(l.post) > 0 || len(l.pushBegin) > 0) {
			return res, vt.Failf("C04/skipped-and-copied", "node %d got OnCopySkipped and also PreCopy/PostCopy/Push", id)
		}
		if len(l.post) > 0 && len(l.pre) == 0 {
			return res, vt.Failf("C04/postcopy-without-precopy", "node %d got PostCopy without PreCopy", id)
		}
		if len(l.post) > 0 && l.post[0].Seq < l.pre[0].Seq {
			return res, vt.Failf("C04/postcopy-before-precopy", "node %d", id)
		}
		if len(l.pushBegin) > 0 {
			if len(l.pre) == 0 || l.pre[0].Seq > l.pushBegin[0].Seq {
				return res, vt.Failf("C04/push-before-precopy", "node %d was pushed without a preceding PreCopy", id)
			}
			if len(l.post) > 0 && len(l.pushEnd) > 0 && l.post[0].Seq < l.pushEnd[0].Seq {
				return res, vt.Failf("C04/postcopy-before-push-finished", "node %d: PostCopy ran before its push returned", id)
			}
		}
		if out.Err == nil && len(l.pre) == 1 && len(l.post) != 1 {
			return res, vt.Failf("C04/precopy-without-postcopy", "node %d got PreCopy and the copy succeeded, but it got %d PostCopy calls (a node whose push the destination answers with already-exists is still a transferred node)", id, len(l.post))
		}
		if out.Err == nil && l.pushOK > 0 && len(l.post) != 1 {
			return res, vt.Failf("C04/transferred-without-postcopy", "node %d was transferred but got %d PostCopy calls on a successful copy", id, len(l.post))
		}
		// 4. a node's PostCopy comes after the terminal notification of each successor
		if len(l.post) > 0 {
			seen := map[int]bool{}
			for _, ed := range d.Nodes[id].Edges {
				if ed.Foreign || seen[ed.To] {
					continue
				}
				seen[ed.To] = true
				cl := logs[ed.To]
				var term *inst.Event
				if cl != nil && len(cl.post) > 0 {
					term = &cl.post[0]
				} else if cl != nil && len(cl.skipped) > 0 {
					term = &cl.skipped[0]
				}
				if term == nil {
					return res, vt.Failf("C04/postcopy-without-successor-terminal", "node %d got PostCopy but its %s successor %d got neither PostCopy nor OnCopySkipped", id, ed.Role, ed.To)
				}
				if cl.termEnd > l.post[0].Seq {
					return res, vt.Failf("C04/postcopy-before-successor-terminal", "node %d: PostCopy began (seq %d) before the terminal notification of successor %d had returned (seq %d)", id, l.post[0].Seq, ed.To, cl.termEnd)
				}
				if term.Seq > l.post[0].Seq {
					return res, vt.Failf("C04/postcopy-before-successor-terminal", "node %d: PostCopy (seq %d) before the terminal notification of successor %d (seq %d)", id, l.post[0].Seq, ed.To, term.Seq)
				}
			}
		}
	}
	// 5. callback error aborts the copy with that error
	if len(c.Faults) > 0 && e.Rec.AnyFired() {
		if out.Err == nil || !errors.Is(out.Err, inst.ErrInjected) {
			return res, vt.Failf("C04/callback-error-not-returned", "callback %s at node %d returned an error but the copy returned %v", c.Faults[0].Op, c.Faults[0].Node, out.Err)
		}
		bad := d.Nodes[c.Faults[0].Node].Canon
		// "ancestor" as the copy sees it: a node already in the destination ends the
		// traversal (its sub-graph is not visited), so a path through such a node
		// does not make its upper end wait for anything below it
		preSet := map[int]bool{}
		for _, p := range c.Pre {
			preSet[d.Nodes[p].Canon] = true
		}
		reachCut := func(from int) map[int]bool {
			seen := map[int]bool{from: true}
			stack := []int{from}
			for len(stack) > 0 {
				x := stack[len(stack)-1]
				stack = stack[:len(stack)-1]
				if x != from && preSet[x] {
					continue
				}
				for _, ed := range d.Nodes[x].Edges {
					if !ed.Foreign && !seen[ed.To] {
						seen[ed.To] = true
						stack = append(stack, ed.To)
					}
				}
			}
			return seen
		}
		for id, l := range logs {
			if id != bad && len(l.post) > 0 && reachCut(id)[bad] {
				return res, vt.Failf("C04/ancestor-postcopy-after-callback-error", "node %d, an ancestor of node %d whose %s failed, still got PostCopy", id, bad, c.Faults[0].Op)
			}
		}
	} else if out.Err != nil {
		return res, vt.Failf("C04/fault-free-copy-failed", "%s failed: %v", c.API, out.Err)
	}
	return res, nil
}

func keysOf(m map[int]*nodeLog) map[int]bool {
	out := map[int]bool{}
	for k := range m {
		out[k] = true
	}
	return out
}

func TestMain(m *testing.M) {
	vt.ReplayRepeat["diamond"] = 40
	vt.Main(m, "C04",
		vt.NewLeg("main", 1200, 3000, 16, genCase, runCase),
		vt.NewLeg("mount", 500, 2000, 8, genMount, runMount),
		vt.NewLeg("diamond", 400, 1500, 4, genDiamond, runCase),
	)
}

func TestLegs(t *testing.T)   { vt.TestLegs(t) }
func TestReplay(t *testing.T) { vt.TestReplay(t) }
