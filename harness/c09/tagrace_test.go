package c09

import (
	"bytes"
	"context"
	"errors"
	"fmt"
	"os"
	"path/filepath"
	"sync"

	"oras.land/oras-go/v2/content/oci"
	"oras.land/oras-go/v2/errdef"
	"pgregory.net/rapid"

	"verif/harness/gen"
	"verif/harness/vt"
)

// Leg "tagrace" (OCI layout; the C06 tagdelete leg seen from Delete's side): k goroutines tag one manifest under different
// references while another deletes it. Whatever the order, a reference that resolves
// afterwards names content that exists - in the live store and in a reopened one.

type TagRaceCase struct {
	Taggers int  `json:"taggers"`
	Rounds  int  `json:"rounds"`
	AutoGC  bool `json:"autoGC"`
	Retag   bool `json:"retag"` // the references exist already (on another manifest)
}

func genTagRace(t *rapid.T) TagRaceCase {
	return TagRaceCase{Taggers: rapid.IntRange(1, 6).Draw(t, "taggers"), Rounds: rapid.IntRange(1, 4).Draw(t, "rounds"), AutoGC: rapid.Bool().Draw(t, "autoGC"), Retag: rapid.Bool().Draw(t, "retag")}
}

func runTagRace(c TagRaceCase) (res vt.Result, fail *vt.Fail) {
	ctx := context.Background()
	dir := vt.Scratch("c09tr-")
	defer os.RemoveAll(dir)
	s, err := oci.New(filepath.Join(dir, "l"))
	if err != nil {
		return res, vt.Failf("harness/oci", "%v", err)
	}
	s.AutoGC = c.AutoGC
	specs := []gen.NodeSpec{
		{Kind: gen.KBlob, Seed: 1, Size: 9, MT: "application/vnd.oci.image.config.v1+json"},
		{Kind: gen.KBlob, Seed: 2, Size: 20, MT: "application/vnd.oci.image.layer.v1.tar"},
		{Kind: gen.KImage, Config: &gen.Ref{N: 0}},
	}
	for r := 0; r < c.Rounds; r++ {
		specs = append(specs, gen.NodeSpec{Kind: gen.KImage, Config: &gen.Ref{N: 0}, Layers: []gen.Ref{{N: 1}}, Ann: map[string]string{"round": fmt.Sprint(r)}})
	}
	d := gen.Build(specs)
	for _, id := range []int{0, 1, 2} {
		if err := gen.PushNode(ctx, s, d.Nodes[id]); err != nil {
			return res, vt.Failf("harness/push", "%v", err)
		}
	}
	res.NonTrivial = c.Taggers >= 2
	res.Classes = []string{fmt.Sprintf("taggers-%d", c.Taggers), fmt.Sprintf("autogc-%v", c.AutoGC), fmt.Sprintf("retag-%v", c.Retag)}
	for r := 0; r < c.Rounds; r++ {
		m := d.Nodes[3+r]
		if err := gen.PushNode(ctx, s, m); err != nil {
			return res, vt.Failf("harness/push", "%v", err)
		}
		refs := make([]string, c.Taggers)
		for i := range refs {
			refs[i] = fmt.Sprintf("r%d-%d", r, i)
			if c.Retag {
				if err := s.Tag(ctx, d.Nodes[2].Desc, refs[i]); err != nil {
					return res, vt.Failf("harness/tag", "%v", err)
				}
			}
		}
		var wg sync.WaitGroup
		start := make(chan struct{})
		tagErrs := make([]error, c.Taggers)
		var delErr error
		for i := range refs {
			wg.Add(1)
			go func(i int) {
				defer wg.Done()
				<-start
				tagErrs[i] = s.Tag(ctx, m.Desc, refs[i])
			}(i)
		}
		wg.Add(1)
		go func() {
			defer wg.Done()
			<-start
			delErr = s.Delete(ctx, m.Desc)
		}()
		close(start)
		wg.Wait()
		if delErr != nil {
			return res, vt.Failf("C09/delete-result", "round %d: Delete of a stored manifest failed: %v", r, delErr)
		}
		for i, e := range tagErrs {
			if e != nil && !errors.Is(e, errdef.ErrNotFound) {
				return res, vt.Failf("C09/tag-result", "round %d: Tag(%s) returned %v (expected nil or not-found)", r, refs[i], e)
			}
		}
		check := func(name string, st *oci.Store) *vt.Fail {
			for i, ref := range refs {
				got, rerr := st.Resolve(ctx, ref)
				if rerr != nil {
					if tagErrs[i] == nil && errors.Is(rerr, errdef.ErrNotFound) {
						continue // tagged, then deleted (the deletion takes its tags along)
					}
					if errors.Is(rerr, errdef.ErrNotFound) {
						continue
					}
					return vt.Failf("C09/resolve-error", "round %d (%s): Resolve(%s): %v", r, name, ref, rerr)
				}
				ok, xerr := st.Exists(ctx, got)
				b, ferr := gen.ReadBack(ctx, st, got)
				if xerr != nil || !ok || ferr != nil {
					return vt.Failf("C09/tag-points-at-deleted-content", "round %d (%s): after concurrent Tag(%s) and Delete of one manifest, the reference resolves to %s but that content is gone (Exists=%v/%v, Fetch: %v); no order of the two calls leaves this state", r, name, ref, got.Digest, ok, xerr, ferr)
				}
				if got.Digest == m.Desc.Digest && !bytes.Equal(b, m.Bytes) {
					return vt.Failf("C09/fetch-bytes-mismatch", "round %d (%s): bytes of the tagged manifest differ", r, name)
				}
			}
			return nil
		}
		if f := check("live", s); f != nil {
			return res, f
		}
		re, err := oci.New(filepath.Join(dir, "l"))
		if err != nil {
			return res, vt.Failf("C09/reopen-failed", "%v", err)
		}
		if f := check("reopened", re); f != nil {
			return res, f
		}
	}
	return res, nil
}
