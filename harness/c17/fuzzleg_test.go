package c17

import (
	"testing"

	"verif/harness/vt"
)

// FuzzPolicy drives the "policy" leg's generator with the native fuzzer's bytes
// (rapid.MakeFuzz); the leg's runner is the oracle. Thorough tier only.
func FuzzPolicy(f *testing.F) { vt.FuzzLeg(f, "policy") }
