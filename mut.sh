#!/bin/sh
# usage: mut.sh <patch.diff|-R:commit> <ID> [ID...]   -- apply a change to /repo, run quick checks, undo.
p="$1"; shift
cd /repo || exit 2
git diff --quiet || { echo "repo dirty"; exit 2; }
case "$p" in
 -R:*) git revert --no-commit "${p#-R:}" >/dev/null 2>&1 || { echo revert failed; git revert --abort; exit 2; } ; git reset -q ;;
 *) git apply "$p" || { echo "apply failed"; exit 2; } ;;
esac
for id in "$@"; do
  (cd /verif && VERIF_TIER=${TIER:-quick} ./check "$id" --tier ${TIER:-quick} 2>&1 | grep -E "^(VIOLATION|KNOWN|INFRA|C[0-9]+ tier|  leg)" | cut -c1-400; echo "[$id exit=$?]")
done
cd /repo && git checkout -q -- . && git status --short | head -3
