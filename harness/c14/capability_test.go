package c14

import (
	"bytes"
	"context"
	"net/http"
	"strings"
	"sync"
	"time"

	"oras.land/oras-go/v2/registry/remote"
	"pgregory.net/rapid"

	"verif/harness/gen"
	"verif/harness/regmodel"
	"verif/harness/vt"
)

// CapCase: the capability a Repository has detected must not change afterwards,
// whatever answer a detection request that was already in flight brings back.
type CapCase struct {
	Kind   string `json:"kind"`   // image, artifact, index
	HeldOp string `json:"heldOp"` // delete (its capability ping is held), referrers (its first listing request is held)
	API    bool   `json:"api"`    // the registry answers the referrers endpoint with 200
	Header bool   `json:"header"` // ... and sends OCI-Subject on manifest PUT
	Pushes int    `json:"pushes"` // pushes completed while the request is held
}

func genCap(t *rapid.T) CapCase {
	return CapCase{
		Kind:   rapid.SampledFrom([]string{"image", "artifact", "index"}).Draw(t, "kind"),
		HeldOp: rapid.SampledFrom([]string{"delete", "referrers"}).Draw(t, "heldOp"),
		API:    rapid.Bool().Draw(t, "api"),
		Header: rapid.Bool().Draw(t, "header"),
		Pushes: rapid.IntRange(1, 3).Draw(t, "pushes"),
	}
}

func runCap(c CapCase) (res vt.Result, fail *vt.Fail) {
	fin, dump := vt.Watch(30*time.Second, func() { res, fail = runCapInner(c) })
	if !fin {
		vt.ReportHang("capability", vt.MustJSON(c), vt.Failf("C14/hang", "capability scenario did not return"), dump)
	}
	return res, fail
}

func runCapInner(c CapCase) (res vt.Result, fail *vt.Fail) {
	ctx := context.Background()
	reg := regmodel.New(host, regmodel.Profile{ReferrersAPI: c.API, SubjectHeader: c.API && c.Header})
	rp := reg.Repo(repoName)
	subj := buildSubject(0)
	rp.Manifests[subj.desc.Digest.String()] = &regmodel.Manifest{Bytes: subj.bytes, MediaType: gen.MTImage}
	old := buildRef(100, RefSpec{Kind: c.Kind, AT: ats[0]}, subj.desc)
	rp.Manifests[old.desc.Digest.String()] = &regmodel.Manifest{Bytes: old.bytes, MediaType: old.desc.MediaType}

	hold := make(chan struct{})
	held := make(chan struct{}, 1)
	var once sync.Once
	reg.Pre = func(req *http.Request, rec *regmodel.ReqRecord) (*http.Response, error) {
		if req.Method == http.MethodGet && strings.Contains(req.URL.Path, "/referrers/") {
			first := false
			once.Do(func() { first = true })
			if first {
				held <- struct{}{}
				<-hold
			}
		}
		return nil, nil
	}
	repo, err := remote.NewRepository(host + "/" + repoName)
	if err != nil {
		return res, vt.Failf("harness/newrepo", "%v", err)
	}
	repo.Client = &http.Client{Transport: reg}
	done := make(chan error, 1)
	go func() {
		if c.HeldOp == "delete" {
			done <- repo.Delete(ctx, old.desc)
		} else {
			_, e := repo.Predecessors(ctx, subj.desc)
			done <- e
		}
	}()
	select {
	case <-held:
	case <-time.After(5 * time.Second):
		close(hold)
		return res, vt.Failf("harness/no-detection-request", "the %s did not issue a referrers detection request", c.HeldOp)
	}
	// while the detection request is in flight, pushes settle the capability
	for i := 0; i < c.Pushes; i++ {
		r := buildRef(200+i, RefSpec{Kind: c.Kind, AT: ats[1]}, subj.desc)
		if err := repo.Push(ctx, r.desc, bytes.NewReader(r.bytes)); err != nil {
			close(hold)
			return res, vt.Failf("C14/operation-failed", "push while a detection request is in flight: %v", err)
		}
	}
	probe := func() string {
		// non-destructive once the capability is set: nil means "it is this value"
		if repo.SetReferrersCapability(false) == nil {
			return "unsupported"
		}
		return "supported"
	}
	before := probe()
	close(hold)
	<-done
	after := probe()
	res.NonTrivial = true
	res.Classes = []string{"capability-held-" + c.HeldOp, "capability-" + before}
	if before != after {
		return res, vt.Failf("C14/capability-flipped", "the repository had detected referrers capability %q (after %d pushes); when the %s's in-flight detection request returned, the capability became %q", before, c.Pushes, c.HeldOp, after)
	}
	return res, nil
}
