// Package copyx sets up and runs Copy / CopyGraph / ExtendedCopy(Graph) cases over
// instrumented stores; C01-C04 share it, each with its own generator emphasis and
// oracle.
package copyx

import (
	"bytes"
	"context"
	"fmt"
	"os"
	"path/filepath"
	"regexp"
	"sort"

	"github.com/opencontainers/go-digest"
	ocispec "github.com/opencontainers/image-spec/specs-go/v1"
	"net/http"
	oras "oras.land/oras-go/v2"
	"oras.land/oras-go/v2/content"
	"oras.land/oras-go/v2/content/file"
	"oras.land/oras-go/v2/content/memory"
	"oras.land/oras-go/v2/content/oci"
	"oras.land/oras-go/v2/registry/remote"
	"pgregory.net/rapid"

	"verif/harness/fsx"
	"verif/harness/gen"
	"verif/harness/inst"
	"verif/harness/regmodel"
	"verif/harness/vt"
)

// Case is a copy case.
type Case struct {
	Specs   []gen.NodeSpec `json:"specs"`
	Root    int            `json:"root"`
	SrcKind string         `json:"src"` // memory, oci, oci-ro, oci-tar, file
	DstKind string         `json:"dst"` // memory, oci, file
	Pre     []int          `json:"pre,omitempty"`
	// SrcTagAnn: the source reference was tagged with a descriptor that carries
	// annotations (as the descriptor PackManifest returns does)
	SrcTagAnn bool `json:"srcTagAnn,omitempty"`
	// Again (C01): after a successful Copy, copy once more under a second reference
	Again bool `json:"again,omitempty"`
	// PreTag: the destination reference already resolves to the root (which is then
	// part of Pre), as after an earlier Copy of it
	PreTag  bool         `json:"preTag,omitempty"`
	Conc    int          `json:"conc"`
	API     string       `json:"api"` // copygraph, copy, copy-blankdst, copy-maproot, extcopygraph, extcopy
	MapTo   int          `json:"mapTo,omitempty"`
	LatSeed int          `json:"latSeed,omitempty"`
	Faults  []inst.Fault `json:"faults,omitempty"`
	// extended copy
	Depth        int    `json:"depth,omitempty"`
	FilterAT     string `json:"filterAT,omitempty"`
	FilterAnnKey string `json:"filterAnnKey,omitempty"`
	FilterAnnRe  string `json:"filterAnnRe,omitempty"` // "" with key set = nil regex
	FilterOrder  int    `json:"filterOrder,omitempty"` // 0: AT then Ann, 1: Ann then AT
	// callbacks
	Callbacks bool `json:"callbacks,omitempty"`
	// remote kinds: capability profiles of the registry models and client options
	SrcProfile regmodel.Profile `json:"srcProfile,omitempty"`
	DstProfile regmodel.Profile `json:"dstProfile,omitempty"`
	RefPage    int              `json:"refPage,omitempty"`
	// StaleRef >= 0: after the source was populated, this referrer manifest is removed
	// from the source registry WITHOUT updating the referrers index (a stale entry)
	StaleRef int  `json:"staleRef,omitempty"`
	HasStale bool `json:"hasStale,omitempty"`
	// PreCancel: the context is already cancelled when the call is made.
	PreCancel bool   `json:"preCancel,omitempty"`
	TarFmt    string `json:"tarFmt,omitempty"`
	// cross-repository mounting (remote destination): MountFrom answers per blob,
	// Holds pre-populates sibling repositories of the destination registry
	// CustomFind: CopyGraphOptions.FindSuccessors is set (to a thin wrapper of
	// content.Successors that records its calls)
	CustomFind bool `json:"customFind,omitempty"`
	// FindBypass (with CustomFind): the caller's FindSuccessors does not use the
	// fetcher it is handed but reads the source itself (an index of its own)
	FindBypass bool `json:"findBypass,omitempty"`
	// Clash (file-store destination): the names (titles) of these nodes are already
	// taken in the destination by OTHER content
	Clash    []int `json:"clash,omitempty"`
	UseMount bool  `json:"useMount,omitempty"`
	// MountErrRepo: mount requests naming this repository as source are answered
	// with a server error during the faulty attempt (a hard mount failure)
	MountErrRepo string `json:"mountErrRepo,omitempty"`
	// NoOnMounted: MountFrom is set but OnMounted is left nil
	NoOnMounted bool        `json:"noOnMounted,omitempty"`
	MountFrom   []MountSpec `json:"mountFrom,omitempty"`
	Holds       []HoldSpec  `json:"holds,omitempty"`
}

// MountSpec is MountFrom's answer for one blob node.
type MountSpec struct {
	Node  int      `json:"node"`
	Repos []string `json:"repos"`
}

// HoldSpec lists the blobs a sibling repository holds before the copy.
type HoldSpec struct {
	Repo  string `json:"repo"`
	Nodes []int  `json:"nodes"`
}

const SrcRef = "src-tag"
const DstRef = "dst-tag"

// Env is a prepared case.
type Env struct {
	C       *Case
	D       *gen.DAG
	Dir     string
	Rec     *inst.Recorder
	Src     any // wrapped source
	Dst     oras.Target
	RawDst  inst.RWStore
	RawSrc  inst.ROStore
	SrcReg  *regmodel.Registry
	DstReg  *regmodel.Registry
	closers []func()
}

// Close releases the case's resources.
func (e *Env) Close() {
	for _, c := range e.closers {
		c()
	}
	os.RemoveAll(e.Dir)
}

func newRW(kind, dir string) (inst.RWStore, func(), error) {
	switch kind {
	case "memory":
		return memory.New(), func() {}, nil
	case "oci":
		s, err := oci.New(dir)
		return s, func() {}, err
	case "file":
		s, err := file.New(dir)
		if err != nil {
			return nil, nil, err
		}
		return s, func() { s.Close() }, nil
	}
	return nil, nil, fmt.Errorf("unknown store kind %q", kind)
}

// QueryDesc is the descriptor used to ask a store about a node: the plain triple,
// or the embedded form with the title for file stores (a name is part of a node's
// identity there).
func QueryDesc(kind string, n *gen.Node) ocispec.Descriptor {
	if kind == "file" {
		return n.PushDesc()
	}
	return n.Desc
}

// Setup builds the stores for a case: the source holds every node of the DAG that
// is not marked absent (pushed children first) and the root tagged; the destination
// holds the pre-population subset.
func Setup(c *Case) (*Env, *vt.Fail) {
	ctx := context.Background()
	d := gen.Build(c.Specs)
	e := &Env{C: c, D: d, Dir: vt.Scratch("copy-")}
	e.Rec = inst.NewRecorder(c.Faults, func(id int) string { return inst.Key(d.Nodes[d.Nodes[id].Canon].Desc) }, c.LatSeed)
	srcBase := c.SrcKind
	if srcBase == "oci-ro" || srcBase == "oci-tar" {
		srcBase = "oci"
	}
	if c.SrcKind == "remote" {
		if f := e.setupRemoteSource(ctx); f != nil {
			e.Close()
			return nil, f
		}
		return e.setupDst(ctx)
	}
	rawSrc, cl, err := newRW(srcBase, filepath.Join(e.Dir, "src"))
	if err != nil {
		e.Close()
		return nil, vt.Failf("harness/src-store", "%v", err)
	}
	e.closers = append(e.closers, cl)
	for _, id := range d.CanonIDs() {
		n := d.Nodes[id]
		if n.Spec.Absent {
			continue
		}
		if err := gen.PushNode(ctx, rawSrc, n); err != nil {
			if srcBase == "file" && (file.ErrDuplicateName == err || isDup(err)) {
				continue
			}
			e.Close()
			return nil, vt.Failf("harness/src-push", "node %d: %v", id, err)
		}
	}
	root := d.Nodes[d.Nodes[c.Root].Canon]
	srcTagDesc := root.PushDesc()
	if c.SrcTagAnn {
		ann := map[string]string{"verif.packed": "1"}
		for k, v := range srcTagDesc.Annotations {
			ann[k] = v
		}
		srcTagDesc.Annotations = ann
	}
	if err := rawSrc.Tag(ctx, srcTagDesc, SrcRef); err != nil {
		e.Close()
		return nil, vt.Failf("harness/src-tag", "%v", err)
	}
	switch c.SrcKind {
	case "oci-ro":
		ro, err := oci.NewFromFS(ctx, os.DirFS(filepath.Join(e.Dir, "src")))
		if err != nil {
			e.Close()
			return nil, vt.Failf("harness/src-ro", "%v", err)
		}
		e.RawSrc = ro
		e.Src = inst.WrapRO(ro, e.Rec, "src")
	case "oci-tar":
		tp := filepath.Join(e.Dir, "src.tar")
		if err := fsx.TarDir(filepath.Join(e.Dir, "src"), tp, c.TarFmt, false); err != nil {
			e.Close()
			return nil, vt.Failf("harness/src-tar", "%v", err)
		}
		ro, err := oci.NewFromTar(ctx, tp)
		if err != nil {
			e.Close()
			return nil, vt.Failf("harness/src-tar-open", "%v", err)
		}
		e.RawSrc = ro
		e.Src = inst.WrapRO(ro, e.Rec, "src")
	default:
		e.RawSrc = rawSrc
		e.Src = inst.WrapRW(rawSrc, e.Rec, "src")
	}
	return e.setupDst(ctx)
}

func newRepo(host, name string, reg *regmodel.Registry) (*remote.Repository, error) {
	repo, err := remote.NewRepository(host + "/" + name)
	if err != nil {
		return nil, err
	}
	repo.Client = &http.Client{Transport: reg}
	return repo, nil
}

// setupRemoteSource populates a registry model through a Repository client
// (children first, so that the client maintains referrers indexes itself when the
// profile has no Referrers API) and tags the root.
func (e *Env) setupRemoteSource(ctx context.Context) *vt.Fail {
	c, d := e.C, e.D
	reg := regmodel.New("src.test", c.SrcProfile)
	reg.Repo("src/repo")
	repo, err := newRepo("src.test", "src/repo", reg)
	if err != nil {
		return vt.Failf("harness/src-repo", "%v", err)
	}
	for _, id := range d.CanonIDs() {
		n := d.Nodes[id]
		if n.Spec.Absent {
			continue
		}
		if err := gen.PushNode(ctx, repo, n); err != nil && !isDup(err) {
			return vt.Failf("harness/src-push", "node %d: %v", id, err)
		}
	}
	root := d.Nodes[d.Nodes[c.Root].Canon]
	if d.IsManifest(root.ID) {
		if err := repo.Tag(ctx, root.Desc, SrcRef); err != nil {
			return vt.Failf("harness/src-tag", "%v", err)
		}
	}
	if c.HasStale {
		n := d.Nodes[d.Nodes[c.StaleRef].Canon]
		reg.Lock()
		delete(reg.Repos["src/repo"].Manifests, n.Desc.Digest.String())
		reg.Unlock()
	}
	// a fresh client for the copy (capability detection starts over)
	repo2, _ := newRepo("src.test", "src/repo", reg)
	repo2.ReferrerListPageSize = c.RefPage
	reg.Lock()
	reg.Log, reg.Violations = nil, nil
	reg.Unlock()
	e.SrcReg = reg
	e.RawSrc = repo2
	e.Src = repo2
	return nil
}

func (e *Env) setupDst(ctx context.Context) (*Env, *vt.Fail) {
	c, d := e.C, e.D
	if c.DstKind == "remote" {
		reg := regmodel.New("dst.test", c.DstProfile)
		reg.Repo("dst/repo")
		repo, err := newRepo("dst.test", "dst/repo", reg)
		if err != nil {
			e.Close()
			return nil, vt.Failf("harness/dst-repo", "%v", err)
		}
		pre := append([]int(nil), c.Pre...)
		sort.Ints(pre)
		for _, id := range pre {
			n := d.Nodes[d.Nodes[id].Canon]
			if n.Spec.Absent {
				continue
			}
			if err := gen.PushNode(ctx, repo, n); err != nil && !isDup(err) {
				e.Close()
				return nil, vt.Failf("harness/dst-prepush", "node %d: %v", id, err)
			}
		}
		if c.PreTag && d.IsManifest(c.Root) {
			if err := repo.Tag(ctx, d.Nodes[d.Nodes[c.Root].Canon].Desc, DstRef); err != nil {
				e.Close()
				return nil, vt.Failf("harness/dst-pretag", "%v", err)
			}
		}
		repo2, _ := newRepo("dst.test", "dst/repo", reg)
		reg.Lock()
		for _, h := range c.Holds {
			rp := reg.Repo(h.Repo)
			for _, id := range h.Nodes {
				n := d.Nodes[d.Nodes[id].Canon]
				rp.Blobs[n.Desc.Digest.String()] = n.Bytes
			}
		}
		reg.Log, reg.Violations = nil, nil
		reg.Unlock()
		e.DstReg = reg
		e.RawDst = repo2
		e.Dst = repo2
		return e, nil
	}
	rawDst, cl2, err := newRW(c.DstKind, filepath.Join(e.Dir, "dst"))
	if err != nil {
		e.Close()
		return nil, vt.Failf("harness/dst-store", "%v", err)
	}
	e.closers = append(e.closers, cl2)
	pre := append([]int(nil), c.Pre...)
	sort.Ints(pre)
	for _, id := range pre {
		n := d.Nodes[d.Nodes[id].Canon]
		if n.Spec.Absent {
			continue
		}
		if err := gen.PushNode(ctx, rawDst, n); err != nil && !isDup(err) {
			e.Close()
			return nil, vt.Failf("harness/dst-prepush", "node %d: %v", id, err)
		}
	}
	if c.PreTag {
		if err := rawDst.Tag(ctx, d.Nodes[d.Nodes[c.Root].Canon].PushDesc(), DstRef); err != nil {
			e.Close()
			return nil, vt.Failf("harness/dst-pretag", "%v", err)
		}
	}
	if c.DstKind == "file" {
		for _, id := range c.Clash {
			n := d.Nodes[d.Nodes[id].Canon]
			if n.Spec.Title == "" {
				continue
			}
			other := []byte(fmt.Sprintf("other content under the name of node %d", id))
			od := ocispec.Descriptor{MediaType: "application/octet-stream", Digest: digest.FromBytes(other), Size: int64(len(other)),
				Annotations: map[string]string{ocispec.AnnotationTitle: n.Spec.Title}}
			if err := rawDst.Push(ctx, od, bytes.NewReader(other)); err != nil && !isDup(err) {
				e.Close()
				return nil, vt.Failf("harness/dst-clash", "node %d: %v", id, err)
			}
		}
	}
	e.RawDst = rawDst
	e.Dst = inst.WrapRW(rawDst, e.Rec, "dst")
	return e, nil
}

func isDup(err error) bool {
	return err != nil && (bytes.Contains([]byte(err.Error()), []byte("already exists")) || bytes.Contains([]byte(err.Error()), []byte("duplicate name")))
}

// Outcome is the result of one invocation.
type Outcome struct {
	Err  error
	Desc ocispec.Descriptor // Copy / ExtendedCopy result
}

// graphOptions builds CopyGraphOptions with recording callbacks.
func (e *Env) graphOptions() oras.CopyGraphOptions {
	o := oras.CopyGraphOptions{Concurrency: e.C.Conc}
	if e.C.Callbacks {
		o.PreCopy = func(ctx context.Context, desc ocispec.Descriptor) error { return e.Rec.Callback(ctx, "PreCopy", desc) }
		o.PostCopy = func(ctx context.Context, desc ocispec.Descriptor) error { return e.Rec.Callback(ctx, "PostCopy", desc) }
		o.OnCopySkipped = func(ctx context.Context, desc ocispec.Descriptor) error {
			return e.Rec.Callback(ctx, "OnCopySkipped", desc)
		}
	}
	if e.C.CustomFind {
		o.FindSuccessors = func(ctx context.Context, fetcher content.Fetcher, desc ocispec.Descriptor) ([]ocispec.Descriptor, error) {
			if e.C.FindBypass {
				return content.Successors(ctx, e.RawSrc, desc)
			}
			return content.Successors(ctx, fetcher, desc)
		}
	}
	if e.C.UseMount {
		byDigest := map[string][]string{}
		for _, m := range e.C.MountFrom {
			byDigest[e.D.Nodes[e.D.Nodes[m.Node].Canon].Desc.Digest.String()] = m.Repos
		}
		o.MountFrom = func(ctx context.Context, desc ocispec.Descriptor) ([]string, error) {
			if err := e.Rec.Callback(ctx, "MountFrom", desc); err != nil {
				return nil, err
			}
			return byDigest[desc.Digest.String()], nil
		}
		if !e.C.NoOnMounted {
			o.OnMounted = func(ctx context.Context, desc ocispec.Descriptor) error {
				return e.Rec.Callback(ctx, "OnMounted", desc)
			}
		}
	}
	return o
}

// Invoke runs the API once. ctx is the caller's context; the recorder's Cancel is
// wired to it.
func (e *Env) Invoke(faults bool) Outcome {
	ctx, cancel := context.WithCancel(context.Background())
	defer cancel()
	if faults {
		e.Rec.Cancel = cancel
		if e.C.PreCancel {
			cancel()
		}
	} else {
		e.Rec.Faults = nil
	}
	c := e.C
	root := e.D.Nodes[e.D.Nodes[c.Root].Canon]
	switch c.API {
	case "copygraph":
		src := e.Src.(content.ReadOnlyStorage)
		return Outcome{Err: oras.CopyGraph(ctx, src, e.Dst, root.PushDesc(), e.graphOptions())}
	case "copy", "copy-blankdst", "copy-maproot", "copy-digestdst":
		opts := oras.CopyOptions{CopyGraphOptions: e.graphOptions()}
		dstRef := DstRef
		if c.API == "copy-blankdst" {
			dstRef = ""
		}
		if c.API == "copy-digestdst" {
			// the destination reference is the root's digest
			dstRef = root.Desc.Digest.String()
		}
		if c.API == "copy-maproot" {
			to := e.D.Nodes[e.D.Nodes[c.MapTo].Canon]
			opts.MapRoot = func(ctx context.Context, src content.ReadOnlyStorage, r ocispec.Descriptor) (ocispec.Descriptor, error) {
				return to.PushDesc(), nil
			}
		}
		desc, err := oras.Copy(ctx, e.Src.(oras.ReadOnlyTarget), SrcRef, e.Dst, dstRef, opts)
		return Outcome{Err: err, Desc: desc}
	case "extcopygraph", "extcopy":
		opts := oras.ExtendedCopyGraphOptions{CopyGraphOptions: e.graphOptions(), Depth: c.Depth}
		applyAT := func() {
			if c.FilterAT != "" {
				opts.FilterArtifactType(regexp.MustCompile(c.FilterAT))
			}
		}
		applyAnn := func() {
			if c.FilterAnnKey != "" {
				var re *regexp.Regexp
				if c.FilterAnnRe != "" {
					re = regexp.MustCompile(c.FilterAnnRe)
				}
				opts.FilterAnnotation(c.FilterAnnKey, re)
			}
		}
		if c.FilterOrder == 0 {
			applyAT()
			applyAnn()
		} else {
			applyAnn()
			applyAT()
		}
		if c.API == "extcopygraph" {
			return Outcome{Err: oras.ExtendedCopyGraph(ctx, e.Src.(content.ReadOnlyGraphStorage), e.Dst, root.PushDesc(), opts)}
		}
		desc, err := oras.ExtendedCopy(ctx, e.Src.(oras.ReadOnlyGraphTarget), SrcRef, e.Dst, DstRef, oras.ExtendedCopyOptions{ExtendedCopyGraphOptions: opts})
		return Outcome{Err: err, Desc: desc}
	}
	return Outcome{Err: fmt.Errorf("harness: unknown api %q", c.API)}
}

func baseKind(k string) string {
	if k == "oci-ro" || k == "oci-tar" {
		return "oci"
	}
	return k
}

// ExpectedRoot is the node the call is rooted at (after MapRoot).
func (e *Env) ExpectedRoot() *gen.Node {
	if e.C.API == "copy-maproot" {
		return e.D.Nodes[e.D.Nodes[e.C.MapTo].Canon]
	}
	return e.D.Nodes[e.D.Nodes[e.C.Root].Canon]
}

// CheckPresent verifies that every node of set exists in the raw destination with
// the generator's bytes.
func (e *Env) CheckPresent(set map[int]bool, prop, when string) *vt.Fail {
	ctx := context.Background()
	for _, id := range gen.SortedKeys(set) {
		n := e.D.Nodes[id]
		q := QueryDesc(e.C.DstKind, n)
		ok, err := e.RawDst.Exists(ctx, q)
		if err != nil {
			return vt.Failf(prop+"/dst-exists-error", "%s: Exists(node %d): %v", when, id, err)
		}
		if !ok {
			return vt.Failf(prop+"/missing-node", "%s: node %d (%s %s) reachable from the root is missing in the destination", when, id, n.Spec.Kind, n.Desc.MediaType)
		}
		b, err := gen.ReadBack(ctx, e.RawDst, q)
		if err != nil {
			return vt.Failf(prop+"/dst-fetch-error", "%s: Fetch(node %d): %v", when, id, err)
		}
		if !bytes.Equal(b, n.Bytes) {
			return vt.Failf(prop+"/bytes-differ", "%s: node %d: destination holds %d bytes that differ from the source's %d", when, id, len(b), len(n.Bytes))
		}
	}
	return nil
}

// PresentSet returns which DAG nodes the raw destination holds.
func (e *Env) PresentSet() (map[int]bool, *vt.Fail) {
	ctx := context.Background()
	out := map[int]bool{}
	for _, id := range e.D.CanonIDs() {
		ok, err := e.RawDst.Exists(ctx, QueryDesc(e.C.DstKind, e.D.Nodes[id]))
		if err != nil {
			return nil, vt.Failf("harness/dst-exists", "%v", err)
		}
		if ok {
			out[id] = true
		}
	}
	return out, nil
}

// CheckClosed verifies that every present node's non-foreign successors are present.
func (e *Env) CheckClosed(prop, when string) *vt.Fail {
	present, f := e.PresentSet()
	if f != nil {
		return f
	}
	for _, id := range gen.SortedKeys(present) {
		for _, ed := range e.D.Nodes[id].Edges {
			if ed.Foreign {
				continue
			}
			if !present[ed.To] {
				return vt.Failf(prop+"/not-link-closed", "%s: destination holds node %d (%s) but not its %s successor %d", when, id, e.D.Nodes[id].Spec.Kind, ed.Role, ed.To)
			}
		}
	}
	return nil
}

// ---------------------------------------------------------------------------------
// generator pieces

// GenBase draws DAG, root, kinds, pre-population, concurrency and latency.
func GenBase(t *rapid.T, o gen.DAGOpts, srcKinds, dstKinds []string) Case {
	c := Case{}
	c.SrcKind = rapid.SampledFrom(srcKinds).Draw(t, "srcKind")
	c.DstKind = rapid.SampledFrom(dstKinds).Draw(t, "dstKind")
	if rapid.IntRange(0, 5).Draw(t, "memmem") == 0 {
		// triple-keyed stores on both sides: the only pairing where the same bytes
		// may appear under two media types
		c.SrcKind, c.DstKind = "memory", "memory"
	}
	if c.SrcKind == "file" || c.DstKind == "file" {
		o.Titles = true
	}
	if o.AliasToOCI && c.SrcKind == "memory" && c.DstKind == "oci" {
		// the caller copes with a digest-addressed destination holding one digest
		// for two media types
	} else if baseKind(c.SrcKind) == "oci" || c.DstKind == "oci" || c.SrcKind == "file" || c.DstKind == "file" {
		// digest-addressed stores hold one media type per digest (the file store
		// indexes named content by digest)
		o.SingleMT = true
	}
	if c.SrcKind == "oci-tar" {
		c.TarFmt = rapid.SampledFrom([]string{"ustar", "pax", "gnu"}).Draw(t, "tarFmt")
	}
	c.Specs = gen.Specs(t, o)
	d := gen.Build(c.Specs)
	ids := d.CanonIDs()
	// root: prefer manifests
	var manifests []int
	for _, id := range ids {
		if d.IsManifest(id) {
			manifests = append(manifests, id)
		}
	}
	if len(manifests) > 0 && rapid.IntRange(0, 9).Draw(t, "rootIsManifest") != 0 {
		// bias to later (bigger) manifests
		k := rapid.IntRange(0, len(manifests)-1).Draw(t, "rootIdx")
		k2 := rapid.IntRange(0, len(manifests)-1).Draw(t, "rootIdx2")
		if k2 > k {
			k = k2
		}
		c.Root = manifests[k]
	} else {
		var present []int
		for _, id := range ids {
			if !d.Nodes[id].Spec.Absent {
				present = append(present, id)
			}
		}
		c.Root = rapid.SampledFrom(present).Draw(t, "rootAny")
	}
	c.Conc = rapid.SampledFrom([]int{1, 2, 3, 0, 8}).Draw(t, "conc")
	if rapid.IntRange(0, 3).Draw(t, "lat") != 0 {
		c.LatSeed = rapid.IntRange(1, 1<<20).Draw(t, "latSeed")
	}
	return c
}

// GenPre draws a link-closed (downward-closed, foreign edges cut) subset of universe.
func GenPre(t *rapid.T, d *gen.DAG, universe map[int]bool, root int) []int {
	mode := rapid.SampledFrom([]int{0, 0, 0, 0, 1, 2, 3, 3, 4, 4}).Draw(t, "preMode")
	switch mode {
	case 0:
		return nil
	case 1:
		var out []int
		for _, id := range gen.SortedKeys(universe) {
			if !d.Nodes[id].Spec.Absent {
				out = append(out, id)
			}
		}
		return out
	}
	set := map[int]bool{}
	ids := gen.SortedKeys(universe)
	k := rapid.IntRange(1, 3).Draw(t, "preSeeds")
	for i := 0; i < k && len(ids) > 0; i++ {
		s := rapid.SampledFrom(ids).Draw(t, "preSeed")
		if mode == 2 && i == 0 {
			s = d.Nodes[root].Canon // "root already present"
		}
		for id := range d.Reach(s, true) {
			set[id] = true
		}
	}
	var out []int
	for _, id := range gen.SortedKeys(set) {
		if !d.Nodes[id].Spec.Absent {
			out = append(out, id)
		}
	}
	return out
}
