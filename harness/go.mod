module verif/harness

go 1.23.0

require (
	github.com/opencontainers/go-digest v1.0.0
	github.com/opencontainers/image-spec v1.1.1
	oras.land/oras-go/v2 v2.0.0
	pgregory.net/rapid v1.3.0
)

require golang.org/x/sync v0.13.0 // indirect

replace oras.land/oras-go/v2 => /repo
