#!/bin/bash
# usage: seedrun.sh <ID> <k> <pkgdir-relative> <TestName> <check IDs...>
# Confirms a seeded change (demo passes without, fails with; repo tests of touched pkgs pass) in the
# scratch worktree /tmp/seed/<ID>, then runs the given checks against /repo with the patch applied.
ID=$1; K=$2; PKG=$3; TN=$4; shift 4
export GOFLAGS=-mod=mod GOPROXY=off GOSUMDB=off GOTOOLCHAIN=local
WT=/tmp/seed/$ID; OUT=/tmp/seed/$ID-out
cd $WT || exit 2
git checkout -q -- . ; git clean -fdq
DEMO=$(ls $OUT/demo$K*_test.go 2>/dev/null | head -1)
[ -z "$DEMO" ] && { echo "no demo"; exit 2; }
cp $DEMO $WT/$PKG/zz_seed_demo_test.go
base=$(go test -count=1 -run "$TN" ./$PKG 2>&1 | tail -1)
git apply $OUT/patch$K.diff || { echo "patch does not apply"; exit 2; }
go build ./... || { echo "BUILD FAILS"; }
withp=$(go test -count=1 -run "$TN" ./$PKG 2>&1 | tail -1)
rm $WT/$PKG/zz_seed_demo_test.go
files=$(git diff --name-only | xargs -n1 dirname | sort -u | sed 's#^#./#' | tr '\n' ' ')
suite=$(go test -count=1 . $files 2>&1 | grep -v "^ok\|no test files" | grep -v "OverwriteSymlink_RemovalFailed\|file_unix_test.go:472\|^FAIL$\|FAIL.*content/file" | head -5)
git checkout -q -- . ; git clean -fdq
echo "demo without patch: $base"
echo "demo with patch:    $withp"
echo "suite (touched pkgs: $files) unexpected output: [$suite]"
cd /repo && git diff --quiet || { echo "repo dirty"; exit 2; }
git apply $OUT/patch$K.diff || { echo "patch does not apply to /repo"; exit 2; }
for c in "$@"; do
  (cd /verif && ./check $c --tier ${TIER:-quick} 2>&1 | grep -E "^(VIOLATION|INFRA|C[0-9]+ tier|  leg)" | cut -c1-330)
done
cd /repo && git checkout -q -- . && git status --short | head -3
