package c20

import (
	"testing"

	"verif/harness/vt"
)

// FuzzParse is the coverage-guided companion of the exhaustive leg (thorough tier
// only): arbitrary strings, same oracle (independent recogniser, round trip).
func FuzzParse(f *testing.F) {
	for _, s := range []string{"localhost:5000/a/b:tag", "docker.io/library/x@sha256:" + hex64, "[::1]:80/r:t@sha512:" + hex64 + hex64,
		"reg.example/a?b", "a/b", "A/b", "x:0/y_z.w--v:T_.-", "h/r@a+b.c_d-e:=_-", "h:65536/r", "[fe80::1%25eth0]/r", ""} {
		f.Add(s)
	}
	f.Fuzz(func(t *testing.T, s string) {
		if len(s) > 400 {
			return
		}
		_, fail := judge(s)
		vt.FuzzReport(t, "exhaustive", map[string]string{"s": s}, fail)
	})
}

const hex64 = "0123456789abcdef0123456789abcdef0123456789abcdef0123456789abcdef"
