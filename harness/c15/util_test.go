package c15

import "github.com/opencontainers/go-digest"

func digestOfString(s string) digest.Digest { return digest.Digest(s) }
