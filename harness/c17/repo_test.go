package c17

import (
	"bytes"
	"context"
	"encoding/json"
	"fmt"
	"io"
	"net/http"
	"strings"
	"time"

	"github.com/opencontainers/go-digest"
	ocispec "github.com/opencontainers/image-spec/specs-go/v1"
	"oras.land/oras-go/v2/registry/remote"
	"oras.land/oras-go/v2/registry/remote/auth"
	"oras.land/oras-go/v2/registry/remote/retry"
	"pgregory.net/rapid"

	"verif/harness/gen"
	"verif/harness/regmodel"
	"verif/harness/vt"
)

// RepoCase drives Repository.Push through the client stack with a flaky registry.
type RepoCase struct {
	Manifest bool     `json:"manifest"`
	Reader   int      `json:"reader"` // 0 bytes.Reader, 1 one-shot, 2 NopCloser(bytes.Reader)
	Auth     bool     `json:"authClient"`
	Fails    []string `json:"fails"` // answers to the first content PUTs: 503, 401, 429, timeout
	Size     int      `json:"size"`
	// Docker: the manifest has the Docker v2 media type (no subject handling, the
	// caller's reader goes to the PUT as it is)
	Docker bool `json:"docker,omitempty"`
	// RefCap: 0 capability unknown, 1 SetReferrersCapability(true), 2 (false)
	RefCap int `json:"refCap,omitempty"`
	// ByRef: PushReference with a tag instead of Push
	ByRef bool `json:"byRef,omitempty"`
}

func genRepo(t *rapid.T) RepoCase {
	c := RepoCase{Manifest: rapid.Bool().Draw(t, "manifest"), Reader: rapid.IntRange(0, 2).Draw(t, "reader"), Auth: rapid.Bool().Draw(t, "auth"), Size: rapid.SampledFrom([]int{1, 50, 5000}).Draw(t, "size")}
	if c.Manifest {
		c.Docker = rapid.Bool().Draw(t, "docker")
		c.RefCap = rapid.IntRange(0, 2).Draw(t, "refCap")
		c.ByRef = rapid.Bool().Draw(t, "byRef")
	}
	n := rapid.IntRange(0, 3).Draw(t, "nFails")
	for i := 0; i < n; i++ {
		c.Fails = append(c.Fails, rapid.SampledFrom([]string{"503", "401", "429", "timeout", "500"}).Draw(t, "fail"))
	}
	return c
}

func runRepo(c RepoCase) (res vt.Result, fail *vt.Fail) {
	ctx := context.Background()
	var body []byte
	mt := gen.MTOctet
	if c.Manifest {
		m := ocispec.Manifest{MediaType: gen.MTImage, Config: ocispec.Descriptor{MediaType: gen.MTConfig, Digest: digest.FromBytes([]byte("{}")), Size: 2}, Layers: []ocispec.Descriptor{}, Annotations: map[string]string{"pad": strings.Repeat("x", c.Size)}}
		m.SchemaVersion = 2
		mt = gen.MTImage
		if c.Docker {
			mt = "application/vnd.docker.distribution.manifest.v2+json"
			m.MediaType = mt
			m.Config.MediaType = "application/vnd.docker.container.image.v1+json"
			m.Annotations = nil
			m.Layers = []ocispec.Descriptor{{MediaType: "application/vnd.docker.image.rootfs.diff.tar.gzip", Digest: digest.FromBytes([]byte(strings.Repeat("x", c.Size))), Size: int64(c.Size)}}
		}
		body, _ = json.Marshal(m)
	} else {
		body = gen.BlobBytes(1, c.Size)
	}
	desc := ocispec.Descriptor{MediaType: mt, Digest: digest.FromBytes(body), Size: int64(len(body))}
	reg := regmodel.New("srv.test", regmodel.Profile{ReferrersAPI: true})
	reg.Repo("a/b")
	type put struct {
		body []byte
		cl   int64
	}
	var puts []put
	nfail := 0
	authorized := false
	reg.Pre = func(req *http.Request, rec *regmodel.ReqRecord) (*http.Response, error) {
		isContentPut := req.Method == http.MethodPut
		if !isContentPut {
			return nil, nil
		}
		puts = append(puts, put{rec.Body, req.ContentLength})
		if nfail < len(c.Fails) {
			f := c.Fails[nfail]
			nfail++
			switch f {
			case "timeout":
				return nil, timeoutErr{}
			case "401":
				if !authorized {
					authorized = true
					return regmodel.Response(req, 401, http.Header{"Www-Authenticate": []string{`Basic realm="srv"`}}, []byte("{}"), false, nil), nil
				}
				return nil, nil
			case "429":
				return regmodel.Response(req, 429, http.Header{"Retry-After": []string{"0"}}, []byte("{}"), false, nil), nil
			default:
				return regmodel.Response(req, 503, nil, []byte("{}"), false, nil), nil
			}
		}
		return nil, nil
	}
	policy := &retry.GenericPolicy{Retryable: retry.DefaultPredicate, Backoff: func(int, *http.Response) time.Duration { return time.Microsecond }, MinWait: time.Microsecond, MaxWait: 20 * time.Microsecond, MaxRetry: 5}
	rt := retry.NewTransport(reg)
	rt.Policy = func() retry.Policy { return policy }
	repo, _ := remote.NewRepository("srv.test/a/b")
	hc := &http.Client{Transport: rt}
	if c.Auth {
		repo.Client = &auth.Client{Client: hc, Cache: auth.NewCache(), Credential: auth.StaticCredential("srv.test", auth.Credential{Username: "u", Password: "p"})}
	} else {
		repo.Client = hc
	}
	var rd io.Reader = bytes.NewReader(body)
	switch c.Reader {
	case 1:
		rd = &oneShot{bytes.NewReader(body)}
	case 2:
		rd = io.NopCloser(bytes.NewReader(body))
	}
	switch c.RefCap {
	case 1:
		repo.SetReferrersCapability(true)
	case 2:
		repo.SetReferrersCapability(false)
	}
	var err error
	if c.ByRef {
		err = repo.PushReference(ctx, desc, rd, "v1")
	} else {
		err = repo.Push(ctx, desc, rd)
	}
	res.NonTrivial = len(puts) >= 2
	res.Classes = []string{fmt.Sprintf("reader-%d", c.Reader), fmt.Sprintf("auth-%v", c.Auth), fmt.Sprintf("manifest-%v", c.Manifest), fmt.Sprintf("docker-%v-refcap-%d-byref-%v", c.Docker, c.RefCap, c.ByRef)}
	complete := 0
	for i, p := range puts {
		if len(p.body) == 0 {
			continue
		}
		if !bytes.Equal(p.body, body) {
			return res, vt.Failf("C17/resent-body-incomplete", "Repository.Push attempt %d reached the registry with %d of %d body bytes (reader kind %d, auth client %v, manifest %v, failures %v)", i, len(p.body), len(body), c.Reader, c.Auth, c.Manifest, c.Fails)
		}
		complete++
	}
	for i, p := range puts {
		if len(p.body) == 0 && i > 0 && complete > 0 && p.cl > 0 {
			return res, vt.Failf("C17/resent-body-empty", "Repository.Push attempt %d declared Content-Length %d but carried no body (reader kind %d, auth client %v, manifest %v, failures %v)", i, p.cl, c.Reader, c.Auth, c.Manifest, c.Fails)
		}
	}
	if err == nil {
		reg.Lock()
		rp := reg.Repos["a/b"]
		var stored []byte
		if c.Manifest {
			if m := rp.Manifests[desc.Digest.String()]; m != nil {
				stored = m.Bytes
			}
		} else {
			stored = rp.Blobs[desc.Digest.String()]
		}
		reg.Unlock()
		if !bytes.Equal(stored, body) {
			return res, vt.Failf("C17/push-reported-success-without-content", "Push returned nil but the registry holds %d of %d bytes", len(stored), len(body))
		}
	}
	return res, nil
}
