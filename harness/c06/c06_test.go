package c06

import (
	"bytes"
	"context"
	"crypto/sha256"
	"crypto/sha512"
	"encoding/hex"
	"errors"
	"fmt"
	"io"
	"os"
	"path/filepath"
	"sort"
	"sync"
	"testing"
	"testing/iotest"
	"time"

	ocispec "github.com/opencontainers/image-spec/specs-go/v1"
	"oras.land/oras-go/v2/content"
	"oras.land/oras-go/v2/content/file"
	"oras.land/oras-go/v2/content/memory"
	"oras.land/oras-go/v2/content/oci"
	"oras.land/oras-go/v2/errdef"
	"pgregory.net/rapid"

	"verif/harness/gen"
	"verif/harness/vt"
)

// Op is one operation of a history.
type Op struct {
	Op  string `json:"op"` // push, pushbad, fetch, exists, tag, resolve, untag, delete, tags
	N   int    `json:"n,omitempty"`
	Ref string `json:"ref,omitempty"` // "@self" = the node's own digest string
	Bad string `json:"bad,omitempty"` // flip, short, long, empty
	// Ann != "": the descriptor handed to Tag carries the annotation verif.v=Ann
	// (same content, another descriptor: Resolve must hand back the latest one)
	Ann string `json:"ann,omitempty"`
	// Alt (file store, pushbad of a named node): the descriptor carries another, unused
	// name - the same digest under a second name, with content that does not verify
	Alt bool `json:"alt,omitempty"`
}

// Case is a sequential history followed by an optional concurrent phase.
type Case struct {
	Specs    []gen.NodeSpec `json:"specs"`
	Kind     string         `json:"kind"`
	AutoSave bool           `json:"autoSave,omitempty"` // oci
	// file options
	IgnoreNoName     bool   `json:"ignoreNoName,omitempty"`
	DisableOverwrite bool   `json:"disableOverwrite,omitempty"`
	PreExisting      []int  `json:"preExisting,omitempty"` // titled nodes whose path already holds a file
	FallbackLimit    int64  `json:"fallbackLimit,omitempty"`
	Ops              []Op   `json:"ops"`
	Conc             [][]Op `json:"conc,omitempty"`
}

var refNames = []string{"", "latest", "v1", "@self"}

func genCase(kind string) func(t *rapid.T) Case {
	return func(t *rapid.T) Case {
		max, steps := 9, 25
		if vt.Thorough() {
			max, steps = 12, 60
		}
		o := gen.DAGOpts{MaxNodes: max, NoBigBlobs: true, NoAbsent: true}
		c := Case{Kind: kind}
		switch kind {
		case "oci":
			c.AutoSave = rapid.Bool().Draw(t, "autoSave")
			// histories contain Delete: single media type per digest
			o.SingleMT = true
		case "file":
			o.Titles = true
			o.UniqueBytes = true
			c.IgnoreNoName = rapid.IntRange(0, 4).Draw(t, "ignoreNoName") == 0
			c.DisableOverwrite = rapid.IntRange(0, 2).Draw(t, "disableOverwrite") == 0
			if rapid.IntRange(0, 2).Draw(t, "smallLimit") == 0 {
				c.FallbackLimit = int64(rapid.IntRange(1, 400).Draw(t, "limit"))
			}
		}
		c.Specs = gen.Specs(t, o)
		d := gen.Build(c.Specs)
		ids := d.CanonIDs()
		if kind == "file" {
			for _, id := range ids {
				if d.Nodes[id].Spec.Title != "" && rapid.IntRange(0, 5).Draw(t, "pre") == 0 {
					c.PreExisting = append(c.PreExisting, id)
				}
			}
		}
		genOp := func(allowMut bool) Op {
			n := rapid.SampledFrom(ids).Draw(t, "n")
			r := rapid.IntRange(0, 99).Draw(t, "opRoll")
			switch {
			case r < 30:
				return Op{Op: "push", N: n}
			case r < 38:
				op := Op{Op: "pushbad", N: n, Bad: rapid.SampledFrom([]string{"flip", "short", "empty"}).Draw(t, "bad")}
				if kind == "file" {
					op.Alt = rapid.IntRange(0, 2).Draw(t, "altName") == 1
				}
				return op
			case r < 46:
				return Op{Op: "fetch", N: n}
			case r < 52:
				return Op{Op: "exists", N: n}
			case r < 72:
				return Op{Op: "tag", N: n, Ref: rapid.SampledFrom(refNames).Draw(t, "ref"), Ann: rapid.SampledFrom([]string{"", "", "a", "b"}).Draw(t, "tagAnn")}
			case r < 82:
				return Op{Op: "resolve", Ref: rapid.SampledFrom(refNames[:3]).Draw(t, "rref")}
			}
			if kind == "oci" && allowMut {
				switch {
				case r < 86:
					return Op{Op: "untag", N: n, Ref: rapid.SampledFrom(refNames).Draw(t, "uref")}
				case r < 97:
					return Op{Op: "delete", N: n}
				default:
					return Op{Op: "tags", Ref: rapid.SampledFrom([]string{"", "latest", "m"}).Draw(t, "last")}
				}
			}
			return Op{Op: "push", N: n}
		}
		n := rapid.IntRange(6, steps).Draw(t, "nOps")
		for i := 0; i < n; i++ {
			c.Ops = append(c.Ops, genOp(true))
		}
		if rapid.IntRange(0, 2).Draw(t, "hasConc") == 0 {
			k := rapid.IntRange(2, 4).Draw(t, "k")
			for g := 0; g < k; g++ {
				var l []Op
				m := rapid.IntRange(1, 6).Draw(t, "nConcOps")
				for i := 0; i < m; i++ {
					op := genOp(false)
					if op.Op == "pushbad" {
						op.Op = "push"
						op.Bad = ""
					}
					l = append(l, op)
				}
				c.Conc = append(c.Conc, l)
			}
		}
		return c
	}
}

// ---------------------------------------------------------------------------------
// reference model

type tagVal struct {
	node int
	ann  string
}

// tagDesc is the descriptor handed to Tag for a node and an annotation variant.
func tagDesc(n *gen.Node, ann string) ocispec.Descriptor {
	d := n.PushDesc()
	if ann != "" {
		m := map[string]string{"verif.v": ann}
		for k, v := range d.Annotations {
			m[k] = v
		}
		d.Annotations = m
	}
	return d
}

type tmodel struct {
	c       *Case
	d       *gen.DAG
	content map[string]bool // memory/file-fallback: triple; oci: digest
	names   map[string]bool // file: existing names
	dpaths  map[string]bool // file: digests that have a named file
	tags    map[string]tagVal
}

func newModel(c *Case, d *gen.DAG) *tmodel {
	return &tmodel{c: c, d: d, content: map[string]bool{}, names: map[string]bool{}, dpaths: map[string]bool{}, tags: map[string]tagVal{}}
}

func (m *tmodel) key(n *gen.Node) string {
	if m.c.Kind == "oci" {
		return n.Desc.Digest.String()
	}
	return gen.TripleKey(n.Desc)
}

func (m *tmodel) has(n *gen.Node) bool {
	if m.c.Kind == "file" {
		if t := n.Spec.Title; t != "" && !m.names[t] {
			return false
		}
		if m.dpaths[n.Desc.Digest.String()] {
			return true
		}
	}
	return m.content[m.key(n)]
}

func (m *tmodel) refString(op Op) string {
	if op.Ref == "@self" {
		return m.d.Nodes[op.N].Desc.Digest.String()
	}
	return op.Ref
}

var errAny = errors.New("any error")

// expectPush returns the error class a Push must report (nil = success) and applies
// the effect of a successful push of good content.
func (m *tmodel) expectPush(n *gen.Node, bad bool, preExisting map[int]bool) error {
	switch m.c.Kind {
	case "memory", "oci":
		if m.content[m.key(n)] {
			return errdef.ErrAlreadyExists
		}
		if bad {
			return errAny
		}
		m.content[m.key(n)] = true
		return nil
	}
	// file
	if t := n.Spec.Title; t != "" {
		if m.names[t] {
			return file.ErrDuplicateName
		}
		if m.c.DisableOverwrite && preExisting[n.ID] {
			return file.ErrOverwriteDisallowed
		}
		if bad {
			return errAny
		}
		m.names[t] = true
		m.dpaths[n.Desc.Digest.String()] = true
		return nil
	}
	if m.c.IgnoreNoName {
		return nil // discarded silently, as documented
	}
	if m.content[m.key(n)] {
		return errdef.ErrAlreadyExists
	}
	limit := m.c.FallbackLimit
	if limit <= 0 {
		limit = 1 << 22
	}
	if n.Desc.Size > limit {
		return errdef.ErrSizeExceedsLimit
	}
	if bad {
		return errAny
	}
	m.content[m.key(n)] = true
	return nil
}

func (m *tmodel) expectTag(n *gen.Node, ref string, ann ...string) error {
	if ref == "" && m.c.Kind != "memory" {
		return errdef.ErrMissingReference
	}
	if !m.has(n) {
		return errdef.ErrNotFound
	}
	if m.c.Kind == "oci" && ref == n.Desc.Digest.String() {
		return nil // the digest entry is not a tag
	}
	tv := tagVal{node: n.ID}
	if len(ann) > 0 {
		tv.ann = ann[0]
	}
	m.tags[ref] = tv
	return nil
}

func (m *tmodel) expectUntag(ref string, self bool) error {
	if ref == "" {
		return errdef.ErrMissingReference
	}
	return nil
}

func (m *tmodel) delete(n *gen.Node) {
	delete(m.content, m.key(n))
	for r, v := range m.tags {
		if v.node == n.ID {
			delete(m.tags, r)
		}
	}
}

func (m *tmodel) tagList(last string) []string {
	var out []string
	for r := range m.tags {
		if last == "" || r > last {
			out = append(out, r)
		}
	}
	sort.Strings(out)
	return out
}

// ---------------------------------------------------------------------------------

type store interface {
	content.Storage
	content.TagResolver
}

func badBytes(b []byte, how string) []byte {
	switch how {
	case "flip":
		if len(b) == 0 {
			return []byte{0}
		}
		c := append([]byte(nil), b...)
		c[len(c)/2] ^= 0x41
		return c
	case "short":
		if len(b) == 0 {
			return []byte{1}
		}
		return b[:len(b)-1]
	case "long":
		return append(append([]byte(nil), b...), 'x')
	default:
		if len(b) == 0 {
			return []byte{2}
		}
		return nil
	}
}

func hashOK(desc ocispec.Descriptor, b []byte) bool {
	switch desc.Digest.Algorithm().String() {
	case "sha256":
		h := sha256.Sum256(b)
		return hex.EncodeToString(h[:]) == desc.Digest.Encoded()
	case "sha512":
		h := sha512.Sum512(b)
		return hex.EncodeToString(h[:]) == desc.Digest.Encoded()
	}
	return false
}

func classOf(err error) string {
	switch {
	case err == nil:
		return "nil"
	case errors.Is(err, errdef.ErrAlreadyExists):
		return "already-exists"
	case errors.Is(err, file.ErrDuplicateName):
		return "duplicate-name"
	case errors.Is(err, errdef.ErrNotFound):
		return "not-found"
	case errors.Is(err, errdef.ErrMissingReference):
		return "missing-reference"
	case errors.Is(err, errdef.ErrInvalidReference):
		return "invalid-reference"
	case errors.Is(err, errdef.ErrSizeExceedsLimit):
		return "size-exceeds-limit"
	case errors.Is(err, file.ErrOverwriteDisallowed):
		return "overwrite-disallowed"
	}
	return "other-error"
}

func matches(got, want error) bool {
	if want == nil {
		return got == nil
	}
	if want == errAny {
		return got != nil
	}
	return errors.Is(got, want)
}

func runCase(c Case) (res vt.Result, fail *vt.Fail) {
	ctx := context.Background()
	d := gen.Build(c.Specs)
	root := vt.Scratch("c06-")
	defer os.RemoveAll(root)
	var s store
	var ociS *oci.Store
	preExisting := map[int]bool{}
	switch c.Kind {
	case "memory":
		s = memory.New()
	case "oci":
		st, err := oci.New(filepath.Join(root, "layout"))
		if err != nil {
			return res, vt.Failf("harness/oci-new", "%v", err)
		}
		st.AutoGC = false
		st.AutoSaveIndex = c.AutoSave
		s, ociS = st, st
	case "file":
		wd := filepath.Join(root, "wd")
		for _, id := range c.PreExisting {
			p := filepath.Join(wd, d.Nodes[id].Spec.Title)
			if err := os.MkdirAll(filepath.Dir(p), 0o755); err != nil {
				return res, vt.Failf("harness/pre", "%v", err)
			}
			if err := os.WriteFile(p, []byte("pre-existing"), 0o644); err != nil {
				return res, vt.Failf("harness/pre", "%v", err)
			}
			preExisting[id] = true
		}
		var st *file.Store
		var err error
		if c.FallbackLimit > 0 {
			st, err = file.NewWithFallbackLimit(wd, c.FallbackLimit)
		} else {
			st, err = file.New(wd)
		}
		if err != nil {
			return res, vt.Failf("harness/file-new", "%v", err)
		}
		defer st.Close()
		st.IgnoreNoName = c.IgnoreNoName
		st.DisableOverwrite = c.DisableOverwrite
		s = st
	}
	m := newModel(&c, d)
	classes := map[string]bool{}
	refused, retag, absentOp := 0, 0, 0

	sweep := func(when string) *vt.Fail {
		for _, id := range d.CanonIDs() {
			n := d.Nodes[id]
			pd := n.PushDesc()
			ok, err := s.Exists(ctx, pd)
			if err != nil {
				return vt.Failf("C06/exists-error", "%s: Exists(node %d): %v", when, id, err)
			}
			if ok != m.has(n) {
				return vt.Failf("C06/exists-mismatch", "%s: Exists(node %d %s title=%q) = %v, model says %v", when, id, n.Spec.Kind, n.Spec.Title, ok, m.has(n))
			}
			b, err := gen.ReadBack(ctx, s, pd)
			if m.has(n) {
				if err != nil {
					return vt.Failf("C06/fetch-error", "%s: Fetch(node %d): %v", when, id, err)
				}
				if !bytes.Equal(b, n.Bytes) {
					return vt.Failf("C06/fetch-bytes", "%s: Fetch(node %d) returned %d bytes, not the %d pushed", when, id, len(b), len(n.Bytes))
				}
			} else if err == nil {
				return vt.Failf("C06/fetch-absent-succeeded", "%s: Fetch(node %d) succeeded for absent content", when, id)
			} else if !errors.Is(err, errdef.ErrNotFound) {
				return vt.Failf("C06/fetch-absent-error-class", "%s: Fetch(absent node %d): %v, want not-found", when, id, err)
			}
		}
		if c.Kind == "file" {
			// the same questions asked with the plain descriptor (no title): the
			// file store answers those from its digest index / fallback storage
			for _, id := range d.CanonIDs() {
				n := d.Nodes[id]
				if n.Spec.Title == "" {
					continue
				}
				want := m.dpaths[n.Desc.Digest.String()] || m.content[m.key(n)]
				ok, err := s.Exists(ctx, n.Desc)
				if err != nil || ok != want {
					return vt.Failf("C06/exists-mismatch-plain-descriptor", "%s: Exists(node %d without its title) = %v (err %v), model says %v", when, id, ok, err, want)
				}
				b, err := gen.ReadBack(ctx, s, n.Desc)
				if want && (err != nil || !bytes.Equal(b, n.Bytes)) {
					return vt.Failf("C06/fetch-mismatch-plain-descriptor", "%s: Fetch(node %d without its title): %d bytes, err %v", when, id, len(b), err)
				}
				if !want && err == nil {
					return vt.Failf("C06/fetch-absent-succeeded", "%s: Fetch(node %d without its title) succeeded for absent content", when, id)
				}
			}
		}
		for _, ref := range refNames[:3] {
			desc, err := s.Resolve(ctx, ref)
			tv, ok := m.tags[ref]
			switch {
			case ref == "" && c.Kind != "memory":
				if !errors.Is(err, errdef.ErrMissingReference) {
					return vt.Failf("C06/resolve-empty", "%s: Resolve(\"\") = %v, want missing-reference", when, err)
				}
			case !ok:
				if !errors.Is(err, errdef.ErrNotFound) {
					return vt.Failf("C06/resolve-unknown", "%s: Resolve(%q) = %v/%v, want not-found", when, ref, desc.Digest, err)
				}
			default:
				n := d.Nodes[tv.node]
				if err != nil {
					return vt.Failf("C06/resolve-error", "%s: Resolve(%q): %v", when, ref, err)
				}
				if desc.Digest != n.Desc.Digest || desc.Size != n.Desc.Size || desc.MediaType != n.Desc.MediaType {
					return vt.Failf("C06/resolve-mismatch", "%s: Resolve(%q) = %s, model says node %d %s", when, ref, gen.TripleKey(desc), n.ID, gen.TripleKey(n.Desc))
				}
				if got := desc.Annotations["verif.v"]; got != tv.ann {
					return vt.Failf("C06/resolve-not-latest-descriptor", "%s: Resolve(%q) carries annotation verif.v=%q, the descriptor most recently tagged there carried %q", when, ref, got, tv.ann)
				}
			}
		}
		if ociS != nil {
			var got []string
			if err := ociS.Tags(ctx, "", func(t []string) error { got = append(got, t...); return nil }); err != nil {
				return vt.Failf("C06/tags-error", "%s: %v", when, err)
			}
			if fmt.Sprint(got) != fmt.Sprint(m.tagList("")) {
				return vt.Failf("C06/tags-mismatch", "%s: Tags = %v, model %v", when, got, m.tagList(""))
			}
		}
		return nil
	}

	for i, op := range c.Ops {
		n := d.Nodes[d.Nodes[op.N].Canon]
		when := fmt.Sprintf("step %d (%s n=%d ref=%q bad=%q)", i, op.Op, op.N, op.Ref, op.Bad)
		switch op.Op {
		case "push", "pushbad":
			bad := op.Op == "pushbad"
			body := n.Bytes
			if bad {
				body = badBytes(n.Bytes, op.Bad)
			}
			if !m.has(n) {
				absentOp++
			}
			pdesc := n.PushDesc()
			var want error
			if bad && op.Alt && c.Kind == "file" && n.Spec.Title != "" {
				// refused whatever the store holds, and nothing changes (the sweep below)
				pdesc.Annotations = map[string]string{ocispec.AnnotationTitle: n.Spec.Title + ".alt"}
				want = errAny
				if m.has(n) {
					classes["bad-push-of-held-digest-under-second-name"] = true
				}
			} else {
				want = m.expectPush(n, bad, preExisting)
			}
			var body0 io.Reader = bytes.NewReader(body)
			if i%2 == 1 {
				// as net/http bodies do: the last bytes arrive together with io.EOF
				body0 = iotest.DataErrReader(body0)
			}
			got := s.Push(ctx, pdesc, body0)
			if !matches(got, want) {
				return res, vt.Failf("C06/push-result", "%s: Push returned %v (%s), model expects %v", when, got, classOf(got), want)
			}
			if got != nil {
				refused++
				classes["refused-"+classOf(got)] = true
			}
		case "fetch", "exists":
			// covered by the sweep below (every node, every step)
		case "tag":
			ref := m.refString(op)
			if old, ok := m.tags[ref]; ok && old.node != n.ID {
				retag++
			}
			if !m.has(n) {
				absentOp++
			}
			want := m.expectTag(n, ref, op.Ann)
			got := s.Tag(ctx, tagDesc(n, op.Ann), ref)
			if op.Ann != "" {
				classes["tag-with-annotated-descriptor"] = true
			}
			if !matches(got, want) {
				return res, vt.Failf("C06/tag-result", "%s: Tag returned %v (%s), model expects %v", when, got, classOf(got), want)
			}
			if got != nil {
				refused++
				classes["refused-"+classOf(got)] = true
			}
		case "resolve":
			// covered by the sweep
		case "untag":
			ref := m.refString(op)
			var want error
			switch {
			case ref == "":
				want = errdef.ErrMissingReference
			case op.Ref == "@self":
				// a digest is not a tag: invalid-reference when the digest entry
				// exists, not-found otherwise
				want = errAny
			default:
				if _, ok := m.tags[ref]; !ok {
					want = errdef.ErrNotFound
				} else {
					delete(m.tags, ref)
				}
			}
			got := ociS.Untag(ctx, ref)
			if !matches(got, want) {
				return res, vt.Failf("C06/untag-result", "%s: Untag returned %v (%s), model expects %v", when, got, classOf(got), want)
			}
			if got != nil {
				refused++
			}
		case "delete":
			var want error
			if !m.has(n) {
				want = errdef.ErrNotFound
				absentOp++
			} else {
				m.delete(n)
			}
			got := ociS.Delete(ctx, n.Desc)
			if !matches(got, want) {
				return res, vt.Failf("C06/delete-result", "%s: Delete returned %v (%s), model expects %v", when, got, classOf(got), want)
			}
			if got != nil {
				refused++
			}
			classes["delete"] = true
		case "tags":
			var got []string
			if err := ociS.Tags(ctx, op.Ref, func(t []string) error { got = append(got, t...); return nil }); err != nil {
				return res, vt.Failf("C06/tags-error", "%s: %v", when, err)
			}
			if fmt.Sprint(got) != fmt.Sprint(m.tagList(op.Ref)) {
				return res, vt.Failf("C06/tags-mismatch", "%s: Tags(%q) = %v, model %v", when, op.Ref, got, m.tagList(op.Ref))
			}
		}
		if f := sweep("after " + when); f != nil {
			return res, f
		}
	}
	if refused > 0 {
		classes["has-refused-op"] = true
	}
	if retag > 0 {
		classes["has-retag"] = true
	}
	if absentOp > 0 {
		classes["has-op-on-absent"] = true
	}
	res.NonTrivial = refused > 0 && retag > 0 && absentOp > 0 && len(c.Ops) >= 6

	// concurrent phase
	if len(c.Conc) > 0 {
		if f := runConcurrent(ctx, &c, d, s, m, preExisting, classes); f != nil {
			res.Classes = keys(classes)
			return res, f
		}
		if f := sweep("after concurrent phase"); f != nil {
			res.Classes = keys(classes)
			return res, f
		}
		if c.Kind == "oci" && c.AutoSave {
			// the quiesced state includes what the layout persisted: every tag the
			// live store serves is served, with the same target, by a reopened one
			re, err := oci.New(filepath.Join(root, "layout"))
			if err != nil {
				return res, vt.Failf("C06/reopen-failed", "after concurrent phase: %v", err)
			}
			var live []string
			if err := ociS.Tags(ctx, "", func(t []string) error { live = append(live, t...); return nil }); err != nil {
				return res, vt.Failf("C06/tags-error", "after concurrent phase: %v", err)
			}
			for _, ref := range live {
				a, errA := ociS.Resolve(ctx, ref)
				b, errB := re.Resolve(ctx, ref)
				if errA != nil || errB != nil || gen.TripleKey(a) != gen.TripleKey(b) {
					res.Classes = keys(classes)
					return res, vt.Failf("C06/concurrent-tag-not-persisted", "after concurrent phase: Resolve(%q) live = %s (%v), reopened layout = %s (%v)", ref, gen.TripleKey(a), errA, gen.TripleKey(b), errB)
				}
			}
			classes["conc-reopen-compared"] = true
		}
	}
	res.Classes = keys(classes)
	return res, nil
}

// gate lets the first Read of `need` readers proceed together (or after a timeout).
type gate struct {
	mu      sync.Mutex
	need    int
	arrived int
	ch      chan struct{}
	closed  bool
}

func (g *gate) wait() {
	g.mu.Lock()
	g.arrived++
	if g.arrived >= g.need && !g.closed {
		g.closed = true
		close(g.ch)
	}
	g.mu.Unlock()
	select {
	case <-g.ch:
	case <-time.After(20 * time.Millisecond):
	}
}

type gateReader struct {
	r    io.Reader
	g    *gate
	once sync.Once
}

func (r *gateReader) Read(p []byte) (int, error) {
	r.once.Do(r.g.wait)
	return r.r.Read(p)
}

// runConcurrent runs the per-goroutine lists at once. The operations generated for
// this phase (push of good content, tag, fetch, exists, resolve) commute except for
// tags on the same reference, so the set of sequentially reachable final states is:
// content = pre-phase content + every pushed node (that the model accepts), each
// reference = the last Tag of that reference in SOME goroutine that tags it
// successfully (or the pre-phase value when nobody does). The model is advanced to
// the state actually observed if it is in that set.
func runConcurrent(ctx context.Context, c *Case, d *gen.DAG, s store, m *tmodel, preExisting map[int]bool, classes map[string]bool) *vt.Fail {
	type result struct {
		err  error
		data []byte
		desc ocispec.Descriptor
	}
	results := make([][]result, len(c.Conc))
	// pushes of the same node from several goroutines rendezvous inside their first
	// Read, i.e. after each store has done its "already exists?" pre-check
	pushers := map[int]int{}
	for _, l := range c.Conc {
		seen := map[int]bool{}
		for _, op := range l {
			id := d.Nodes[op.N].Canon
			if op.Op == "push" && !seen[id] {
				seen[id] = true
				pushers[id]++
			}
		}
	}
	gates := map[int]*gate{}
	for id, k := range pushers {
		if k >= 2 {
			gates[id] = &gate{need: k, ch: make(chan struct{})}
		}
	}
	var wg sync.WaitGroup
	for g, l := range c.Conc {
		results[g] = make([]result, len(l))
		wg.Add(1)
		go func(g int, l []Op) {
			defer wg.Done()
			for i, op := range l {
				n := d.Nodes[d.Nodes[op.N].Canon]
				switch op.Op {
				case "push":
					var rd io.Reader = bytes.NewReader(n.Bytes)
					if gt := gates[n.ID]; gt != nil {
						rd = &gateReader{r: rd, g: gt}
					}
					results[g][i].err = s.Push(ctx, n.PushDesc(), rd)
				case "fetch":
					b, err := gen.ReadBack(ctx, s, n.PushDesc())
					results[g][i] = result{err: err, data: b}
				case "exists":
					_, err := s.Exists(ctx, n.PushDesc())
					results[g][i].err = err
				case "tag":
					results[g][i].err = s.Tag(ctx, n.PushDesc(), m.refString(op))
				case "resolve":
					desc, err := s.Resolve(ctx, op.Ref)
					results[g][i] = result{err: err, desc: desc}
				}
			}
		}(g, l)
	}
	wg.Wait()
	classes["concurrent-phase"] = true

	// per-op admissibility and model advance
	pre := map[int]bool{}
	for _, id := range d.CanonIDs() {
		pre[id] = m.has(d.Nodes[id])
	}
	pushNil := map[int]int{}
	pushed := map[int]bool{}
	for g, l := range c.Conc {
		for i, op := range l {
			n := d.Nodes[d.Nodes[op.N].Canon]
			r := results[g][i]
			switch op.Op {
			case "push":
				pushed[n.ID] = true
				if r.err == nil {
					pushNil[n.ID]++
				}
			case "fetch":
				if r.err == nil && !hashOK(n.Desc, r.data) {
					return vt.Failf("C06/concurrent-fetch-bytes", "goroutine %d op %d: Fetch(node %d) returned bytes that do not match its digest", g, i, n.ID)
				}
				if pre[n.ID] && r.err != nil {
					return vt.Failf("C06/concurrent-fetch-present", "goroutine %d op %d: Fetch(node %d), present before the phase, failed: %v", g, i, n.ID, r.err)
				}
			case "exists":
				if r.err != nil {
					return vt.Failf("C06/concurrent-exists-error", "goroutine %d op %d: %v", g, i, r.err)
				}
			}
		}
	}
	// advance content
	for _, id := range gen.SortedKeys(pushed) {
		n := d.Nodes[id]
		before := m.has(n)
		want := m.expectPush(n, false, preExisting)
		if want == nil && !before && m.has(n) {
			if pushNil[id] == 0 {
				return vt.Failf("C06/concurrent-push-lost", "node %d was pushed by %d concurrent calls, none returned nil", id, len(c.Conc))
			}
		}
		if want == nil && !before && pushNil[id] > 1 && c.Kind != "oci" && !(c.Kind == "file" && c.IgnoreNoName) {
			// no sequential order lets two pushes of the same content both succeed
			// (the OCI layout is exempt: its rename-into-place admits both)
			return vt.Failf("C06/concurrent-duplicate-push-accepted-twice", "node %d: %d concurrent pushes of the same content returned nil", id, pushNil[id])
		}
		if want != nil && pushNil[id] > 0 && !(c.Kind == "file" && c.IgnoreNoName) {
			return vt.Failf("C06/concurrent-push-accepted", "push of node %d returned nil although the model refuses it with %v", id, want)
		}
	}
	// tags: candidates per reference
	cands := map[string]map[int]bool{}
	for g, l := range c.Conc {
		lastOK := map[string]int{}
		for i, op := range l {
			if op.Op != "tag" {
				continue
			}
			n := d.Nodes[d.Nodes[op.N].Canon]
			ref := m.refString(op)
			r := results[g][i]
			if ref == "" && c.Kind != "memory" {
				if !errors.Is(r.err, errdef.ErrMissingReference) {
					return vt.Failf("C06/concurrent-tag-empty", "goroutine %d op %d: Tag(\"\") = %v", g, i, r.err)
				}
				continue
			}
			if m.has(n) && pre[n.ID] && r.err != nil {
				return vt.Failf("C06/concurrent-tag-present", "goroutine %d op %d: Tag of content present before the phase failed: %v", g, i, r.err)
			}
			if !m.has(n) && r.err == nil {
				return vt.Failf("C06/concurrent-tag-absent", "goroutine %d op %d: Tag of content that is absent in every order returned nil", g, i)
			}
			if r.err == nil && !(c.Kind == "oci" && ref == n.Desc.Digest.String()) {
				lastOK[ref] = n.ID
			}
		}
		for ref, id := range lastOK {
			if cands[ref] == nil {
				cands[ref] = map[int]bool{}
			}
			cands[ref][id] = true
		}
	}
	for ref, set := range cands {
		desc, err := s.Resolve(ctx, ref)
		if err != nil {
			return vt.Failf("C06/concurrent-tag-lost", "Resolve(%q) after concurrent tags: %v", ref, err)
		}
		found := -1
		for id := range set {
			if gen.TripleKey(d.Nodes[id].Desc) == gen.TripleKey(desc) {
				found = id
			}
		}
		if found < 0 {
			return vt.Failf("C06/concurrent-tag-not-sequential", "Resolve(%q) = %s is not the last tag of any goroutine (candidates %v)", ref, gen.TripleKey(desc), gen.SortedKeys(set))
		}
		m.tags[ref] = tagVal{node: found}
	}
	return nil
}

func keys(m map[string]bool) []string {
	var out []string
	for k := range m {
		out = append(out, k)
	}
	sort.Strings(out)
	return out
}

func TestMain(m *testing.M) {
	vt.ReplayRepeat["tagdelete"] = 100
	vt.ReplayRepeat["oci"] = 40
	vt.ReplayRepeat["nameclash"] = 20
	vt.Main(m, "C06",
		vt.NewLeg("memory", 1500, 6000, 4, genCase("memory"), runCase),
		vt.NewLeg("oci", 2000, 4000, 8, genCase("oci"), runCase),
		vt.NewLeg("file", 700, 3000, 4, genCase("file"), runCase),
		vt.NewLeg("nameclash", 400, 2000, 4, genClash, runClash),
		vt.NewLeg("tagdelete", 300, 1500, 4, genTagDelete, runTagDelete),
	)
}

func TestLegs(t *testing.T)   { vt.TestLegs(t) }
func TestReplay(t *testing.T) { vt.TestReplay(t) }
