package c20

import "github.com/opencontainers/go-digest"

func digestOf(s string) digest.Digest { return digest.Digest(s) }
