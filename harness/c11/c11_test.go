package c11

import (
	"archive/tar"
	"bytes"
	"compress/gzip"
	"context"
	"encoding/json"
	"fmt"
	"os"
	"path/filepath"
	"strings"
	"testing"
	"time"

	"github.com/opencontainers/go-digest"
	ocispec "github.com/opencontainers/image-spec/specs-go/v1"
	"oras.land/oras-go/v2/content/file"
	"pgregory.net/rapid"

	"verif/harness/fsx"
	"verif/harness/vt"
)

// TEntry is one tar entry of a case.
type TEntry struct {
	Type string `json:"type"` // reg, dir, sym, link, char, fifo
	Name string `json:"name"`
	Link string `json:"link,omitempty"`
	Mode int64  `json:"mode"`
	Data string `json:"data,omitempty"`
}

// Case is one push into a file store inside a sandbox.
type Case struct {
	Kind     string   `json:"kind"`  // title, tar
	Title    string   `json:"title"` // name annotation ("@OUT" / "@WD" are replaced by absolute sandbox paths)
	Entries  []TEntry `json:"entries,omitempty"`
	Preserve bool     `json:"preservePermissions,omitempty"`
	PrePop   int      `json:"prePopulated,omitempty"` // 0 empty wd, 1 files/dirs, 2 also symlinks pointing outside
	// Then: titles of named blobs pushed into the same store after the archive was
	// unpacked (what an artifact with several layers does); ThenUnpack: the last of
	// them is a small archive unpacked at that title
	// DisableOverwrite: the store's option of that name is set (the statement's
	// "default options" fixes AllowPathTraversalOnWrite only)
	DisableOverwrite bool     `json:"disableOverwrite,omitempty"`
	Then             []string `json:"then,omitempty"`
	ThenUnpack       bool     `json:"thenUnpack,omitempty"`
}

var segs = []string{"a", "b", "d1", "d2", "..", ".", "s1", "s2", "victim.txt"}

func genName(t *rapid.T, label string, prefixMode int) string {
	n := rapid.IntRange(1, 4).Draw(t, label+"Len")
	var parts []string
	for i := 0; i < n; i++ {
		parts = append(parts, rapid.SampledFrom(segs).Draw(t, label+"Seg"))
	}
	p := strings.Join(parts, "/")
	switch prefixMode {
	case 0:
		return "name/" + p
	case 1:
		return "./name/" + p
	case 2:
		return "@WD/name/" + p
	case 3:
		return p
	default:
		return "name/" + p + "/"
	}
}

var linkTargets = []string{"d1/d2/s2/../../out", "a", "b", "d1", "d1/d2", "..", "../..", "../../out/victim.txt", "s1/..", "s1/../..", "d1/d2/s2/../..", "d1/d2/s2/../../..", "@OUT/victim.txt", "@OUT", "@WD/name/a", "@WD/other", "cwdfile.txt", "./cwdfile.txt", "victim.txt", "/etc/verif-nonexistent", "s1/../../out/victim.txt", "name/a"}

func genCase(t *rapid.T) Case {
	c := Case{PrePop: rapid.IntRange(0, 2).Draw(t, "prePop"), Preserve: rapid.Bool().Draw(t, "preserve")}
	c.DisableOverwrite = rapid.IntRange(0, 3).Draw(t, "disableOverwrite") == 1
	switch rapid.IntRange(0, 14).Draw(t, "kind3") {
	case 0:
		// a harmless named blob first, then a manifest that lists the same content
		// under another (possibly escaping) name: the store restores duplicates
		c.Kind = "manifest-dup"
		c.Title = rapid.SampledFrom([]string{"copy.txt", "sub/copy.txt", "../x.txt", "sub/../../x.txt", "@OUT/victim.txt", "@OUT/new.txt", "@SIB/victim.txt", "../../out/victim.txt", "./ok2.txt"}).Draw(t, "dupTitle")
		return c
	case 1:
		c.Kind = "tar-title"
		c.Title = rapid.SampledFrom([]string{"@SIB/unpacked", "../wd-backup/unpacked", "@OUT/unpacked", "sub/dir", "a/../b"}).Draw(t, "tarTitle")
		c.Entries = []TEntry{{Type: "dir", Name: "@T/d/", Mode: 0o755}, {Type: "reg", Name: "@T/d/f.txt", Mode: 0o644, Data: "unpacked"}, {Type: "reg", Name: "@T/victim.txt", Mode: 0o644, Data: "unpacked2"}}
		return c
	}
	if rapid.IntRange(0, 4).Draw(t, "kind") == 0 {
		c.Kind = "title"
		c.Title = rapid.SampledFrom([]string{"f.txt", "./f.txt", "a/../b.txt", "../x.txt", "../../out/victim.txt", "@WD/in.txt", "@OUT/victim.txt", "a//b.txt", "d/", ".", "..", "a/../../out/victim.txt", "/etc/verif-nonexistent/x", "@SIB/victim.txt", "@SIB/new/x.txt", "../wd-backup/victim.txt"}).Draw(t, "title")
		return c
	}
	c.Kind = "tar"
	c.Title = "name"
	mode := func(label string) int64 {
		return rapid.SampledFrom([]int64{0o644, 0o600, 0o755, 0o777, 0o4755, 0o444}).Draw(t, label)
	}
	add := func(e TEntry) { c.Entries = append(c.Entries, e) }
	tmpl := rapid.IntRange(0, 14).Draw(t, "template")
	pm := rapid.SampledFrom([]int{0, 0, 0, 1, 2}).Draw(t, "prefixMode")
	switch tmpl {
	case 0: // symlink, then write through it
		tgt := rapid.SampledFrom(linkTargets).Draw(t, "t0")
		add(TEntry{Type: "sym", Name: "name/s1", Link: tgt})
		if rapid.Bool().Draw(t, "through") {
			add(TEntry{Type: "reg", Name: "name/s1/f.txt", Mode: mode("m"), Data: "through"})
		} else {
			add(TEntry{Type: "reg", Name: "name/s1", Mode: mode("m"), Data: "onto"})
		}
	case 1: // symlink whose target passes through an earlier symlink followed by ..
		add(TEntry{Type: "dir", Name: "name/d1/d2/", Mode: 0o755})
		add(TEntry{Type: "sym", Name: "name/d1/d2/s2", Link: rapid.SampledFrom([]string{"../..", "../../..", ".."}).Draw(t, "q")})
		add(TEntry{Type: "sym", Name: "name/esc", Link: rapid.SampledFrom([]string{"d1/d2/s2/../../victim.txt", "d1/d2/s2/../../../out/victim.txt", "d1/d2/s2/../..", "d1/d2/s2/.."}).Draw(t, "esc")})
		if rapid.Bool().Draw(t, "fileOrSub") {
			add(TEntry{Type: "reg", Name: "name/esc", Mode: mode("m"), Data: "pwned"})
		} else {
			add(TEntry{Type: "reg", Name: "name/esc/victim.txt", Mode: mode("m"), Data: "pwned"})
		}
	case 2: // symlink created before the directory it traverses
		add(TEntry{Type: "sym", Name: "name/s1", Link: rapid.SampledFrom(linkTargets).Draw(t, "t2")})
		add(TEntry{Type: "dir", Name: "name/s1/sub/", Mode: 0o755})
		add(TEntry{Type: "reg", Name: "name/s1/sub/f", Mode: mode("m"), Data: "x"})
	case 3: // hard link, then overwrite
		add(TEntry{Type: "link", Name: "name/h", Link: rapid.SampledFrom(linkTargets).Draw(t, "t3")})
		add(TEntry{Type: "reg", Name: "name/h", Mode: mode("m"), Data: "overwritten"})
	case 4: // dir entry over a symlink, then a file below
		add(TEntry{Type: "sym", Name: "name/s1", Link: rapid.SampledFrom(linkTargets).Draw(t, "t4")})
		add(TEntry{Type: "dir", Name: "name/s1/", Mode: mode("m")})
		add(TEntry{Type: "reg", Name: "name/s1/g", Mode: mode("m2"), Data: "y"})
	case 10: // an empty directory (kept empty by a skipped entry) is replaced by an escaping symlink, then written through
		add(TEntry{Type: "dir", Name: "name/d1/d2/", Mode: 0o755})
		add(TEntry{Type: "sym", Name: "name/d1/d2/s2", Link: "../.."})
		add(TEntry{Type: "dir", Name: "name/e/", Mode: 0o755})
		add(TEntry{Type: rapid.SampledFrom([]string{"fifo", "char"}).Draw(t, "skipped"), Name: "name/e/pipe", Mode: 0o644})
		add(TEntry{Type: "sym", Name: "name/e", Link: rapid.SampledFrom([]string{"d1/d2/s2/../../out", "d1/d2/s2/../../wd-backup", "d1/d2/s2/.."}).Draw(t, "t10")})
		add(TEntry{Type: "reg", Name: "name/e/victim.txt", Mode: mode("m"), Data: "through-replaced-dir"})
	case 11: // hard link whose target passes through an earlier symlink followed by ..
		// (lexically inside the tree, physically wherever the symlink leads)
		add(TEntry{Type: "dir", Name: "name/d1/d2/", Mode: 0o755})
		add(TEntry{Type: "sym", Name: "name/d1/d2/s2", Link: rapid.SampledFrom([]string{"../..", "..", "../../a"}).Draw(t, "q11")})
		add(TEntry{Type: "link", Name: "name/d1/d2/h", Link: rapid.SampledFrom([]string{"s2/../../victim.txt", "s2/../victim.txt", "s2/../../out/victim.txt", "s2/../../../victim.txt", "s2/../../wd-backup/x"}).Draw(t, "l11")})
		add(TEntry{Type: "reg", Name: "name/d1/d2/h", Mode: mode("m"), Data: "through-hard-link"})
	case 12: // hard link whose target lies BEHIND a symlink that leads out of the tree
		// (a link pre-populated in the extraction directory, or one the archive builds
		// from targets that are lexically inside: x -> ".", l -> "x/x/../..")
		if rapid.Bool().Draw(t, "builtByArchive") {
			add(TEntry{Type: "sym", Name: "name/x", Link: "."})
			add(TEntry{Type: "sym", Name: "name/l", Link: rapid.SampledFrom([]string{"x/x/../..", "x/x/x/../../..", "x/.."}).Draw(t, "l12")})
			add(TEntry{Type: "link", Name: "name/h", Link: rapid.SampledFrom([]string{"l/victim.txt", "l/out/victim.txt", "l/wd-backup/x", "l/../victim.txt"}).Draw(t, "h12")})
		} else {
			c.PrePop = 2 // name/s2 -> <out>, name/s1 -> <out>/victim.txt exist already
			add(TEntry{Type: "link", Name: "name/h", Link: rapid.SampledFrom([]string{"s2/victim.txt", "s2/odir/f", "s1"}).Draw(t, "h12b")})
		}
		add(TEntry{Type: "reg", Name: "name/h", Mode: mode("m"), Data: "through-link-behind-symlink"})
	case 13: // links that are lexically inside and lead out step by step; the next layers go through them
		add(TEntry{Type: "sym", Name: "name/a", Link: "."})
		add(TEntry{Type: "sym", Name: "name/x", Link: "a/.."})
		add(TEntry{Type: "sym", Name: "name/y", Link: "x/.."})
		add(TEntry{Type: "sym", Name: "name/l", Link: rapid.SampledFrom([]string{"x/../victim.txt", "y/../victim.txt", "y/out/victim.txt"}).Draw(t, "l13")})
		k := rapid.IntRange(1, 2).Draw(t, "nThen13")
		for i := 0; i < k; i++ {
			c.Then = append(c.Then, rapid.SampledFrom([]string{"name/y/victim.txt", "name/y/new.txt", "name/l", "name/x/victim.txt", "name/y/out/victim.txt", "name/y/wd-backup/n.txt", "name/x/../victim.txt", "name/a/ok.txt"}).Draw(t, "then13"))
		}
		c.ThenUnpack = rapid.Bool().Draw(t, "thenUnpack13")
	case 14: // directory entries below a link that leads out, with 1-4 levels that do not exist yet
		base := "name/s2" // pre-populated: name/s2 -> <out>
		if rapid.Bool().Draw(t, "builtByArchive14") {
			add(TEntry{Type: "sym", Name: "name/a", Link: "."})
			add(TEntry{Type: "sym", Name: "name/x", Link: "a/.."})
			add(TEntry{Type: "sym", Name: "name/y", Link: "x/.."})
			base = "name/y"
		} else {
			c.PrePop = 2
		}
		k := rapid.IntRange(1, 4).Draw(t, "missingLevels")
		p := base
		for i := 0; i < k; i++ {
			p += fmt.Sprintf("/new%d", i)
		}
		add(TEntry{Type: "dir", Name: p + "/", Mode: mode("m")})
		if rapid.Bool().Draw(t, "fileBelow14") {
			add(TEntry{Type: "reg", Name: p + "/f.txt", Mode: mode("m2"), Data: "below-missing-levels"})
		}
		if rapid.Bool().Draw(t, "then14") {
			c.Then = append(c.Then, rapid.SampledFrom([]string{base + "/new.txt", base + "/sub/new.txt", base + "/victim.txt", "name/dang"}).Draw(t, "thenTitle14"))
		}
	case 5: // benign tree
		add(TEntry{Type: "dir", Name: "name/d1/", Mode: 0o755})
		add(TEntry{Type: "reg", Name: "name/d1/a", Mode: mode("m"), Data: "hello"})
		add(TEntry{Type: "sym", Name: "name/d1/l", Link: "a"})
		add(TEntry{Type: "reg", Name: "name/b", Mode: mode("m2"), Data: ""})
	default:
		n := rapid.IntRange(1, 8).Draw(t, "nEntries")
		for i := 0; i < n; i++ {
			typ := rapid.SampledFrom([]string{"reg", "reg", "dir", "sym", "sym", "link", "char", "fifo"}).Draw(t, "type")
			e := TEntry{Type: typ, Name: genName(t, "n", pm), Mode: mode("mode")}
			if i > 0 && rapid.IntRange(0, 2).Draw(t, "reuse") == 0 {
				e.Name = c.Entries[rapid.IntRange(0, i-1).Draw(t, "reuseIdx")].Name // re-define an earlier entry
			}
			switch typ {
			case "sym", "link":
				e.Link = rapid.SampledFrom(linkTargets).Draw(t, "link")
			case "reg":
				e.Data = fmt.Sprintf("data-%d", i)
			case "dir":
				if !strings.HasSuffix(e.Name, "/") {
					e.Name += "/"
				}
			}
			add(e)
		}
	}
	if pm != 0 && (tmpl < 6 || tmpl >= 10) {
		for i := range c.Entries {
			switch pm {
			case 1:
				c.Entries[i].Name = "./" + c.Entries[i].Name
			case 2:
				c.Entries[i].Name = "@WD/" + c.Entries[i].Name
			}
		}
	}
	return c
}

type sandbox struct {
	root, wd, out, cwd, tmp, sib string
}

func (s *sandbox) subst(p string) string {
	p = strings.ReplaceAll(p, "@OUT", s.out)
	p = strings.ReplaceAll(p, "@SIB", s.sib) // a sibling directory whose name starts with the working directory's name
	return strings.ReplaceAll(p, "@WD", s.wd)
}

func newSandbox(c *Case) (*sandbox, error) {
	root := vt.Scratch("c11-")
	s := &sandbox{root: root, wd: filepath.Join(root, "wd"), out: filepath.Join(root, "out"), cwd: filepath.Join(root, "cwd"), tmp: filepath.Join(root, "tmp"), sib: filepath.Join(root, "wd-backup")}
	for _, d := range []string{s.wd, s.out, s.cwd, s.tmp, s.sib, filepath.Join(s.out, "odir")} {
		if err := os.MkdirAll(d, 0o755); err != nil {
			return nil, err
		}
	}
	files := map[string]string{
		filepath.Join(s.out, "victim.txt"):  "victim-out",
		filepath.Join(s.out, "odir", "f"):   "victim-odir",
		filepath.Join(s.cwd, "cwdfile.txt"): "victim-cwd",
		filepath.Join(s.cwd, "victim.txt"):  "victim-cwd2",
		filepath.Join(s.cwd, "a"):           "victim-cwd-a",
		filepath.Join(root, "victim.txt"):   "victim-root",
		filepath.Join(s.cwd, "name", "a"):   "victim-cwd-name-a",
	}
	for p, content := range files {
		os.MkdirAll(filepath.Dir(p), 0o755)
		if err := os.WriteFile(p, []byte(content), 0o640); err != nil {
			return nil, err
		}
	}
	if c.PrePop >= 1 {
		os.MkdirAll(filepath.Join(s.wd, "name", "d1", "d2"), 0o755)
		os.WriteFile(filepath.Join(s.wd, "name", "a"), []byte("old-a"), 0o644)
		os.WriteFile(filepath.Join(s.wd, "victim.txt"), []byte("wd-victim"), 0o644)
	}
	if c.PrePop >= 2 {
		// a symlink that already exists INSIDE the extraction directory and points
		// outside (archive entries must not be written through it). Titles that pass
		// through a symlink the user keeps in the working directory are outside the
		// domain (the statement quantifies over names, not over the user's own links).
		os.MkdirAll(filepath.Join(s.wd, "name"), 0o755)
		os.Symlink(s.out, filepath.Join(s.wd, "name", "s2"))
		os.Symlink(filepath.Join(s.out, "victim.txt"), filepath.Join(s.wd, "name", "s1"))
	}
	return s, nil
}

// lexicalEscape: the statement's own rule - a title or entry name that, after
// cleaning, starts with ".." or is an absolute path outside the working directory.
func lexicalEscape(s *sandbox, c *Case) bool {
	outside := func(p, base string) bool {
		p = s.subst(p)
		if filepath.IsAbs(p) {
			rel, err := filepath.Rel(base, filepath.Clean(p))
			return err != nil || rel == ".." || strings.HasPrefix(rel, "../")
		}
		cl := filepath.ToSlash(filepath.Clean(p))
		return cl == ".." || strings.HasPrefix(cl, "../")
	}
	if c.Kind == "title" || c.Kind == "manifest-dup" || c.Kind == "tar-title" {
		return outside(c.Title, s.wd)
	}
	for _, e := range c.Entries {
		if e.Type == "char" || e.Type == "fifo" {
			continue
		}
		name := s.subst(e.Name)
		if filepath.IsAbs(name) {
			if outside(name, filepath.Join(s.wd, "name")) {
				return true
			}
			continue
		}
		rel, err := filepath.Rel("name", name)
		if err != nil {
			return true
		}
		rel = filepath.ToSlash(rel)
		if rel == ".." || strings.HasPrefix(rel, "../") {
			return true
		}
	}
	return false
}

func buildTarGz(s *sandbox, c *Case) ([]byte, error) {
	var raw bytes.Buffer
	tw := tar.NewWriter(&raw)
	for _, e := range c.Entries {
		name := strings.ReplaceAll(s.subst(e.Name), "@T", s.subst(c.Title))
		if e.Type != "dir" {
			name = strings.TrimRight(name, "/")
		}
		h := &tar.Header{Name: name, Mode: e.Mode, ModTime: time.Unix(1700000000, 0), Format: tar.FormatPAX}
		switch e.Type {
		case "reg":
			h.Typeflag, h.Size = tar.TypeReg, int64(len(e.Data))
		case "dir":
			h.Typeflag = tar.TypeDir
		case "sym":
			h.Typeflag, h.Linkname = tar.TypeSymlink, s.subst(e.Link)
		case "link":
			h.Typeflag, h.Linkname = tar.TypeLink, s.subst(e.Link)
		case "char":
			h.Typeflag = tar.TypeChar
		case "fifo":
			h.Typeflag = tar.TypeFifo
		}
		if err := tw.WriteHeader(h); err != nil {
			return nil, err
		}
		if e.Type == "reg" {
			tw.Write([]byte(e.Data))
		}
	}
	tw.Close()
	var gz bytes.Buffer
	zw := gzip.NewWriter(&gz)
	zw.Write(raw.Bytes())
	zw.Close()
	return gz.Bytes(), nil
}

func runCase(c Case) (res vt.Result, fail *vt.Fail) {
	s, err := newSandbox(&c)
	if err != nil {
		return res, vt.Failf("harness/sandbox", "%v", err)
	}
	defer func() {
		filepathWalkChmod(s.root)
		os.RemoveAll(s.root)
	}()
	oldwd, _ := os.Getwd()
	oldTmp := os.Getenv("TMPDIR")
	if err := os.Chdir(s.cwd); err != nil {
		return res, vt.Failf("harness/chdir", "%v", err)
	}
	os.Setenv("TMPDIR", s.tmp)
	defer func() {
		os.Chdir(oldwd)
		os.Setenv("TMPDIR", oldTmp)
	}()
	before, err := fsx.Snapshot(s.root, "wd", "tmp")
	if err != nil {
		return res, vt.Failf("harness/snapshot", "%v", err)
	}
	if c.PrePop == 0 && !c.Preserve {
		// the working directory itself does not exist yet when the store is opened
		os.Remove(s.wd)
	}
	store, err := file.New(s.wd)
	if err != nil {
		return res, vt.Failf("harness/file-new", "%v", err)
	}
	store.PreservePermissions = c.Preserve
	store.DisableOverwrite = c.DisableOverwrite
	var content []byte
	desc := ocispec.Descriptor{MediaType: "application/octet-stream"}
	title := s.subst(c.Title)
	if c.Kind == "manifest-dup" {
		blob := []byte("shared-bytes")
		first := ocispec.Descriptor{MediaType: "application/octet-stream", Digest: digest.FromBytes(blob), Size: int64(len(blob)), Annotations: map[string]string{ocispec.AnnotationTitle: "ok.txt"}}
		if err := store.Push(context.Background(), first, bytes.NewReader(blob)); err != nil {
			return res, vt.Failf("harness/first-push", "%v", err)
		}
		layer := first
		layer.Annotations = map[string]string{ocispec.AnnotationTitle: title}
		m := ocispec.Manifest{MediaType: "application/vnd.oci.image.manifest.v1+json", Config: ocispec.Descriptor{MediaType: "application/vnd.oci.empty.v1+json", Digest: digest.FromBytes([]byte("{}")), Size: 2}, Layers: []ocispec.Descriptor{layer}}
		m.SchemaVersion = 2
		content, _ = json.Marshal(m)
		desc.MediaType = m.MediaType
	} else if c.Kind == "title" {
		content = []byte("payload")
		desc.Annotations = map[string]string{ocispec.AnnotationTitle: title}
	} else {
		content, err = buildTarGz(s, &c)
		if err != nil {
			return res, vt.Failf("harness/tar", "%v", err)
		}
		desc.MediaType = "application/vnd.oci.image.layer.v1.tar+gzip"
		desc.Annotations = map[string]string{ocispec.AnnotationTitle: title, file.AnnotationUnpack: "true"}
	}
	desc.Digest, desc.Size = digest.FromBytes(content), int64(len(content))
	var perr error
	fin, dump := vt.Watch(30*time.Second, func() { perr = store.Push(context.Background(), desc, bytes.NewReader(content)) })
	if !fin {
		vt.ReportHang("main", vt.MustJSON(c), vt.Failf("C11/hang", "Push did not return"), dump)
	}
	// further layers of the same artifact: named blobs (or a small archive) whose
	// titles run through what the first one created
	var thenErrs []error
	for i, tt := range c.Then {
		body := []byte(fmt.Sprintf("then-%d", i))
		td := ocispec.Descriptor{MediaType: "application/octet-stream", Annotations: map[string]string{ocispec.AnnotationTitle: s.subst(tt)}}
		if c.ThenUnpack && i == len(c.Then)-1 {
			sub := Case{Title: tt, Entries: []TEntry{{Type: "dir", Name: "@T/sub/", Mode: 0o755}, {Type: "reg", Name: "@T/sub/f.txt", Mode: 0o644, Data: "then-unpacked"}, {Type: "reg", Name: "@T/victim.txt", Mode: 0o644, Data: "then-unpacked2"}}}
			var berr error
			body, berr = buildTarGz(s, &sub)
			if berr != nil {
				return res, vt.Failf("harness/tar", "%v", berr)
			}
			td.MediaType = "application/vnd.oci.image.layer.v1.tar+gzip"
			td.Annotations[file.AnnotationUnpack] = "true"
		}
		td.Digest, td.Size = digest.FromBytes(body), int64(len(body))
		var terr error
		fin, dump := vt.Watch(30*time.Second, func() { terr = store.Push(context.Background(), td, bytes.NewReader(body)) })
		if !fin {
			vt.ReportHang("main", vt.MustJSON(c), vt.Failf("C11/hang", "Push did not return"), dump)
		}
		thenErrs = append(thenErrs, terr)
	}
	store.Close()
	after, err := fsx.Snapshot(s.root, "wd", "tmp")
	if err != nil {
		return res, vt.Failf("harness/snapshot", "%v", err)
	}
	hasLink, hasDots := false, strings.Contains(c.Title, "..") || strings.HasPrefix(c.Title, "@") || strings.HasPrefix(c.Title, "/")
	for _, e := range c.Entries {
		if e.Type == "sym" || e.Type == "link" {
			hasLink = true
		}
		if strings.Contains(e.Name, "..") || strings.HasPrefix(e.Name, "@") {
			hasDots = true
		}
	}
	res.NonTrivial = hasLink || hasDots
	res.Classes = []string{"kind-" + c.Kind}
	if perr == nil {
		res.Classes = append(res.Classes, "push-succeeded")
	} else {
		res.Classes = append(res.Classes, "push-rejected")
	}
	if len(c.Then) > 0 {
		res.Classes = append(res.Classes, "further-pushes-through-what-the-archive-created")
	}
	if diff := fsx.Diff(before, after); len(diff) > 0 {
		key := "C11/wrote-outside-working-directory"
		changed := fsx.DiffPaths(before, after)
		if len(c.Then) > 0 {
			return res, vt.Failf(key, "Push of the archive (err=%v) and then of %q (errs %v) changed the file system outside the working directory: %v", perr, c.Then, thenErrs, diff)
		}
		// attribution of the two listed findings (root cause, not symptom)
		if k := attribute(s, &c, changed); k != "" {
			key = k
		}
		return res, vt.Failf(key, "Push (err=%v) changed the file system outside the working directory: %v", perr, diff)
	}
	if lexicalEscape(s, &c) && perr == nil {
		return res, vt.Failf("C11/escaping-name-accepted", "a title / entry name that resolves outside the working directory was accepted (title %q)", title)
	}
	if !lexicalEscape(s, &c) && !hasLink && c.Kind == "tar" && perr == nil {
		res.Classes = append(res.Classes, "benign-accepted")
	}
	return res, nil
}

// attribute maps an outside change to one of the listed root causes, or "".
func attribute(s *sandbox, c *Case, changed []string) string {
	if c.Kind != "tar" {
		return ""
	}
	// F8: a relative hard-link name is resolved against the process cwd
	for _, e := range c.Entries {
		if e.Type != "link" || filepath.IsAbs(s.subst(e.Link)) {
			continue
		}
		want := filepath.Join("cwd", filepath.Clean(e.Link))
		all := true
		for _, p := range changed {
			if p != want {
				all = false
			}
		}
		if all && len(changed) > 0 {
			return "C11/hardlink-relative-to-cwd"
		}
	}
	// F7: a symlink whose raw target has ".." after a component that is itself a
	// symlink (validated on its lexically cleaned form), later written through
	for _, e := range c.Entries {
		if e.Type != "sym" {
			continue
		}
		parts := strings.Split(filepath.ToSlash(e.Link), "/")
		seenLinkComponent := false
		for i, p := range parts {
			if p == ".." && seenLinkComponent {
				return "C11/symlink-dotdot-through-symlink"
			}
			if p != ".." && p != "." && i < len(parts)-1 {
				// is this component (relative to the link's directory) a symlink
				// defined by the archive or the pre-populated tree?
				for _, e2 := range c.Entries {
					if e2.Type == "sym" && strings.HasSuffix(strings.TrimSuffix(e2.Name, "/"), "/"+p) {
						seenLinkComponent = true
					}
				}
				if p == "s2" && c.PrePop >= 2 {
					seenLinkComponent = true
				}
			}
		}
	}
	return ""
}

func filepathWalkChmod(root string) {
	filepath.Walk(root, func(p string, info os.FileInfo, err error) error {
		if err == nil && info.IsDir() {
			os.Chmod(p, 0o755)
		}
		return nil
	})
}

func TestMain(m *testing.M) {
	vt.Main(m, "C11", vt.NewLeg("main", 2500, 10000, 16, genCase, runCase))
}

func TestLegs(t *testing.T)   { vt.TestLegs(t) }
func TestReplay(t *testing.T) { vt.TestReplay(t) }
