package c03

import (
	"context"
	"fmt"
	"regexp"
	"testing"
	"time"

	ocispec "github.com/opencontainers/image-spec/specs-go/v1"
	"pgregory.net/rapid"

	"verif/harness/copyx"
	"verif/harness/gen"
	"verif/harness/vt"
)

var srcKinds = []string{"memory", "oci", "oci-ro", "oci-tar", "file"}
var dstKinds = []string{"memory", "memory", "oci"}

var atPool = []string{"application/vnd.verif.sig", "application/vnd.verif.sbom", "application/vnd.good"}
var annKeys = []string{"k", "role"}
var annVals = []string{"good", "bad", "goodish"}
var atRegexes = []string{`^application/vnd\.good$`, `sig|sbom`, `^application/vnd\.verif\.`, `nomatch-at-all`, `config`}
var annRegexes = []string{"", `^good$`, `good`, `^bad$`, `zzz`}

func genCase(t *rapid.T) copyx.Case {
	max := 14
	if vt.Thorough() {
		max = 28
	}
	o := gen.DAGOpts{MaxNodes: max, Referrers: true, NoDocker: true, ATPool: atPool, AnnKeys: annKeys, AnnVals: annVals, EmbMeta: true, NoBigBlobs: true}
	c := copyx.GenBase(t, o, srcKinds, dstKinds)
	d := gen.Build(c.Specs)
	// start node: any node the source holds
	var present []int
	for _, id := range d.CanonIDs() {
		// narrowing: the start node is not itself a foreign (non-distributable) layer -
		// such a node is by design never transferred through the link that reaches it
		if !d.Nodes[id].Spec.Absent && !gen.IsForeignMT(d.Nodes[id].Desc.MediaType) {
			present = append(present, id)
		}
	}
	c.Root = rapid.SampledFrom(present).Draw(t, "start")
	c.API = rapid.SampledFrom([]string{"extcopygraph", "extcopygraph", "extcopy"}).Draw(t, "api")
	c.Depth = rapid.SampledFrom([]int{0, 0, 1, 2, 3, 99}).Draw(t, "depth")
	switch rapid.IntRange(0, 4).Draw(t, "filterMode") {
	case 0, 1:
	case 2:
		c.FilterAT = rapid.SampledFrom(atRegexes).Draw(t, "atRe")
	case 3:
		c.FilterAnnKey = rapid.SampledFrom(annKeys).Draw(t, "annKey")
		c.FilterAnnRe = rapid.SampledFrom(annRegexes).Draw(t, "annRe")
	default:
		c.FilterAT = rapid.SampledFrom(atRegexes).Draw(t, "atRe2")
		c.FilterAnnKey = rapid.SampledFrom(annKeys).Draw(t, "annKey2")
		c.FilterAnnRe = rapid.SampledFrom(annRegexes).Draw(t, "annRe2")
		c.FilterOrder = rapid.IntRange(0, 1).Draw(t, "order")
	}
	return c
}

// keepRef is the reference predicate "this predecessor manifest satisfies the
// filters", evaluated on the generator's own manifest records.
func keepRef(c *copyx.Case, d *gen.DAG, p int) bool {
	n := d.Nodes[p]
	if c.FilterAT != "" {
		if !regexp.MustCompile(c.FilterAT).MatchString(n.EffectiveArtifactType(d)) {
			return false
		}
	}
	if c.FilterAnnKey != "" {
		v, ok := manifestAnnotations(n)[c.FilterAnnKey]
		if !ok {
			return false
		}
		if c.FilterAnnRe != "" && !regexp.MustCompile(c.FilterAnnRe).MatchString(v) {
			return false
		}
	}
	return true
}

func manifestAnnotations(n *gen.Node) map[string]string {
	out := map[string]string{"verif.id": fmt.Sprint(n.ID)}
	for k, v := range n.Spec.Ann {
		out[k] = v
	}
	return out
}

// keepStored is the same predicate evaluated the way the known finding describes:
// annotations (and artifact type) are taken from the descriptor the source returns
// for the predecessor when they are present there.
func keepStored(c *copyx.Case, d *gen.DAG, p int, stored ocispec.Descriptor) bool {
	n := d.Nodes[p]
	if c.FilterAT != "" {
		at := stored.ArtifactType
		if at == "" {
			at = n.EffectiveArtifactType(d)
		}
		if !regexp.MustCompile(c.FilterAT).MatchString(at) {
			return false
		}
	}
	if c.FilterAnnKey != "" {
		ann := stored.Annotations
		if ann == nil {
			ann = manifestAnnotations(n)
		}
		v, ok := ann[c.FilterAnnKey]
		if !ok {
			return false
		}
		if c.FilterAnnRe != "" && !regexp.MustCompile(c.FilterAnnRe).MatchString(v) {
			return false
		}
	}
	return true
}

// upward computes the ancestors reached from start following predecessors accepted
// by keep, with their minimal distance.
func upward(d *gen.DAG, stored map[int]bool, start int, keep func(p, child int) bool) map[int]int {
	parents := d.Parents()
	dist := map[int]int{start: 0}
	queue := []int{start}
	for len(queue) > 0 {
		x := queue[0]
		queue = queue[1:]
		for _, p := range parents[x] {
			if !stored[p] || !keep(p, x) {
				continue
			}
			if _, ok := dist[p]; !ok {
				dist[p] = dist[x] + 1
				queue = append(queue, p)
			}
		}
	}
	return dist
}

func unionReach(d *gen.DAG, roots map[int]int, maxDist int) map[int]bool {
	out := map[int]bool{}
	for a, dist := range roots {
		if maxDist > 0 && dist > maxDist {
			continue
		}
		for id := range d.Reach(a, true) {
			out[id] = true
		}
	}
	return out
}

func runCase(c copyx.Case) (res vt.Result, fail *vt.Fail) {
	e, f := copyx.Setup(&c)
	if f != nil {
		return res, f
	}
	defer e.Close()
	d := e.D
	ctx := context.Background()
	start := d.Nodes[c.Root].Canon
	stored := map[int]bool{}
	for _, id := range d.CanonIDs() {
		if !d.Nodes[id].Spec.Absent {
			stored[id] = true
		}
	}
	filtered := c.FilterAT != "" || c.FilterAnnKey != ""
	// descriptors as the source reports them (for attributing the known finding)
	storedDesc := map[[2]int]ocispec.Descriptor{}
	byKey := map[string]int{}
	for _, id := range d.CanonIDs() {
		byKey[gen.TripleKey(d.Nodes[id].Desc)] = id
	}
	descDiffers := false
	if filtered {
		for _, id := range d.CanonIDs() {
			ps, err := e.RawSrc.Predecessors(ctx, d.Nodes[id].Desc)
			if err != nil {
				return res, vt.Failf("harness/src-preds", "%v", err)
			}
			for _, p := range ps {
				if pid, ok := byKey[gen.TripleKey(p)]; ok {
					storedDesc[[2]int{pid, id}] = p
				}
			}
		}
	}
	keepR := func(p, child int) bool { return !filtered || keepRef(&c, d, p) }
	keepS := func(p, child int) bool {
		if !filtered {
			return true
		}
		sd := storedDesc[[2]int{p, child}]
		k := keepStored(&c, d, p, sd)
		if k != keepRef(&c, d, p) {
			descDiffers = true
		}
		return k
	}
	upRef := upward(d, stored, start, keepR)
	upAll := upward(d, stored, start, func(p, ch int) bool { return true })

	var out copyx.Outcome
	fin, _ := vt.Watch(60*time.Second, func() { out = e.Invoke(false) })
	if !fin {
		vt.Infra("extended copy did not return within 60 s (see C02)")
	}
	// classification
	res.Classes = append(res.Classes, "api-"+c.API, "src-"+c.SrcKind, fmt.Sprintf("depth-%d", c.Depth))
	cut := false
	if c.Depth > 0 {
		for _, dist := range upRef {
			if dist > c.Depth {
				cut = true
			}
		}
	}
	rejected, accepted := 0, 0
	if filtered {
		parents := d.Parents()
		for x := range upAll {
			for _, p := range parents[x] {
				if !stored[p] {
					continue
				}
				if keepRef(&c, d, p) {
					accepted++
				} else {
					rejected++
				}
			}
		}
	}
	if cut {
		res.Classes = append(res.Classes, "depth-cuts-an-ancestor")
	}
	if filtered {
		res.Classes = append(res.Classes, "filtered")
	}
	if rejected > 0 && accepted > 0 {
		res.Classes = append(res.Classes, "filter-rejects-and-accepts")
	}
	shared := false
	{
		seen := map[int]int{}
		for a := range upRef {
			if len(d.Parents()[a]) == 0 || true {
				for id := range d.Reach(a, true) {
					seen[id]++
				}
			}
		}
		for _, k := range seen {
			if k >= 2 {
				shared = true
			}
		}
	}
	res.NonTrivial = len(upAll) >= 2 && (shared || cut || (rejected > 0 && accepted > 0) || c.SrcKind == "oci-ro" || c.SrcKind == "oci-tar")

	if out.Err != nil {
		return res, vt.Failf("C03/fault-free-extended-copy-failed", "%s from %s failed: %v", c.API, c.SrcKind, out.Err)
	}
	present, pf := e.PresentSet()
	if pf != nil {
		return res, pf
	}
	judge := func(up map[int]int) *vt.Fail {
		must := unionReach(d, up, 0)
		if c.Depth > 0 {
			// with a depth limit only the start node's own graph is mandatory
			must = d.Reach(start, true)
		}
		for id := range must {
			if d.Nodes[id].Spec.Absent {
				continue
			}
			if !present[id] {
				return vt.Failf("C03/missing-node", "node %d (%s) belongs to the graph of an ancestor of start node %d that must be followed, but is missing in the destination", id, d.Nodes[id].Spec.Kind, start)
			}
		}
		if f := e.CheckPresent(filterAbsent(d, must), "C03", "after "+c.API); f != nil {
			return f
		}
		if c.Depth > 0 || filtered {
			allowed := unionReach(d, up, c.Depth)
			for id := range present {
				if !allowed[id] {
					why := "outside the graphs of ancestors at most Depth predecessor steps away"
					if filtered {
						why = "only reachable through predecessors the filter rejects (or beyond Depth)"
					}
					return vt.Failf("C03/extra-node", "destination holds node %d (%s), which is %s (start %d, depth %d)", id, d.Nodes[id].Spec.Kind, why, start, c.Depth)
				}
			}
		}
		return nil
	}
	if f := judge(upRef); f != nil {
		if filtered {
			upS := upward(d, stored, start, keepS)
			if descDiffers && judge(upS) == nil {
				return res, vt.Failf("C03/filter-uses-descriptor-annotations", "the copied set matches what the filter yields on the annotations/artifact type of the descriptors the source RETURNS for the predecessors, not on the manifests' own: %s", f.Msg)
			}
		}
		return res, f
	}
	if c.API == "extcopy" {
		got, err := e.RawDst.Resolve(ctx, copyx.DstRef)
		root := d.Nodes[start]
		if err != nil {
			return res, vt.Failf("C03/start-not-tagged", "Resolve(%q): %v", copyx.DstRef, err)
		}
		if got.Digest != root.Desc.Digest || gen.TripleKey(out.Desc) != gen.TripleKey(root.Desc) {
			return res, vt.Failf("C03/tag-points-elsewhere", "ExtendedCopy tagged %s / returned %s, expected the given node %s", got.Digest, out.Desc.Digest, root.Desc.Digest)
		}
	}
	return res, nil
}

func filterAbsent(d *gen.DAG, set map[int]bool) map[int]bool {
	out := map[int]bool{}
	for id := range set {
		if !d.Nodes[id].Spec.Absent {
			out[id] = true
		}
	}
	return out
}

func TestMain(m *testing.M) {
	vt.Main(m, "C03", vt.NewLeg("main", 1500, 4000, 16, genCase, runCase))
}

func TestLegs(t *testing.T)   { vt.TestLegs(t) }
func TestReplay(t *testing.T) { vt.TestReplay(t) }
