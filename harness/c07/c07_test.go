package c07

import (
	"context"
	"errors"
	"fmt"
	"io/fs"
	"os"
	"path/filepath"
	"sort"
	"sync"

	ocispec "github.com/opencontainers/image-spec/specs-go/v1"
	"oras.land/oras-go/v2/content"
	"oras.land/oras-go/v2/content/file"
	"oras.land/oras-go/v2/content/memory"
	"oras.land/oras-go/v2/content/oci"
	"oras.land/oras-go/v2/errdef"
	"pgregory.net/rapid"

	"verif/harness/fsx"
	"verif/harness/gen"
	"verif/harness/orc"
	"verif/harness/vt"
)

// TailOp is a step after the push phase (OCI layout only).
type TailOp struct {
	Op  string `json:"op"` // delete, gc, reopen-new, reopen-fs, reopen-tar, push
	N   int    `json:"n,omitempty"`
	Fmt string `json:"fmt,omitempty"`
	// Cancel: the context handed to the reopen / GC call is already cancelled (1) or,
	// for reopen-fs, gets cancelled when the Cancel-th file is opened (>= 2). The
	// call may refuse; if it returns nil the result is judged like any other.
	Cancel int `json:"cancel,omitempty"`
}

// cancellingFS cancels a context when the n-th file is opened.
type cancellingFS struct {
	fs.FS
	mu     sync.Mutex
	n      int
	cancel context.CancelFunc
}

func (c *cancellingFS) Open(name string) (fs.File, error) {
	c.mu.Lock()
	c.n--
	if c.n == 0 {
		c.cancel()
	}
	c.mu.Unlock()
	return c.FS.Open(name)
}

// Case is one generated C07 case.
type Case struct {
	Specs  []gen.NodeSpec `json:"specs"`
	Store  string         `json:"store"`
	Order  []int          `json:"order"` // canonical ids in push order; nodes left out are never pushed
	Conc   int            `json:"conc"`  // >1: push from that many goroutines
	AutoGC bool           `json:"autoGC,omitempty"`
	Tags   []int          `json:"tags,omitempty"` // nodes that get a tag "t<i>" after the push phase (oci)
	Tail   []TailOp       `json:"tail,omitempty"`
	// Alias: the graph holds one digest under a manifest media type and as a plain blob
	Alias bool `json:"alias,omitempty"`
	// ForceCAS (file store)
	ForceCAS bool `json:"forceCAS,omitempty"`
}

func genCase(store string) func(t *rapid.T) Case {
	return func(t *rapid.T) Case {
		max := 12
		if vt.Thorough() {
			max = 24
		}
		o := gen.DAGOpts{MaxNodes: max, NoBigBlobs: true, NoAbsent: true}
		if store == "oci" {
			// a digest-addressed layout cannot hold one alias of a digest and drop
			// the other: single media type per digest whenever deletes may happen.
			o.SingleMT = true
			o.ManifestSHA = false
		}
		if store == "file" {
			o.Titles = true
		}
		if store != "file" && rapid.IntRange(0, 5).Draw(t, "wideShape") == 0 {
			return wideCase(t, store)
		}
		c := Case{Store: store, Specs: gen.Specs(t, o)}
		if store == "file" {
			c.ForceCAS = rapid.IntRange(0, 3).Draw(t, "forceCAS") == 0
		}
		d := gen.Build(c.Specs)
		ids := d.CanonIDs()
		// which nodes are pushed at all
		var pushed []int
		dropMode := rapid.IntRange(0, 3).Draw(t, "dropMode")
		for _, id := range ids {
			if dropMode == 0 || rapid.IntRange(0, 4).Draw(t, "keep") != 0 {
				pushed = append(pushed, id)
			}
		}
		switch rapid.IntRange(0, 3).Draw(t, "orderMode") {
		case 0: // children first
		case 1: // parents first
			sort.Sort(sort.Reverse(sort.IntSlice(pushed)))
		default:
			pushed = rapid.Permutation(pushed).Draw(t, "perm")
		}
		c.Order = pushed
		if rapid.IntRange(0, 3).Draw(t, "concMode") == 0 {
			c.Conc = rapid.IntRange(2, 4).Draw(t, "conc")
		}
		// a manifest that is also listed as a plain blob by another manifest: the
		// same digest under a manifest media type and under application/octet-stream
		var withKids []int
		for _, id := range pushed {
			if d.IsManifest(id) && len(d.Nodes[id].Edges) > 0 {
				withKids = append(withKids, id)
			}
		}
		if store != "file" && len(withKids) > 0 && rapid.IntRange(0, 4).Draw(t, "alias") == 0 {
			x := rapid.SampledFrom(withKids).Draw(t, "aliasOf")
			c.Specs = append(c.Specs, gen.NodeSpec{Kind: gen.KBlob, MT: "application/octet-stream", Alias: x + 1})
			xa := len(c.Specs) - 1
			c.Specs = append(c.Specs, gen.NodeSpec{Kind: gen.KArtifact, ArtifactType: "application/vnd.verif.alias", Layers: []gen.Ref{{N: xa}}})
			r := len(c.Specs) - 1
			// the alias is pushed after the manifest it doubles (pushed first, a
			// digest-addressed store would refuse the manifest as already present and
			// never learn that it is one), sequentially
			// and a root above both spellings (one traversal meets the digest twice)
			c.Specs = append(c.Specs, gen.NodeSpec{Kind: gen.KIndex, Layers: rapid.Permutation([]gen.Ref{{N: x}, {N: r}}).Draw(t, "rootOrder")})
			top := len(c.Specs) - 1
			c.Order = append(c.Order, xa)
			pos := rapid.IntRange(0, len(c.Order)).Draw(t, "aliasParentPos")
			c.Order = append(c.Order[:pos], append([]int{r}, c.Order[pos:]...)...)
			pos = rapid.IntRange(0, len(c.Order)).Draw(t, "aliasRootPos")
			c.Order = append(c.Order[:pos], append([]int{top}, c.Order[pos:]...)...)
			c.Conc = 0
			c.Alias = true
			d = gen.Build(c.Specs)
			ids = d.CanonIDs()
			pushed = c.Order
		}
		if store == "oci" {
			c.AutoGC = rapid.Bool().Draw(t, "autoGC")
			for _, id := range pushed {
				if c.Alias && id == len(c.Specs)-1 {
					// the root above both spellings is tagged, so the doubled manifest
					// stays rooted as a manifest through it (unrooted, GC would drop it
					// as a manifest while its bytes live on as the blob)
					c.Tags = append(c.Tags, id)
					continue
				}
				if c.Specs[id].Alias > 0 {
					// tagging the plain-blob alias would re-declare the manifest's
					// digest entry as a blob: the caller's doing, not the store's
					continue
				}
				if rapid.IntRange(0, 3).Draw(t, "tagged") == 0 {
					c.Tags = append(c.Tags, id)
				}
			}
			nt := rapid.IntRange(0, 6).Draw(t, "nTail")
			for i := 0; i < nt; i++ {
				var op TailOp
				switch rapid.IntRange(0, 9).Draw(t, "tailOp") {
				case 0, 1, 2, 3:
					op = TailOp{Op: "delete", N: rapid.SampledFrom(ids).Draw(t, "delN")}
					if c.Alias {
						// deleting one alias of a digest in a digest-addressed layout
						// removes the other's bytes: not a state the statement covers
						op = TailOp{Op: "gc"}
					}
				case 4:
					op = TailOp{Op: "gc"}
				case 5:
					op = TailOp{Op: "reopen-new"}
				case 6:
					op = TailOp{Op: "reopen-fs"}
				case 7:
					op = TailOp{Op: "reopen-tar", Fmt: rapid.SampledFrom([]string{"ustar", "pax", "gnu"}).Draw(t, "fmt")}
				}
				switch op.Op {
				case "gc", "reopen-new", "reopen-fs", "reopen-tar":
					if rapid.IntRange(0, 3).Draw(t, "cancelMode") == 2 {
						op.Cancel = 1
						if op.Op == "reopen-fs" {
							op.Cancel = rapid.IntRange(1, 8).Draw(t, "cancelAt")
						}
					}
				}
				if op.Op == "" {
					op = TailOp{Op: "push", N: rapid.SampledFrom(ids).Draw(t, "pushN")}
					if rapid.IntRange(0, 2).Draw(t, "obstructed") == 0 {
						// the index cannot be saved while this push runs (a directory
						// sits where the store writes index.json's replacement)
						op.Op = "push-obstructed"
					}
				}
				c.Tail = append(c.Tail, op)
			}
		}
		return c
	}
}

// wideCase: several wide manifests (8 or more distinct successors each) over one
// pool of blobs that nothing references yet, all pushed at the same moment from as
// many goroutines: concurrent index updates of the same fresh children.
func wideCase(t *rapid.T, store string) Case {
	c := Case{Store: store}
	m := rapid.IntRange(8, 14).Draw(t, "poolSize")
	if rapid.IntRange(0, 3).Draw(t, "veryWide") == 0 {
		m = rapid.IntRange(64, 80).Draw(t, "poolSizeXL")
	}
	for i := 0; i < m+1; i++ {
		c.Specs = append(c.Specs, gen.NodeSpec{Kind: gen.KBlob, Seed: 400 + i, Size: 3 + i, MT: "application/octet-stream"})
	}
	cfg := m
	p := rapid.IntRange(3, 8).Draw(t, "wideParents")
	var parents []int
	for i := 0; i < p; i++ {
		w := rapid.IntRange(7, m).Draw(t, "width")
		if m >= 64 && rapid.Bool().Draw(t, "fullWidth") {
			w = m
		}
		pool := rapid.Permutation(seq(m)).Draw(t, "layers")[:w]
		var layers []gen.Ref
		for _, b := range pool {
			layers = append(layers, gen.Ref{N: b})
		}
		c.Specs = append(c.Specs, gen.NodeSpec{Kind: gen.KImage, Config: &gen.Ref{N: cfg}, Layers: layers})
		parents = append(parents, len(c.Specs)-1)
	}
	if rapid.Bool().Draw(t, "childrenPushed") {
		// the children exist already (pushed by the same goroutines, interleaved)
		c.Order = append(c.Order, seq(m+1)...)
	}
	c.Order = append(c.Order, parents...)
	c.Conc = p
	return c
}

func seq(n int) []int {
	out := make([]int, n)
	for i := range out {
		out[i] = i
	}
	return out
}

type predFinder = orc.PredFinder

func checkPreds(ctx context.Context, pf predFinder, d *gen.DAG, stored map[int]bool, when string) *vt.Fail {
	return orc.CheckPreds(ctx, pf, d, stored, "C07", when)
}

func runCase(c Case) (res vt.Result, fail *vt.Fail) {
	ctx := context.Background()
	d := gen.Build(c.Specs)
	dir := vt.Scratch("c07-")
	defer os.RemoveAll(dir)

	var store interface {
		content.Storage
		predFinder
	}
	var ociStore *oci.Store
	switch c.Store {
	case "memory":
		store = memory.New()
	case "oci":
		s, err := oci.New(filepath.Join(dir, "layout"))
		if err != nil {
			return res, vt.Failf("harness/oci-new", "%v", err)
		}
		s.AutoGC = c.AutoGC
		ociStore = s
		store = s
	case "file":
		s, err := file.New(filepath.Join(dir, "wd"))
		if err != nil {
			return res, vt.Failf("harness/file-new", "%v", err)
		}
		defer s.Close()
		s.ForceCAS = c.ForceCAS
		store = s
	}

	// push phase
	m := &storedSet{Stored: map[int]bool{}}
	push := func(id int) error {
		err := gen.PushNode(ctx, store, d.Nodes[id])
		if d.Nodes[id].Spec.Alias > 0 && errors.Is(err, errdef.ErrAlreadyExists) {
			// a digest-addressed store already holds these bytes (as the manifest)
			return nil
		}
		if c.Store == "file" && (errors.Is(err, errdef.ErrAlreadyExists) || errors.Is(err, file.ErrDuplicateName)) {
			// the file store may already have materialised a named blob whose bytes
			// it held under another name (documented duplicate restoration); the
			// refusal means "present".
			return nil
		}
		return err
	}
	if c.Conc <= 1 {
		for _, id := range c.Order {
			if err := push(id); err != nil {
				return res, vt.Failf("C07/push-failed", "push node %d: %v", id, err)
			}
		}
	} else {
		var wg sync.WaitGroup
		errs := make([]error, c.Conc)
		start := make(chan struct{})
		for g := 0; g < c.Conc; g++ {
			wg.Add(1)
			go func(g int) {
				defer wg.Done()
				<-start
				for i := g; i < len(c.Order); i += c.Conc {
					if err := push(c.Order[i]); err != nil {
						errs[g] = fmt.Errorf("push node %d: %w", c.Order[i], err)
						return
					}
				}
			}(g)
		}
		close(start)
		wg.Wait()
		for _, err := range errs {
			if err != nil {
				return res, vt.Failf("C07/push-failed", "%v", err)
			}
		}
	}
	for _, id := range c.Order {
		m.Stored[id] = true
	}
	if f := m.refresh(ctx, store, d, "after push phase"); f != nil {
		return res, f
	}
	if f := checkPreds(ctx, store, d, m.Stored, "after push phase"); f != nil {
		return res, f
	}
	if c.Store == "file" {
		// the same question asked with the title-annotated descriptor of a named
		// node (present or not) must get the same answer
		parents := d.Parents()
		for _, id := range d.CanonIDs() {
			n := d.Nodes[id]
			if n.Spec.Title == "" {
				continue
			}
			got, err := store.Predecessors(ctx, n.PushDesc())
			if err != nil {
				return res, vt.Failf("C07/predecessors-error", "Predecessors(node %d with title): %v", id, err)
			}
			want := 0
			for _, p := range parents[id] {
				if m.Stored[p] {
					want++
				}
			}
			if len(got) != want {
				return res, vt.Failf("C07/predecessors-mismatch-titled-query", "file store: Predecessors(node %d queried with its title %q, stored=%v) returned %d parents, the edge list has %d stored ones", id, n.Spec.Title, m.Stored[id], len(got), want)
			}
		}
	}

	// classification
	parents := d.Parents()
	multi, absentWithParent := false, false
	for _, id := range d.CanonIDs() {
		k := 0
		for _, p := range parents[id] {
			if m.Stored[p] {
				k++
			}
		}
		if k >= 2 {
			multi = true
		}
		if k >= 1 && !m.Stored[id] {
			absentWithParent = true
		}
	}
	childrenFirst := sort.IntsAreSorted(c.Order)
	res.NonTrivial = multi && absentWithParent && !childrenFirst
	if multi {
		res.Classes = append(res.Classes, "multi-parent")
	}
	if absentWithParent {
		res.Classes = append(res.Classes, "absent-queried-node-with-stored-parent")
	}
	if !childrenFirst {
		res.Classes = append(res.Classes, "order-not-children-first")
	}
	if c.Conc > 1 {
		res.Classes = append(res.Classes, "concurrent-push")
	}
	res.Classes = append(res.Classes, "store-"+c.Store)

	if ociStore == nil {
		return res, nil
	}

	// tags
	for _, id := range c.Tags {
		ref := fmt.Sprintf("t%d", id)
		if err := ociStore.Tag(ctx, d.Nodes[id].Desc, ref); err != nil {
			return res, vt.Failf("C07/tag-failed", "tag node %d: %v", id, err)
		}
	}

	var current predFinder = ociStore
	live := true // current is the writable store
	// the listed finding "reopen omits unindexed manifest" has one root cause: GC drops
	// the digest entry of a manifest that is live through a tagged parent, and a later
	// Delete of that parent leaves it stored but unlisted (an index save that failed has
	// the same effect and is not judged). A stored manifest missing from index.json
	// without such a history is something else and is reported as such.
	sawGC, gcThenDelete, saveFailed := false, false, false
	rekey := func(f *vt.Fail) *vt.Fail {
		if f != nil && f.Key == "C07/reopen-omits-unindexed-manifest" && !gcThenDelete && !saveFailed {
			f.Key = "C07/stored-manifest-missing-from-index"
		}
		return f
	}
	for i, op := range c.Tail {
		when := fmt.Sprintf("after tail step %d (%s %d)", i, op.Op, op.N)
		switch op.Op {
		case "gc":
			sawGC = live || sawGC
		case "delete":
			gcThenDelete = gcThenDelete || (sawGC && live)
		case "push-obstructed":
			saveFailed = saveFailed || live
		}
		switch op.Op {
		case "push-obstructed":
			if !live || m.Stored[op.N] || c.Alias {
				continue
			}
			obst := filepath.Join(dir, "layout", "index.json.tmp")
			if err := os.Mkdir(obst, 0o755); err != nil {
				continue
			}
			perr := gen.PushNode(ctx, ociStore, d.Nodes[op.N])
			os.Remove(obst)
			if perr == nil && d.IsManifest(op.N) {
				res.Classes = append(res.Classes, "obstructed-manifest-push-succeeded")
			}
			if perr != nil {
				res.Classes = append(res.Classes, "push-failed-on-index-save")
			}
			// whatever the push returned: what the store now holds is what counts
			if f := m.refresh(ctx, ociStore, d, when); f != nil {
				return res, f
			}
		case "push":
			if !live {
				continue
			}
			if m.Stored[op.N] {
				continue
			}
			if err := gen.PushNode(ctx, ociStore, d.Nodes[op.N]); err != nil {
				return res, vt.Failf("C07/push-failed", "%s: %v", when, err)
			}
			m.Stored[op.N] = true
		case "delete":
			if !live || !m.Stored[op.N] {
				continue
			}
			finished, dump := vt.Watch(watchdog, func() {
				if err := ociStore.Delete(ctx, d.Nodes[op.N].Desc); err != nil {
					fail = vt.Failf("C07/delete-failed", "%s: %v", when, err)
				}
			})
			if !finished {
				// termination of Delete is C09's business; C07 cannot conclude
				_ = dump
				vt.Infra("%s: Delete did not return (see C09)", when)
			}
			if fail != nil {
				// a failing Delete is judged by C09; the history stops here
				res.Classes = append(res.Classes, "stopped-at-delete-error")
				return res, nil
			}
			res.Classes = append(res.Classes, "delete")
		case "gc":
			if !live {
				continue
			}
			if op.Cancel > 0 {
				// GC under a context that is already cancelled. With at least one tagged
				// node the first thing GC does is a context-aware walk, so it refuses and
				// leaves the store as it was. Without any tag the store's bookkeeping is
				// rebuilt (to nothing) before the context is looked at: a mismatch after
				// that is attributed to its own root cause, and the history ends there.
				named := 0
				ociStore.Tags(ctx, "", func(ts []string) error { named += len(ts); return nil })
				cctx, cancel := context.WithCancel(ctx)
				cancel()
				var gerr error
				fin, _ := vt.Watch(watchdog, func() { gerr = ociStore.GC(cctx) })
				if !fin {
					vt.Infra("%s: GC did not return (see C09)", when)
				}
				if gerr == nil {
					res.Classes = append(res.Classes, "gc-under-cancelled-context-succeeded")
				} else {
					res.Classes = append(res.Classes, "gc-under-cancelled-context-refused")
				}
				if named == 0 && gerr != nil {
					if f := m.refresh(ctx, ociStore, d, when); f != nil {
						return res, f
					}
					if f := checkPreds(ctx, current, d, m.Stored, when); f != nil {
						return res, vt.Failf("C07/aborted-gc-forgets-stored-manifests", "%s: GC under a cancelled context returned %v after it had rebuilt its index (no tagged node), the blobs are all still there: %s", when, gerr, f.Msg)
					}
					res.Classes = append(res.Classes, "stopped-after-aborted-gc-without-tags")
					return res, nil
				}
				break // judged below like any other step
			}
			finished, dump := vt.Watch(watchdog, func() {
				if err := ociStore.GC(ctx); err != nil {
					fail = vt.Failf("C07/gc-failed", "%s: %v", when, err)
				}
			})
			if !finished {
				_ = dump
				vt.Infra("%s: GC did not return (see C09)", when)
			}
			if fail != nil {
				res.Classes = append(res.Classes, "stopped-at-gc-error")
				return res, nil
			}
			res.Classes = append(res.Classes, "gc")
		case "reopen-new":
			s, err := oci.New(filepath.Join(dir, "layout"))
			if op.Cancel > 0 {
				cctx, cancel := context.WithCancel(ctx)
				cancel()
				s, err = oci.NewWithContext(cctx, filepath.Join(dir, "layout"))
				if err != nil {
					res.Classes = append(res.Classes, "open-under-cancelled-context-refused")
					continue
				}
				res.Classes = append(res.Classes, "open-under-cancelled-context-succeeded")
			}
			if err != nil {
				return res, vt.Failf("C07/reopen-failed", "%s: %v", when, err)
			}
			s.AutoGC = c.AutoGC
			ociStore = s
			current = s
			live = true
			res.Classes = append(res.Classes, "reopen-new")
			if f := m.refresh(ctx, ociStore, d, when); f != nil {
				return res, f
			}
			if f := rekey(orc.CheckPredsView(ctx, s, d, m.Stored, filepath.Join(dir, "layout"), "C07", when+" [oci.New view]")); f != nil {
				return res, f
			}
			// the history cannot continue meaningfully on a store that does not
			// know some stored manifests; stop when that is the case
			if idx, err := orc.IndexedSet(filepath.Join(dir, "layout"), d, m.Stored); err == nil && len(idx) != len(m.Stored) {
				for id := range m.Stored {
					if !idx[id] && d.IsManifest(id) {
						res.Classes = append(res.Classes, "stopped-at-unindexed-manifest-after-reopen")
						return res, nil
					}
				}
			}
			continue
		case "reopen-fs":
			var s *oci.ReadOnlyStore
			var err error
			if op.Cancel > 0 {
				cctx, cancel := context.WithCancel(ctx)
				s, err = oci.NewFromFS(cctx, &cancellingFS{FS: os.DirFS(filepath.Join(dir, "layout")), n: op.Cancel, cancel: cancel})
				cancel()
				if err != nil {
					res.Classes = append(res.Classes, "open-under-cancelled-context-refused")
					continue
				}
				res.Classes = append(res.Classes, "open-under-cancelled-context-succeeded")
			} else {
				s, err = oci.NewFromFS(ctx, os.DirFS(filepath.Join(dir, "layout")))
			}
			if err != nil {
				return res, vt.Failf("C07/reopen-failed", "%s: %v", when, err)
			}
			vs, f := existsSet(ctx, s, d, when)
			if f != nil {
				return res, f
			}
			if f := rekey(orc.CheckPredsView(ctx, s, d, vs, filepath.Join(dir, "layout"), "C07", when+" [fs view]")); f != nil {
				return res, f
			}
			res.Classes = append(res.Classes, "reopen-fs")
			continue
		case "reopen-tar":
			tp := filepath.Join(dir, fmt.Sprintf("l%d.tar", i))
			// every other archive looks like one updated in place: an older (here: empty)
			// index.json record precedes the current tree; the last record counts
			var stale []byte
			if i%2 == 0 {
				stale = []byte(`{"schemaVersion":2,"manifests":[]}`)
			}
			if err := fsx.TarDirAppended(filepath.Join(dir, "layout"), tp, op.Fmt, false, stale); err != nil {
				return res, vt.Failf("harness/tar", "%v", err)
			}
			octx := ctx
			if op.Cancel > 0 {
				cctx, cancel := context.WithCancel(ctx)
				cancel()
				octx = cctx
			}
			s, err := oci.NewFromTar(octx, tp)
			if op.Cancel > 0 {
				if err != nil {
					res.Classes = append(res.Classes, "open-under-cancelled-context-refused")
					continue
				}
				res.Classes = append(res.Classes, "open-under-cancelled-context-succeeded")
			}
			if err != nil {
				return res, vt.Failf("C07/reopen-failed", "%s: %v", when, err)
			}
			vs, f := existsSet(ctx, s, d, when)
			if f != nil {
				return res, f
			}
			if f := rekey(orc.CheckPredsView(ctx, s, d, vs, filepath.Join(dir, "layout"), "C07", when+" [tar view]")); f != nil {
				return res, f
			}
			res.Classes = append(res.Classes, "reopen-tar-"+op.Fmt)
			continue
		}
		if f := m.refresh(ctx, ociStore, d, when); f != nil {
			return res, f
		}
		if f := checkPreds(ctx, current, d, m.Stored, when); f != nil {
			return res, f
		}
	}
	return res, nil
}

// storedSet is the ground truth "which nodes are stored", taken from the store's own
// Exists (a storage-level question that does not involve the predecessor index), so
// that C07 judges Predecessors only and leaves what Delete/GC remove to C09.
type storedSet struct{ Stored map[int]bool }

type exister interface {
	Exists(ctx context.Context, target ocispec.Descriptor) (bool, error)
}

func existsSet(ctx context.Context, s exister, d *gen.DAG, when string) (map[int]bool, *vt.Fail) {
	out := map[int]bool{}
	for _, id := range d.CanonIDs() {
		ok, err := s.Exists(ctx, d.Nodes[id].Desc)
		if err != nil {
			return nil, vt.Failf("harness/exists", "%s: Exists(node %d): %v", when, id, err)
		}
		if ok {
			out[id] = true
		}
	}
	return out, nil
}

func (m *storedSet) refresh(ctx context.Context, s exister, d *gen.DAG, when string) *vt.Fail {
	set, f := existsSet(ctx, s, d, when)
	if f != nil {
		return f
	}
	m.Stored = set
	return nil
}
