package c06

import (
	"bytes"
	"context"
	"errors"
	"fmt"
	"io"
	"os"
	"path/filepath"
	"sync"

	"github.com/opencontainers/go-digest"
	ocispec "github.com/opencontainers/image-spec/specs-go/v1"
	"oras.land/oras-go/v2/content/file"
	"oras.land/oras-go/v2/errdef"
	"pgregory.net/rapid"

	"verif/harness/gen"
	"verif/harness/vt"
)

// Leg "nameclash": several different blobs claim one file name in a file store,
// one after another or at the same time. A name belongs to the first content pushed
// under it; every other push is refused with duplicate-name and changes nothing.

type ClashCase struct {
	Sizes      []int  `json:"sizes"`      // one contender per entry (distinct bytes)
	Title      string `json:"title"`      // the contested name
	Taken      bool   `json:"taken"`      // contender 0 is pushed before the others start
	Concurrent bool   `json:"concurrent"` // the remaining contenders push at the same time
	Slow       int    `json:"slow"`       // this contender's reader stalls in its first Read
	// Bad: 1 + index of a contender whose reader delivers other bytes than its
	// descriptor names (its push must fail and must not cost anybody the name); 0 = none
	Bad int `json:"bad,omitempty"`
	// Distinct: the contenders do not clash at all - each has a name of its own in
	// one new nested directory; pushed at once, every one must be accepted
	Distinct bool `json:"distinct,omitempty"`
}

func genClash(t *rapid.T) ClashCase {
	c := ClashCase{Title: rapid.SampledFrom([]string{"data.txt", "dir/sub/blob.bin", "x"}).Draw(t, "title")}
	k := rapid.IntRange(2, 4).Draw(t, "contenders")
	for i := 0; i < k; i++ {
		c.Sizes = append(c.Sizes, rapid.SampledFrom([]int{0, 1, 12, 12, 300, 5000}).Draw(t, "size"))
	}
	c.Taken = rapid.Bool().Draw(t, "taken")
	c.Concurrent = rapid.IntRange(0, 3).Draw(t, "concurrent") != 0
	c.Slow = rapid.IntRange(0, k-1).Draw(t, "slow")
	if rapid.IntRange(0, 4).Draw(t, "distinct") == 2 {
		c.Distinct, c.Concurrent, c.Taken = true, true, false
		for len(c.Sizes) < 8 {
			c.Sizes = append(c.Sizes, 12)
		}
		return c
	}
	if rapid.IntRange(0, 2).Draw(t, "withBad") == 1 {
		lo := 0
		if c.Taken {
			lo = 1
		}
		c.Bad = 1 + rapid.IntRange(lo, k-1).Draw(t, "bad")
		c.Slow = c.Bad - 1 // it is still being written when the others arrive
	}
	return c
}

func runClash(c ClashCase) (res vt.Result, fail *vt.Fail) {
	ctx := context.Background()
	dir := vt.Scratch("c06clash-")
	defer os.RemoveAll(dir)
	s, err := file.New(dir)
	if err != nil {
		return res, vt.Failf("harness/store", "%v", err)
	}
	defer s.Close()
	k := len(c.Sizes)
	data := make([][]byte, k)
	descs := make([]ocispec.Descriptor, k)
	for i := range data {
		data[i] = append(gen.BlobBytes(300+i, c.Sizes[i]), byte('A'+i)) // distinct even at size 0
		descs[i] = ocispec.Descriptor{MediaType: "application/octet-stream", Digest: digest.FromBytes(data[i]), Size: int64(len(data[i])),
			Annotations: map[string]string{ocispec.AnnotationTitle: c.Title}}
	}
	if c.Distinct {
		for i := range descs {
			descs[i].Annotations = map[string]string{ocispec.AnnotationTitle: fmt.Sprintf("new/nested/dir/%s-%d", c.Title, i)}
		}
		var wg sync.WaitGroup
		derrs := make([]error, k)
		start := make(chan struct{})
		for i := range descs {
			wg.Add(1)
			go func(i int) {
				defer wg.Done()
				<-start
				derrs[i] = s.Push(ctx, descs[i], bytes.NewReader(data[i]))
			}(i)
		}
		close(start)
		wg.Wait()
		res.NonTrivial = true
		res.Classes = append(res.Classes, "distinct-names-in-one-new-directory-at-once")
		for i, e := range derrs {
			if e != nil {
				return res, vt.Failf("C06/push-result", "%d blobs with names of their own in one new nested directory were pushed at once; push %d (%s) failed: %v", k, i, descs[i].Annotations[ocispec.AnnotationTitle], e)
			}
			b, ferr := gen.ReadBack(ctx, s, descs[i])
			if ferr != nil || !bytes.Equal(b, data[i]) {
				return res, vt.Failf("C06/fetch-bytes-mismatch", "push %d of %d concurrent pushes under distinct names: Fetch returned %d bytes / %v", i, k, len(b), ferr)
			}
		}
		return res, nil
	}
	sent := make([][]byte, k) // what each contender's reader delivers
	for i := range data {
		sent[i] = data[i]
		if c.Bad == i+1 {
			sent[i] = append([]byte(nil), data[i]...)
			sent[i][len(sent[i])-1] ^= 0x20
		}
	}
	errs := make([]error, k)
	first := 0
	if c.Taken {
		errs[0] = s.Push(ctx, descs[0], bytes.NewReader(data[0]))
		if errs[0] != nil {
			return res, vt.Failf("C06/push-result", "first push under a free name failed: %v", errs[0])
		}
		first = 1
	}
	if c.Concurrent {
		gt := &gate{need: k - first, ch: make(chan struct{})}
		var wg sync.WaitGroup
		for i := first; i < k; i++ {
			wg.Add(1)
			go func(i int) {
				defer wg.Done()
				var rd io.Reader = bytes.NewReader(sent[i])
				if i == c.Slow || k-first > 2 {
					rd = &gateReader{r: rd, g: gt}
				}
				errs[i] = s.Push(ctx, descs[i], rd)
			}(i)
		}
		wg.Wait()
	} else {
		for i := first; i < k; i++ {
			errs[i] = s.Push(ctx, descs[i], bytes.NewReader(sent[i]))
		}
	}
	res.NonTrivial = true
	res.Classes = append(res.Classes, fmt.Sprintf("contenders-%d", k), fmt.Sprintf("concurrent-%v", c.Concurrent), fmt.Sprintf("name-taken-before-%v", c.Taken))
	if c.Bad > 0 {
		res.Classes = append(res.Classes, "one-contender-delivers-corrupt-content")
	}
	winners := []int{}
	for i, e := range errs {
		if c.Bad == i+1 {
			if e == nil {
				return res, vt.Failf("C06/push-result", "contender %d delivered bytes that do not match its descriptor, Push returned nil", i)
			}
			continue // whatever it failed with
		}
		switch {
		case e == nil:
			winners = append(winners, i)
		case errors.Is(e, file.ErrDuplicateName):
		default:
			return res, vt.Failf("C06/push-result", "push of contender %d for name %q returned %v (expected nil or duplicate-name)", i, c.Title, e)
		}
	}
	if c.Bad > 0 && k == 1+boolInt(c.Taken && c.Bad != 1) && len(winners) == 0 {
		return res, nil
	}
	if len(winners) != 1 {
		return res, vt.Failf("C06/name-claimed-by-several", "%d pushes of different content under the name %q returned nil (contenders %d, taken before: %v): %v", len(winners), c.Title, k, c.Taken, winners)
	}
	w := winners[0]
	if c.Taken && w != 0 {
		return res, vt.Failf("C06/name-claimed-by-several", "name %q was taken by contender 0, but contender %d was accepted", c.Title, w)
	}
	for i := range descs {
		ok, eerr := s.Exists(ctx, descs[i])
		b, ferr := gen.ReadBack(ctx, s, descs[i])
		if i == w {
			if eerr != nil || !ok || ferr != nil || !bytes.Equal(b, data[i]) {
				return res, vt.Failf("C06/fetch-bytes-mismatch", "the accepted content of name %q (contender %d, %d bytes): Exists=%v/%v, Fetch returned %d bytes / %v, equal=%v", c.Title, i, len(data[i]), ok, eerr, len(b), ferr, bytes.Equal(b, data[i]))
			}
			continue
		}
		if eerr != nil || ok {
			return res, vt.Failf("C06/refused-push-changed-state", "contender %d was refused with duplicate-name, yet Exists reports %v/%v", i, ok, eerr)
		}
		if ferr == nil {
			return res, vt.Failf("C06/refused-push-changed-state", "contender %d was refused with duplicate-name, yet Fetch returns %d bytes (its own: %v)", i, len(b), bytes.Equal(b, data[i]))
		}
		if !errors.Is(ferr, errdef.ErrNotFound) {
			return res, vt.Failf("C06/fetch-absent", "Fetch of refused contender %d: %v (expected not-found)", i, ferr)
		}
	}
	onDisk, rerr := os.ReadFile(filepath.Join(dir, filepath.FromSlash(c.Title)))
	if rerr != nil || !bytes.Equal(onDisk, data[w]) {
		return res, vt.Failf("C06/file-content-mismatch", "file %q holds %d bytes (err %v), the accepted contender %d has %d bytes; equal=%v", c.Title, len(onDisk), rerr, w, len(data[w]), bytes.Equal(onDisk, data[w]))
	}
	return res, nil
}

func boolInt(b bool) int {
	if b {
		return 1
	}
	return 0
}
