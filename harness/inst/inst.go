// Package inst wraps stores with recorders, gauges, latency and fault points. The
// wrapper types expose exactly the optional interfaces of what they wrap, so the
// type assertions inside oras-go see the same capabilities as without a wrapper.
package inst

import (
	"context"
	"errors"
	"fmt"
	"io"
	"runtime"
	"sync"
	"time"

	ocispec "github.com/opencontainers/image-spec/specs-go/v1"
	"oras.land/oras-go/v2/content"
)

// ErrInjected is the error returned at fault points.
var ErrInjected = errors.New("verif: injected fault")

// Event is one recorded storage call or callback.
type Event struct {
	Seq  int64
	Side string // src, dst, cb
	Op   string // Fetch, FetchClose, Exists, Push, Tag, Resolve, Predecessors, PreCopy, ...
	Node string // triple key
	Ph   string // begin, end
	Err  bool
}

// Fault is a fault point.
type Fault struct {
	Side string `json:"side"` // src, dst, cb
	Op   string `json:"op"`
	Node int    `json:"node"`          // canonical DAG id
	Nth  int    `json:"nth,omitempty"` // 0 = first occurrence
	When string `json:"when"`          // before, after
	Kind string `json:"kind"`          // error, cancel
	Ref  string `json:"ref,omitempty"` // for Resolve faults: the reference string (Node is ignored)
}

// Recorder collects events and drives latency and faults.
type Recorder struct {
	mu      sync.Mutex
	seq     int64
	Events  []Event
	inSrc   int
	inDst   int
	MaxSrc  int
	MaxDst  int
	counts  map[string]int
	Faults  []Fault
	fKeys   []string // triple key per fault
	Fired   []bool
	LatSeed int
	Cancel  context.CancelFunc
	// OnPushed is called after an underlying destination push succeeded, before
	// the wrapper returns to the caller.
	OnPushed func(desc ocispec.Descriptor)
	// Quiet disables event recording (dry runs).
	Heavy bool // heavier latency
	// SlowCallbacks: callbacks take as long as storage operations do
	SlowCallbacks bool
	// SlowSkipped: extra time an OnCopySkipped callback takes (with SlowCallbacks)
	SlowSkipped time.Duration
}

// NewRecorder creates a recorder. keyOf maps fault node ids to triple keys.
func NewRecorder(faults []Fault, keyOf func(int) string, latSeed int) *Recorder {
	r := &Recorder{counts: map[string]int{}, Faults: faults, Fired: make([]bool, len(faults)), LatSeed: latSeed}
	for _, f := range faults {
		if f.Ref != "" {
			r.fKeys = append(r.fKeys, f.Ref)
			continue
		}
		r.fKeys = append(r.fKeys, keyOf(f.Node))
	}
	return r
}

// Key is the node identity used in events.
func Key(d ocispec.Descriptor) string {
	return d.MediaType + "|" + d.Digest.String() + "|" + fmt.Sprint(d.Size)
}

func (r *Recorder) event(side, op, node, ph string, err bool) int64 {
	r.mu.Lock()
	defer r.mu.Unlock()
	r.seq++
	r.Events = append(r.Events, Event{r.seq, side, op, node, ph, err})
	return r.seq
}

// Snapshot returns a copy of the events.
func (r *Recorder) Snapshot() []Event {
	r.mu.Lock()
	defer r.mu.Unlock()
	return append([]Event(nil), r.Events...)
}

// AnyFired reports whether a fault fired.
func (r *Recorder) AnyFired() bool {
	r.mu.Lock()
	defer r.mu.Unlock()
	for _, f := range r.Fired {
		if f {
			return true
		}
	}
	return false
}

func (r *Recorder) gauge(side string, delta int) {
	r.mu.Lock()
	defer r.mu.Unlock()
	if side == "src" {
		r.inSrc += delta
		if r.inSrc > r.MaxSrc {
			r.MaxSrc = r.inSrc
		}
	} else {
		r.inDst += delta
		if r.inDst > r.MaxDst {
			r.MaxDst = r.inDst
		}
	}
}

// latency perturbs the schedule deterministically per (case, op, node).
func (r *Recorder) latency(side, op, node string) {
	if r.LatSeed == 0 {
		return
	}
	h := uint32(r.LatSeed) * 2654435761
	for _, c := range side + op + node {
		h = (h ^ uint32(c)) * 16777619
	}
	m := h % 8
	if r.Heavy {
		// every operation takes 0.2-1.2 ms so that operations of concurrent tasks
		// overlap and permits are contended
		time.Sleep(time.Duration((h>>8)%1000+200) * time.Microsecond)
		return
	}
	switch {
	case m < 3:
	case m < 6:
		for i := uint32(0); i < (h>>8)%6+1; i++ {
			runtime.Gosched()
		}
	default:
		time.Sleep(time.Duration((h>>8)%300+20) * time.Microsecond)
	}
}

// fault returns the fault to apply at this point, if any.
func (r *Recorder) fault(side, op, node, when string) (kind string, hit bool) {
	r.mu.Lock()
	defer r.mu.Unlock()
	ck := side + "/" + op + "/" + node + "/" + when
	n := r.counts[ck]
	r.counts[ck] = n + 1
	for i, f := range r.Faults {
		if f.Side == side && f.Op == op && r.fKeys[i] == node && f.When == when && f.Nth == n {
			r.Fired[i] = true
			return f.Kind, true
		}
	}
	return "", false
}

// Point evaluates a fault point and returns the error to surface, if any.
func (r *Recorder) Point(ctx context.Context, side, op, node, when string) error {
	kind, hit := r.fault(side, op, node, when)
	if !hit {
		return nil
	}
	if kind == "cancel" {
		if r.Cancel != nil {
			r.Cancel()
		}
		if when == "before" {
			return context.Canceled
		}
		return nil
	}
	return fmt.Errorf("%s %s %s: %w", side, op, when, ErrInjected)
}

// ---------------------------------------------------------------------------------

// Base is what every wrapped store offers.
type Base interface {
	content.ReadOnlyStorage
}

type ro struct {
	s    content.ReadOnlyStorage
	r    *Recorder
	side string
}

func (w *ro) Fetch(ctx context.Context, target ocispec.Descriptor) (io.ReadCloser, error) {
	k := Key(target)
	w.r.latency(w.side, "Fetch", k)
	if err := w.r.Point(ctx, w.side, "Fetch", k, "before"); err != nil {
		w.r.event(w.side, "Fetch", k, "begin", false)
		w.r.event(w.side, "Fetch", k, "end", true)
		return nil, err
	}
	w.r.gauge(w.side, +1)
	w.r.event(w.side, "Fetch", k, "begin", false)
	rc, err := w.s.Fetch(ctx, target)
	if err == nil {
		if ferr := w.r.Point(ctx, w.side, "Fetch", k, "after"); ferr != nil {
			rc.Close()
			err = ferr
		}
	}
	if err != nil {
		w.r.gauge(w.side, -1)
		w.r.event(w.side, "Fetch", k, "end", true)
		return nil, err
	}
	if kind, hit := w.r.fault(w.side, "Fetch", k, "mid"); hit {
		// the read fails (or the context is cancelled) half way through the content
		return &readCloser{rc: &midFail{rc: rc, left: target.Size / 2, kind: kind, r: w.r}, w: w, k: k}, nil
	}
	return &readCloser{rc: rc, w: w, k: k}, nil
}

type midFail struct {
	rc   io.ReadCloser
	left int64
	kind string
	r    *Recorder
}

func (m *midFail) Read(p []byte) (int, error) {
	if m.left <= 0 {
		if m.kind == "cancel" && m.r.Cancel != nil {
			m.r.Cancel()
			return 0, context.Canceled
		}
		return 0, fmt.Errorf("src Fetch mid-stream: %w", ErrInjected)
	}
	if int64(len(p)) > m.left {
		p = p[:m.left]
	}
	n, err := m.rc.Read(p)
	m.left -= int64(n)
	return n, err
}

func (m *midFail) Close() error { return m.rc.Close() }

type readCloser struct {
	rc   io.ReadCloser
	w    *ro
	k    string
	once sync.Once
}

func (r *readCloser) Read(p []byte) (int, error) { return r.rc.Read(p) }
func (r *readCloser) Close() error {
	err := r.rc.Close()
	r.once.Do(func() {
		r.w.r.gauge(r.w.side, -1)
		r.w.r.event(r.w.side, "Fetch", r.k, "end", false)
	})
	return err
}

func (w *ro) Exists(ctx context.Context, target ocispec.Descriptor) (bool, error) {
	k := Key(target)
	w.r.latency(w.side, "Exists", k)
	w.r.gauge(w.side, +1)
	defer w.r.gauge(w.side, -1)
	w.r.event(w.side, "Exists", k, "begin", false)
	if err := w.r.Point(ctx, w.side, "Exists", k, "before"); err != nil {
		w.r.event(w.side, "Exists", k, "end", true)
		return false, err
	}
	ok, err := w.s.Exists(ctx, target)
	if err == nil {
		err = w.r.Point(ctx, w.side, "Exists", k, "after")
	}
	w.r.event(w.side, "Exists", k, "end", err != nil)
	return ok, err
}

type pusher struct {
	p content.Pusher
	u content.ReadOnlyStorage
	r *Recorder
}

func (w *pusher) Push(ctx context.Context, expected ocispec.Descriptor, rd io.Reader) error {
	k := Key(expected)
	w.r.latency("dst", "Push", k)
	w.r.gauge("dst", +1)
	defer w.r.gauge("dst", -1)
	w.r.event("dst", "Push", k, "begin", false)
	if err := w.r.Point(ctx, "dst", "Push", k, "before"); err != nil {
		w.r.event("dst", "Push", k, "end", true)
		return err
	}
	err := w.p.Push(ctx, expected, rd)
	if err == nil && w.r.OnPushed != nil {
		w.r.OnPushed(expected)
	}
	if err == nil {
		if ferr := w.r.Point(ctx, "dst", "Push", k, "after"); ferr != nil {
			err = ferr
		}
	}
	w.r.event("dst", "Push", k, "end", err != nil)
	return err
}

type tagres struct {
	t    content.TagResolver
	r    *Recorder
	side string
}

func (w *tagres) Resolve(ctx context.Context, ref string) (ocispec.Descriptor, error) {
	w.r.event(w.side, "Resolve", ref, "begin", false)
	if err := w.r.Point(ctx, w.side, "Resolve", ref, "before"); err != nil {
		w.r.event(w.side, "Resolve", ref, "end", true)
		return ocispec.Descriptor{}, err
	}
	d, err := w.t.Resolve(ctx, ref)
	if err == nil {
		err = w.r.Point(ctx, w.side, "Resolve", ref, "after")
	}
	w.r.event(w.side, "Resolve", ref, "end", err != nil)
	return d, err
}

func (w *tagres) Tag(ctx context.Context, desc ocispec.Descriptor, ref string) error {
	k := Key(desc)
	w.r.gauge(w.side, +1)
	defer w.r.gauge(w.side, -1)
	w.r.event(w.side, "Tag", k, "begin", false)
	if err := w.r.Point(ctx, w.side, "Tag", k, "before"); err != nil {
		w.r.event(w.side, "Tag", k, "end", true)
		return err
	}
	err := w.t.Tag(ctx, desc, ref)
	w.r.event(w.side, "Tag", k, "end", err != nil)
	return err
}

type preds struct {
	p interface {
		Predecessors(ctx context.Context, node ocispec.Descriptor) ([]ocispec.Descriptor, error)
	}
	r    *Recorder
	side string
}

func (w *preds) Predecessors(ctx context.Context, node ocispec.Descriptor) ([]ocispec.Descriptor, error) {
	k := Key(node)
	w.r.event(w.side, "Predecessors", k, "begin", false)
	if err := w.r.Point(ctx, w.side, "Predecessors", k, "before"); err != nil {
		w.r.event(w.side, "Predecessors", k, "end", true)
		return nil, err
	}
	out, err := w.p.Predecessors(ctx, node)
	if err == nil {
		err = w.r.Point(ctx, w.side, "Predecessors", k, "after")
	}
	w.r.event(w.side, "Predecessors", k, "end", err != nil)
	return out, err
}

// GraphTarget is a wrapped memory / OCI-layout / file store (read-write).
type GraphTarget struct {
	*ro
	*pusher
	*tagres
	*preds
}

// ROGraphTarget is a wrapped read-only OCI store.
type ROGraphTarget struct {
	*ro
	*roResolver
	*preds
}

type roResolver struct {
	t    content.Resolver
	r    *Recorder
	side string
}

func (w *roResolver) Resolve(ctx context.Context, ref string) (ocispec.Descriptor, error) {
	w.r.event(w.side, "Resolve", ref, "begin", false)
	if err := w.r.Point(ctx, w.side, "Resolve", ref, "before"); err != nil {
		w.r.event(w.side, "Resolve", ref, "end", true)
		return ocispec.Descriptor{}, err
	}
	d, err := w.t.Resolve(ctx, ref)
	if err == nil {
		err = w.r.Point(ctx, w.side, "Resolve", ref, "after")
	}
	w.r.event(w.side, "Resolve", ref, "end", err != nil)
	return d, err
}

// RWStore is the capability set of the built-in read-write stores.
type RWStore interface {
	content.Storage
	content.TagResolver
	Predecessors(ctx context.Context, node ocispec.Descriptor) ([]ocispec.Descriptor, error)
}

// ROStore is the capability set of the read-only OCI store.
type ROStore interface {
	content.ReadOnlyStorage
	content.Resolver
	Predecessors(ctx context.Context, node ocispec.Descriptor) ([]ocispec.Descriptor, error)
}

// WrapRW wraps a read-write built-in store.
func WrapRW(s RWStore, r *Recorder, side string) *GraphTarget {
	return &GraphTarget{
		ro:     &ro{s: s, r: r, side: side},
		pusher: &pusher{p: s, u: s, r: r},
		tagres: &tagres{t: s, r: r, side: side},
		preds:  &preds{p: s, r: r, side: side},
	}
}

// WrapRO wraps a read-only OCI store.
func WrapRO(s ROStore, r *Recorder, side string) *ROGraphTarget {
	return &ROGraphTarget{
		ro:         &ro{s: s, r: r, side: side},
		roResolver: &roResolver{t: s, r: r, side: side},
		preds:      &preds{p: s, r: r, side: side},
	}
}

// Callback records a callback invocation and applies callback faults.
func (r *Recorder) Callback(ctx context.Context, name string, desc ocispec.Descriptor) error {
	k := Key(desc)
	r.event("cb", name, k, "begin", false)
	err := r.Point(ctx, "cb", name, k, "before")
	if r.SlowCallbacks && err == nil {
		// the caller's callback takes its time (a progress display, a log write)
		r.latency("cb", name, k)
		if name == "OnCopySkipped" && r.SlowSkipped > 0 {
			time.Sleep(r.SlowSkipped)
		}
	}
	r.event("cb", name, k, "end", err != nil)
	return err
}
