package c01

import (
	"context"
	"errors"
	"path/filepath"
	"testing"
	"time"

	ocispec "github.com/opencontainers/image-spec/specs-go/v1"
	"oras.land/oras-go/v2"
	"oras.land/oras-go/v2/content/file"
	"oras.land/oras-go/v2/content/oci"
	"pgregory.net/rapid"

	"verif/harness/copyx"
	"verif/harness/gen"
	"verif/harness/regmodel"
	"verif/harness/vt"
)

var srcKinds = []string{"memory", "oci", "oci-ro", "oci-tar", "file"}
var dstKinds = []string{"memory", "oci", "file"}

func genCase(t *rapid.T) copyx.Case {
	max := 14
	if vt.Thorough() {
		max = 32
	}
	c := copyx.GenBase(t, gen.DAGOpts{MaxNodes: max, URLsOnAny: true}, srcKinds, dstKinds)
	d := gen.Build(c.Specs)
	c.API = rapid.SampledFrom([]string{"copygraph", "copy", "copy", "copy-blankdst", "copy-maproot", "copy-digestdst"}).Draw(t, "api")
	if c.API == "copy-maproot" {
		// map to a manifest reachable from the root (or the root itself)
		var cands []int
		for _, id := range gen.SortedKeys(d.Reach(c.Root, true)) {
			if d.IsManifest(id) {
				cands = append(cands, id)
			}
		}
		if len(cands) == 0 {
			c.API = "copy"
		} else {
			c.MapTo = rapid.SampledFrom(cands).Draw(t, "mapTo")
		}
	}
	c.SrcTagAnn = rapid.Bool().Draw(t, "srcTagAnn")
	c.Again = rapid.Bool().Draw(t, "again")
	root := c.Root
	if c.API == "copy-maproot" {
		root = c.MapTo
	}
	c.Pre = copyx.GenPre(t, d, d.Reach(root, true), root)
	if c.DstKind == "file" && rapid.IntRange(0, 3).Draw(t, "clash") == 0 {
		// a name the graph uses is already taken in the destination by other content
		pre := map[int]bool{}
		for _, p := range c.Pre {
			pre[p] = true
		}
		var named []int
		for _, id := range gen.SortedKeys(d.Reach(root, true)) {
			if d.Nodes[id].Spec.Title != "" && !pre[id] && !d.Nodes[id].Spec.Absent {
				named = append(named, id)
			}
		}
		if len(named) > 0 {
			c.Clash = []int{rapid.SampledFrom(named).Draw(t, "clashNode")}
		}
	}
	return c
}

// genRemote: pairings that involve a remote.Repository over the registry model.
func genRemote(t *rapid.T) copyx.Case {
	max := 12
	if vt.Thorough() {
		max = 24
	}
	pair := rapid.SampledFrom([][2]string{{"remote", "remote"}, {"remote", "memory"}, {"memory", "remote"}, {"oci", "remote"}, {"remote", "oci"}}).Draw(t, "pair")
	o := gen.DAGOpts{MaxNodes: max, ManifestSHA: true, SingleMT: true, NoBlobSubj: true}
	c := copyx.GenBase(t, o, []string{pair[0]}, []string{pair[1]})
	c.SrcKind, c.DstKind = pair[0], pair[1]
	d := gen.Build(c.Specs)
	c.SrcProfile = regmodel.Profile{ReferrersAPI: rapid.Bool().Draw(t, "srcAPI"), AcceptRanges: rapid.Bool().Draw(t, "ranges"), Chunked: rapid.IntRange(0, 3).Draw(t, "chunked") == 0, PageCap: rapid.SampledFrom([]int{0, 1, 2}).Draw(t, "cap"), LinkStyle: rapid.IntRange(0, 4).Draw(t, "link")}
	c.DstProfile = regmodel.Profile{StrictBlobs: true, ReferrersAPI: rapid.Bool().Draw(t, "dstAPI"), LocationQuery: rapid.Bool().Draw(t, "locq"), LocationAbs: rapid.Bool().Draw(t, "locabs"), MountCreated: true}
	c.DstProfile.SubjectHeader = c.DstProfile.ReferrersAPI && rapid.Bool().Draw(t, "subjHdr")
	c.API = rapid.SampledFrom([]string{"copygraph", "copy", "copy", "copy-blankdst"}).Draw(t, "api")
	// a registry tags manifests only
	if c.API != "copygraph" && !d.IsManifest(d.Nodes[c.Root].Canon) {
		c.API = "copygraph"
	}
	if c.SrcKind == "remote" && !d.IsManifest(d.Nodes[c.Root].Canon) && c.API != "copygraph" {
		c.API = "copygraph"
	}
	c.Pre = copyx.GenPre(t, d, d.Reach(c.Root, true), c.Root)
	return c
}

func runCase(c copyx.Case) (res vt.Result, fail *vt.Fail) {
	e, f := copyx.Setup(&c)
	if f != nil {
		return res, f
	}
	defer e.Close()
	d := e.D
	var out copyx.Outcome
	fin, dump := vt.Watch(60*time.Second, func() { out = e.Invoke(false) })
	if !fin {
		// termination is C02's subject; here the case cannot be judged
		_ = dump
		vt.Infra("copy call did not return within 60 s (see C02)")
	}
	root := e.ExpectedRoot()
	reach := d.Reach(root.ID, true)

	// classification
	cl := map[string]bool{"api-" + c.API: true, "src-" + c.SrcKind: true, "dst-" + c.DstKind: true}
	fanin := map[int]int{}
	hasManifest := false
	for id := range reach {
		n := d.Nodes[id]
		if d.IsManifest(id) {
			hasManifest = true
		}
		seen := map[int]bool{}
		for _, ed := range n.Edges {
			if ed.Foreign {
				cl["foreign-layer"] = true
				continue
			}
			if seen[ed.To] {
				cl["duplicate-successor"] = true
			}
			seen[ed.To] = true
			if ed.Role == "subject" {
				cl["subject-edge"] = true
			}
			if ed.Role == "manifest" && (d.Nodes[ed.To].Spec.Kind == gen.KIndex || d.Nodes[ed.To].Spec.Kind == gen.KDockerList) {
				cl["nested-index"] = true
			}
		}
		for to := range seen {
			fanin[to]++
		}
		if len(n.Bytes) == 0 {
			cl["empty-blob"] = true
		}
	}
	for _, k := range fanin {
		if k >= 2 {
			cl["shared-node"] = true
		}
	}
	bytesMT := map[string]string{}
	for id := range reach {
		n := d.Nodes[id]
		if prev, ok := bytesMT[n.Desc.Digest.String()]; ok && prev != n.Desc.MediaType {
			cl["same-bytes-two-media-types"] = true
		}
		bytesMT[n.Desc.Digest.String()] = n.Desc.MediaType
	}
	if len(c.Pre) > 0 {
		cl["pre-populated"] = true
		for _, p := range c.Pre {
			if p == root.ID {
				cl["root-already-present"] = true
			}
		}
	}
	if c.API == "copy-maproot" && c.MapTo != d.Nodes[c.Root].Canon {
		cl["maproot-to-descendant"] = true
	}
	nt := false
	for _, k := range []string{"shared-node", "duplicate-successor", "empty-blob", "same-bytes-two-media-types", "subject-edge", "nested-index", "foreign-layer", "pre-populated", "root-already-present", "maproot-to-descendant"} {
		if cl[k] {
			nt = true
		}
	}
	res.NonTrivial = hasManifest && nt
	for k := range cl {
		res.Classes = append(res.Classes, k)
	}

	if len(c.Clash) > 0 {
		// the destination cannot hold the graph (a name is taken by other content):
		// the copy may be refused with duplicate-name, but if it reports success
		// everything must be there all the same
		res.Classes = append(res.Classes, "destination-name-taken-by-other-content")
		if out.Err != nil {
			if !errors.Is(out.Err, file.ErrDuplicateName) {
				return res, vt.Failf("C01/name-clash-wrong-error", "%s into a file store where the name of node %d is taken failed with %v, expected duplicate-name (or success with everything copied)", c.API, c.Clash[0], out.Err)
			}
			res.Classes = append(res.Classes, "copy-refused-duplicate-name")
			return res, nil
		}
	}
	if out.Err != nil {
		return res, vt.Failf("C01/fault-free-copy-failed", "%s %s->%s returned an error on a well-formed graph without faults: %v", c.API, c.SrcKind, c.DstKind, out.Err)
	}
	if f := e.CheckPresent(reach, "C01", "after "+c.API); f != nil {
		return res, f
	}
	if c.API != "copygraph" {
		if gen.TripleKey(out.Desc) != gen.TripleKey(root.Desc) {
			return res, vt.Failf("C01/returned-root-mismatch", "%s returned %s, expected root node %d %s", c.API, gen.TripleKey(out.Desc), root.ID, gen.TripleKey(root.Desc))
		}
		ref := copyx.DstRef
		if c.API == "copy-blankdst" {
			ref = copyx.SrcRef
		}
		if c.API == "copy-digestdst" {
			ref = root.Desc.Digest.String()
		}
		got, err := e.RawDst.Resolve(context.Background(), ref)
		if err != nil {
			return res, vt.Failf("C01/root-not-tagged", "%s: Resolve(%q) on the destination: %v", c.API, ref, err)
		}
		if got.Digest != root.Desc.Digest || got.Size != root.Desc.Size {
			return res, vt.Failf("C01/tag-points-elsewhere", "%s: Resolve(%q) = %s, expected root %s", c.API, ref, gen.TripleKey(got), gen.TripleKey(root.Desc))
		}
		refs := []string{ref}
		if c.Again && c.DstKind != "remote" && (c.API == "copy" || c.API == "copy-blankdst") {
			// the root is present now: Copy under a second reference only tags it
			const ref2 = "again"
			d2, err := oras.Copy(context.Background(), e.Src.(oras.ReadOnlyTarget), copyx.SrcRef, e.Dst, ref2, oras.DefaultCopyOptions)
			if err != nil || gen.TripleKey(d2) != gen.TripleKey(root.Desc) {
				return res, vt.Failf("C01/second-copy-failed", "Copy of the already present root under reference %q returned %s, %v", ref2, gen.TripleKey(d2), err)
			}
			refs = append(refs, ref2)
			res.Classes = append(res.Classes, "copied-again-under-second-reference")
		}
		views := map[string]interface {
			Resolve(context.Context, string) (ocispec.Descriptor, error)
		}{"destination": e.RawDst}
		if c.DstKind == "oci" {
			re, err := oci.New(filepath.Join(e.Dir, "dst"))
			if err != nil {
				return res, vt.Failf("C01/reopen-failed", "%v", err)
			}
			views["reopened destination layout"] = re
		}
		for name, v := range views {
			for _, r := range refs {
				got, err := v.Resolve(context.Background(), r)
				if err != nil || got.Digest != root.Desc.Digest || got.Size != root.Desc.Size {
					return res, vt.Failf("C01/root-not-tagged", "%s: Resolve(%q) on the %s = %s, %v; expected root %s", c.API, r, name, gen.TripleKey(got), err, gen.TripleKey(root.Desc))
				}
			}
		}
	}
	// nodes reachable only through foreign edges whose content the source does not
	// hold must not have been read
	for _, ev := range e.Rec.Snapshot() {
		if ev.Side == "src" && ev.Op == "Fetch" && ev.Ph == "begin" {
			for _, id := range d.CanonIDs() {
				if d.Nodes[id].Spec.Absent && ev.Node == gen.TripleKey(d.Nodes[id].Desc) {
					return res, vt.Failf("C01/foreign-layer-fetched", "source Fetch of foreign layer node %d", id)
				}
			}
		}
	}
	return res, nil
}

func TestMain(m *testing.M) {
	vt.ReplayRepeat["twin"] = 50
	vt.Main(m, "C01",
		vt.NewLeg("main", 1500, 5000, 16, genCase, runCase),
		vt.NewLeg("remote", 600, 2500, 8, genRemote, runCase),
		vt.NewLeg("twin", 500, 2000, 4, genTwin, runTwin),
	)
}

func TestLegs(t *testing.T)   { vt.TestLegs(t) }
func TestReplay(t *testing.T) { vt.TestReplay(t) }
