package c07

import (
	"testing"
	"time"

	"verif/harness/vt"
)

const watchdog = 20 * time.Second

func TestMain(m *testing.M) {
	vt.Main(m, "C07",
		vt.NewLeg("memory", 1500, 6000, 4, genCase("memory"), runCase),
		vt.NewLeg("file", 800, 4000, 4, genCase("file"), runCase),
		vt.NewLeg("oci", 1500, 5000, 8, genCase("oci"), runCase),
	)
}

func TestLegs(t *testing.T)   { vt.TestLegs(t) }
func TestReplay(t *testing.T) { vt.TestReplay(t) }
