package c12

import (
	"bytes"
	"compress/gzip"
	"context"
	"crypto/sha256"
	"encoding/hex"
	"fmt"
	"io"
	"net/http"
	"os"
	"path/filepath"
	"sort"
	"strings"
	"syscall"
	"testing"
	"time"
	"unsafe"

	"github.com/opencontainers/go-digest"
	ocispec "github.com/opencontainers/image-spec/specs-go/v1"
	oras "oras.land/oras-go/v2"
	"oras.land/oras-go/v2/content"
	"oras.land/oras-go/v2/content/file"
	"oras.land/oras-go/v2/content/memory"
	"oras.land/oras-go/v2/content/oci"
	"oras.land/oras-go/v2/registry/remote"
	"pgregory.net/rapid"

	"verif/harness/gen"
	"verif/harness/regmodel"
	"verif/harness/vt"
)

// FNode is one object of a generated tree.
type FNode struct {
	Path   string `json:"path"` // relative, slash separated
	Type   string `json:"type"` // file, dir, symlink
	Size   int    `json:"size,omitempty"`
	Seed   int    `json:"seed,omitempty"`
	Mode   uint32 `json:"mode,omitempty"`
	Target string `json:"target,omitempty"`
	MTime  int64  `json:"mtime,omitempty"`
}

// Item is one Add call.
type Item struct {
	Name  string  `json:"name"`
	IsDir bool    `json:"isDir"`
	Tree  []FNode `json:"tree,omitempty"`
	File  FNode   `json:"file,omitempty"`
	MT    string  `json:"mt,omitempty"`
}

// Case is one round trip.
type Case struct {
	Items        []Item `json:"items"`
	Reproducible bool   `json:"tarReproducible,omitempty"`
	Preserve     bool   `json:"preservePermissions,omitempty"`
	SkipUnpack   bool   `json:"skipUnpack,omitempty"`
	ForceCAS     bool   `json:"forceCAS,omitempty"`
	IgnoreNoName bool   `json:"ignoreNoName,omitempty"`
	Mid          string `json:"mid"`
	// Pack: how the files are packed: "" = PackManifest v1.1, "v1.0", "artifact"
	// (the deprecated oras.Pack: OCI artifact manifest), "pack-image" (oras.Pack, image manifest)
	Pack string `json:"pack,omitempty"`
	// StaleDst: the destination working directory already holds older, longer
	// files under the names of the items that are restored as single files
	StaleDst bool `json:"staleDst,omitempty"`
}

var names = []string{"a", "b.txt", "with space", "дир-目录", ".hidden", "Makefile", strings.Repeat("long-name-", 11), "x_y", "é", "..data", "..2024_05_01", "...", "a..b"}
var fileModes = []uint32{0o644, 0o600, 0o755, 0o444, 0o400, 0o711, 0o666, 0o664}
var dirModes = []uint32{0o755, 0o750, 0o700, 0o775, 0o777}

func genTree(t *rapid.T) []FNode {
	var out []FNode
	dirs := []string{""}
	used := map[string]bool{}
	n := rapid.IntRange(0, 12).Draw(t, "nEntries")
	for i := 0; i < n; i++ {
		parent := rapid.SampledFrom(dirs).Draw(t, "parent")
		if strings.Count(parent, "/") >= 3 {
			parent = ""
		}
		name := rapid.SampledFrom(names).Draw(t, "name")
		p := name
		if parent != "" {
			p = parent + "/" + name
		}
		if used[p] {
			continue
		}
		used[p] = true
		switch rapid.IntRange(0, 9).Draw(t, "kind") {
		case 0, 1, 2:
			out = append(out, FNode{Path: p, Type: "dir", Mode: rapid.SampledFrom(dirModes).Draw(t, "dmode"), MTime: int64(rapid.IntRange(1_000_000_000, 1_700_000_000).Draw(t, "mtime"))})
			dirs = append(dirs, p)
		case 3:
			tg := rapid.SampledFrom([]string{"a", "../a", "nonexistent", ".", "b.txt"}).Draw(t, "target")
			if parent == "" && tg == "../a" {
				tg = "a" // a link leaving the added directory is rejected on extraction (C11)
			}
			out = append(out, FNode{Path: p, Type: "symlink", Target: tg})
		default:
			sz := rapid.SampledFrom([]int{0, 1, 17, 300, 40000}).Draw(t, "size")
			out = append(out, FNode{Path: p, Type: "file", Size: sz, Seed: rapid.IntRange(0, 3).Draw(t, "seed"), Mode: rapid.SampledFrom(fileModes).Draw(t, "fmode"), MTime: int64(rapid.IntRange(1_000_000_000, 1_700_000_000).Draw(t, "mtime"))})
		}
	}
	// one deep path beyond 255 bytes to force PAX records
	if rapid.IntRange(0, 5).Draw(t, "deep") == 0 {
		long := "deep-" + strings.Repeat("long-name-", 11)
		p := ""
		for i := 0; i < 3; i++ {
			if p != "" {
				p += "/"
			}
			p += long
			if !used[p] {
				used[p] = true
				out = append(out, FNode{Path: p, Type: "dir", Mode: 0o755, MTime: 1_500_000_000})
			}
		}
		out = append(out, FNode{Path: p + "/leaf.txt", Type: "file", Size: 9, Seed: 1, Mode: 0o644, MTime: 1_500_000_001})
	}
	return out
}

func genCase(t *rapid.T) Case {
	c := Case{Mid: rapid.SampledFrom([]string{"memory", "oci", "file", "remote"}).Draw(t, "mid")}
	c.Pack = rapid.SampledFrom([]string{"", "", "v1.0", "artifact", "pack-image"}).Draw(t, "pack")
	c.Reproducible = rapid.Bool().Draw(t, "reproducible")
	c.StaleDst = rapid.IntRange(0, 2).Draw(t, "staleDst") == 0
	c.Preserve = rapid.Bool().Draw(t, "preserve")
	c.SkipUnpack = rapid.IntRange(0, 4).Draw(t, "skipUnpack") == 0
	c.ForceCAS = rapid.IntRange(0, 4).Draw(t, "forceCAS") == 0
	c.IgnoreNoName = rapid.IntRange(0, 4).Draw(t, "ignoreNoName") == 0
	k := rapid.IntRange(1, 3).Draw(t, "nItems")
	for i := 0; i < k; i++ {
		it := Item{Name: fmt.Sprintf("item%d", i)}
		if rapid.IntRange(0, 3).Draw(t, "itemName") == 0 {
			it.Name = []string{"dir with space", "данные", "nested/sub/item"}[i%3] + fmt.Sprint(i)
		}
		it.IsDir = rapid.IntRange(0, 2).Draw(t, "isDir") != 0
		if it.IsDir {
			it.Tree = genTree(t)
		} else {
			it.File = FNode{Type: "file", Size: rapid.SampledFrom([]int{0, 5, 5, 70000}).Draw(t, "fsize"), Seed: rapid.IntRange(0, 1).Draw(t, "fseed"), Mode: rapid.SampledFrom(fileModes).Draw(t, "fmode")}
		}
		if rapid.IntRange(0, 3).Draw(t, "customMT") == 0 {
			it.MT = "application/vnd.verif.custom"
		}
		if !it.IsDir && rapid.IntRange(0, 2).Draw(t, "twin") == 0 {
			// the same bytes (and media type) as an earlier single-file item, under another name
			for _, prev := range c.Items {
				if !prev.IsDir {
					it.File.Size, it.File.Seed, it.MT = prev.File.Size, prev.File.Seed, prev.MT
					break
				}
			}
		}
		c.Items = append(c.Items, it)
	}
	return c
}

// materialise creates the item below root; reverse controls creation order, dt is
// added to every mtime.
func materialise(root string, it Item, reverse bool, dt int64) error {
	base := filepath.Join(root, filepath.FromSlash(it.Name))
	if !it.IsDir {
		if err := os.MkdirAll(filepath.Dir(base), 0o755); err != nil {
			return err
		}
		if err := os.WriteFile(base, gen.BlobBytes(it.File.Seed, it.File.Size), 0o600); err != nil {
			return err
		}
		return os.Chmod(base, os.FileMode(it.File.Mode))
	}
	if err := os.MkdirAll(base, 0o755); err != nil {
		return err
	}
	nodes := append([]FNode(nil), it.Tree...)
	// directories first (parents before children), then others in the chosen order
	sort.SliceStable(nodes, func(i, j int) bool {
		di, dj := nodes[i].Type == "dir", nodes[j].Type == "dir"
		if di != dj {
			return di
		}
		if di {
			return len(nodes[i].Path) < len(nodes[j].Path)
		}
		if reverse {
			return nodes[i].Path > nodes[j].Path
		}
		return nodes[i].Path < nodes[j].Path
	})
	for _, n := range nodes {
		p := filepath.Join(base, filepath.FromSlash(n.Path))
		switch n.Type {
		case "dir":
			if err := os.MkdirAll(p, 0o755); err != nil {
				return err
			}
		case "file":
			if err := os.WriteFile(p, gen.BlobBytes(n.Seed, n.Size), 0o600); err != nil {
				return err
			}
		case "symlink":
			if err := os.Symlink(n.Target, p); err != nil {
				return err
			}
		}
	}
	// modes and times last (deepest first so that restrictive directory modes do not get in the way)
	for i := len(nodes) - 1; i >= 0; i-- {
		n := nodes[i]
		p := filepath.Join(base, filepath.FromSlash(n.Path))
		if n.Type == "symlink" {
			// a link has a modification time of its own (Chtimes would follow it)
			lutimes(p, 1_500_000_000+n.MTime%1000+dt)
			continue
		}
		os.Chmod(p, os.FileMode(n.Mode))
		os.Chtimes(p, time.Unix(n.MTime+dt, 0), time.Unix(n.MTime+dt, 0))
	}
	os.Chtimes(base, time.Unix(1_600_000_000+dt, 0), time.Unix(1_600_000_000+dt, 0))
	return nil
}

type obj struct {
	typ    string
	mode   os.FileMode
	hash   string
	target string
}

func scan(root string) (map[string]obj, error) {
	out := map[string]obj{}
	err := filepath.Walk(root, func(p string, info os.FileInfo, err error) error {
		if err != nil {
			return err
		}
		rel, _ := filepath.Rel(root, p)
		o := obj{mode: info.Mode().Perm()}
		switch {
		case info.Mode()&os.ModeSymlink != 0:
			o.typ = "symlink"
			o.target, _ = os.Readlink(p)
			o.mode = 0
		case info.IsDir():
			o.typ = "dir"
		default:
			o.typ = "file"
			b, err := os.ReadFile(p)
			if err != nil {
				return err
			}
			h := sha256.Sum256(b)
			o.hash = hex.EncodeToString(h[:8]) + fmt.Sprintf("/%d", len(b))
		}
		out[filepath.ToSlash(rel)] = o
		return nil
	})
	return out, err
}

const umask = 0o022

func newStore(kind, dir string) (oras.Target, func(), error) {
	switch kind {
	case "oci":
		s, err := oci.New(dir)
		return s, func() {}, err
	case "file":
		s, err := file.New(dir)
		if err != nil {
			return nil, nil, err
		}
		return s, func() { s.Close() }, nil
	case "remote":
		// a registry (model) as the intermediate store: its response bodies end the
		// way net/http bodies do (last bytes together with io.EOF)
		reg := regmodel.New("mid.test", regmodel.Profile{AcceptRanges: true})
		reg.Repo("mid/repo")
		repo, err := remote.NewRepository("mid.test/mid/repo")
		if err != nil {
			return nil, nil, err
		}
		repo.Client = &http.Client{Transport: reg}
		return repo, func() {}, nil
	}
	return memory.New(), func() {}, nil
}

func runCase(c Case) (res vt.Result, fail *vt.Fail) {
	fin, dump := vt.Watch(60*time.Second, func() { res, fail = runInner(c) })
	if !fin {
		vt.ReportHang("main", vt.MustJSON(c), vt.Failf("C12/hang", "round trip did not return"), dump)
	}
	return res, fail
}

func runInner(c Case) (res vt.Result, fail *vt.Fail) {
	ctx := context.Background()
	root := vt.Scratch("c12-")
	defer func() {
		filepath.Walk(root, func(p string, info os.FileInfo, err error) error {
			if err == nil && info.IsDir() {
				os.Chmod(p, 0o755)
			}
			return nil
		})
		os.RemoveAll(root)
	}()
	oldTmp := os.Getenv("TMPDIR")
	os.MkdirAll(filepath.Join(root, "tmp"), 0o755)
	os.Setenv("TMPDIR", filepath.Join(root, "tmp"))
	defer os.Setenv("TMPDIR", oldTmp)

	srcDir := filepath.Join(root, "src")
	for _, it := range c.Items {
		if err := materialise(srcDir, it, false, 0); err != nil {
			return res, vt.Failf("harness/materialise", "%v", err)
		}
	}
	src, err := file.New(srcDir)
	if err != nil {
		return res, vt.Failf("harness/file-new", "%v", err)
	}
	defer src.Close()
	src.TarReproducible = c.Reproducible
	var layers []ocispec.Descriptor
	var firstOK *ocispec.Descriptor
	for ii, it := range c.Items {
		if c.StaleDst == (ii%2 == 0) {
			// a first attempt that fails on the caller's side - the path does not
			// exist (yet), or the context is gone - must not take the name
			var ferr error
			var fd ocispec.Descriptor
			if it.IsDir && ii%2 == 1 {
				cctx, cancel := context.WithCancel(ctx)
				cancel()
				fd, ferr = src.Add(cctx, it.Name, it.MT, "")
			} else {
				_, ferr = src.Add(ctx, it.Name, it.MT, filepath.Join(srcDir, "no-such-dir", "missing"))
			}
			if ferr != nil {
				res.Classes = append(res.Classes, "add-retried-after-a-failed-attempt")
			} else {
				firstOK = &fd // (a cancelled context was not noticed: the name is taken, rightly)
			}
		}
		var d ocispec.Descriptor
		var err error
		if firstOK != nil {
			d, firstOK = *firstOK, nil
		} else if d, err = src.Add(ctx, it.Name, it.MT, ""); err != nil {
			return res, vt.Failf("C12/add-failed", "Add(%q): %v", it.Name, err)
		}
		// descriptor truth
		b, err := content.FetchAll(ctx, src, d)
		if err != nil {
			return res, vt.Failf("C12/descriptor-does-not-match-stored-bytes", "Add(%q) returned %s/%d but the stored bytes do not verify: %v", it.Name, d.Digest, d.Size, err)
		}
		if it.IsDir {
			zr, err := gzip.NewReader(bytes.NewReader(b))
			if err != nil {
				return res, vt.Failf("C12/not-gzip", "Add(%q): %v", it.Name, err)
			}
			raw, err := io.ReadAll(zr)
			if err != nil {
				return res, vt.Failf("C12/not-gzip", "Add(%q): %v", it.Name, err)
			}
			if want := d.Annotations[file.AnnotationDigest]; digest.FromBytes(raw).String() != want {
				return res, vt.Failf("C12/uncompressed-digest-wrong", "Add(%q): the recorded uncompressed digest %s is not the digest of the gunzipped stream", it.Name, want)
			}
			if d.Annotations[file.AnnotationUnpack] != "true" {
				return res, vt.Failf("C12/unpack-annotation-missing", "Add(%q)", it.Name)
			}
		} else if !bytes.Equal(b, gen.BlobBytes(it.File.Seed, it.File.Size)) {
			return res, vt.Failf("C12/file-bytes-differ", "Add(%q): stored bytes differ from the file", it.Name)
		}
		wantMT := it.MT
		if wantMT == "" {
			wantMT = "application/vnd.oci.image.layer.v1.tar"
			if it.IsDir {
				wantMT += "+gzip"
			}
		}
		if d.MediaType != wantMT || d.Annotations[ocispec.AnnotationTitle] != it.Name {
			return res, vt.Failf("C12/descriptor-fields", "Add(%q) = media type %s title %q", it.Name, d.MediaType, d.Annotations[ocispec.AnnotationTitle])
		}
		layers = append(layers, d)
	}
	var manifest ocispec.Descriptor
	switch c.Pack {
	case "v1.0":
		manifest, err = oras.PackManifest(ctx, src, oras.PackManifestVersion1_0, "application/vnd.verif.roundtrip", oras.PackManifestOptions{Layers: layers})
	case "artifact":
		manifest, err = oras.Pack(ctx, src, "application/vnd.verif.roundtrip", layers, oras.PackOptions{})
	case "pack-image":
		manifest, err = oras.Pack(ctx, src, "application/vnd.verif.roundtrip", layers, oras.PackOptions{PackImageManifest: true})
	default:
		manifest, err = oras.PackManifest(ctx, src, oras.PackManifestVersion1_1, "application/vnd.verif.roundtrip", oras.PackManifestOptions{Layers: layers})
	}
	if err != nil {
		return res, vt.Failf("C12/pack-failed", "%v", err)
	}
	if err := src.Tag(ctx, manifest, "v1"); err != nil {
		return res, vt.Failf("C12/tag-failed", "%v", err)
	}
	mid, closeMid, err := newStore(c.Mid, filepath.Join(root, "mid"))
	if err != nil {
		return res, vt.Failf("harness/mid", "%v", err)
	}
	defer closeMid()
	if _, err := oras.Copy(ctx, src, "v1", mid, "v1", oras.DefaultCopyOptions); err != nil {
		return res, vt.Failf("C12/copy-to-intermediate-failed", "src -> %s: %v", c.Mid, err)
	}
	dstDir := filepath.Join(root, "dst")
	if len(c.Items)%2 == 0 {
		// the destination's working directory is reached through a symbolic link
		// (a linked workspace; temp directories on some systems)
		if err := os.MkdirAll(filepath.Join(root, "dst-real"), 0o755); err != nil {
			return res, vt.Failf("harness/dst", "%v", err)
		}
		if err := os.Symlink("dst-real", dstDir); err != nil {
			return res, vt.Failf("harness/dst", "%v", err)
		}
		res.Classes = append(res.Classes, "destination-directory-behind-a-symlink")
	}
	if c.StaleDst {
		for i, it := range c.Items {
			if it.IsDir && !c.SkipUnpack {
				continue
			}
			p := filepath.Join(dstDir, filepath.FromSlash(it.Name))
			if err := os.MkdirAll(filepath.Dir(p), 0o755); err != nil {
				return res, vt.Failf("harness/stale", "%v", err)
			}
			if err := os.WriteFile(p, bytes.Repeat([]byte{'S'}, int(layers[i].Size)+57), 0o644); err != nil {
				return res, vt.Failf("harness/stale", "%v", err)
			}
			res.Classes = append(res.Classes, "restored-over-older-longer-file")
		}
	}
	dst, err := file.New(dstDir)
	if err != nil {
		return res, vt.Failf("harness/file-new", "%v", err)
	}
	defer dst.Close()
	dst.PreservePermissions, dst.SkipUnpack, dst.ForceCAS, dst.IgnoreNoName = c.Preserve, c.SkipUnpack, c.ForceCAS, c.IgnoreNoName
	if err := oras.CopyGraph(ctx, mid, dst, manifest, oras.DefaultCopyGraphOptions); err != nil {
		return res, vt.Failf("C12/copy-to-destination-failed", "%s -> file store: %v", c.Mid, err)
	}

	// classification
	nested, special := false, false
	for _, it := range c.Items {
		for _, n := range it.Tree {
			if n.Type == "dir" {
				nested = true
			}
			if n.Type == "symlink" || (n.Type == "dir" && !hasChild(it.Tree, n.Path)) || len(n.Path) > 100 || !isASCII(n.Path) || (n.Mode != 0o644 && n.Mode != 0o755 && n.Type != "symlink") {
				special = true
			}
		}
	}
	same := sameContentItems(c.Items)
	res.NonTrivial = (nested && special) || same
	res.Classes = []string{"mid-" + c.Mid, "pack-" + c.Pack}
	if same {
		res.Classes = append(res.Classes, "two-names-same-bytes")
	}
	for _, o := range []struct {
		on bool
		n  string
	}{{c.Reproducible, "TarReproducible"}, {c.Preserve, "PreservePermissions"}, {c.SkipUnpack, "SkipUnpack"}, {c.ForceCAS, "ForceCAS"}, {c.IgnoreNoName, "IgnoreNoName"}} {
		if o.on {
			res.Classes = append(res.Classes, "opt-"+o.n)
		}
	}

	// round trip
	materialised := 0
	for i, it := range c.Items {
		srcPath := filepath.Join(srcDir, filepath.FromSlash(it.Name))
		dstPath := filepath.Join(dstDir, filepath.FromSlash(it.Name))
		if it.IsDir && c.SkipUnpack {
			gz, err := content.FetchAll(ctx, src, layers[i])
			if err != nil {
				return res, vt.Failf("harness/fetch-gz", "%v", err)
			}
			got, err := os.ReadFile(dstPath)
			if err != nil || !bytes.Equal(got, gz) {
				return res, vt.Failf("C12/skipunpack-bytes", "item %q: with SkipUnpack the destination should hold the %d byte archive at %s (err %v, got %d bytes)", it.Name, len(gz), dstPath, err, len(got))
			}
			materialised++
			continue
		}
		_, err := os.Lstat(dstPath)
		if err == nil && c.StaleDst && !(it.IsDir && !c.SkipUnpack) {
			// still the older file the harness put there: not restored
			if b, rerr := os.ReadFile(dstPath); rerr == nil && bytes.Equal(b, bytes.Repeat([]byte{'S'}, int(layers[i].Size)+57)) {
				err = fmt.Errorf("the older file is still in place")
			}
		}
		if err != nil {
			if c.ForceCAS && hasTwin(c.Items, i) && twinRestored(c.Items, i, dstDir) {
				continue // ForceCAS: of several names with the same bytes at least one materialises
			}
			if c.IgnoreNoName && !c.ForceCAS && hasTwin(c.Items, i) && twinRestored(c.Items, i, dstDir) {
				return res, vt.Failf("C12/duplicate-name-not-restored-with-ignorenoname", "item %q has the same bytes as another named item that was restored, but was not materialised itself: with IgnoreNoName the unnamed manifest is discarded before duplicate names are restored", it.Name)
			}
			return res, vt.Failf("C12/item-not-restored", "item %q was not restored at %s: %v", it.Name, dstPath, err)
		}
		materialised++
		want, err := scan(srcPath)
		if err != nil {
			return res, vt.Failf("harness/scan", "%v", err)
		}
		got, err := scan(dstPath)
		if err != nil {
			return res, vt.Failf("C12/restored-tree-unreadable", "%v", err)
		}
		for p, w := range want {
			g, ok := got[p]
			if !ok {
				return res, vt.Failf("C12/path-missing", "item %q: %q (%s) is missing in the restored tree", it.Name, p, w.typ)
			}
			if g.typ != w.typ || g.hash != w.hash || g.target != w.target {
				return res, vt.Failf("C12/object-differs", "item %q: %q restored as %+v, source is %+v", it.Name, p, g, w)
			}
			if w.typ == "symlink" {
				continue
			}
			if p == "." && !c.Preserve {
				continue // the root of an added tree is created by the store itself
			}
			if !it.IsDir {
				continue // a single file travels as a plain blob: no mode is recorded for it
			}
			wm := w.mode
			if !c.Preserve {
				wm &^= umask
			}
			if g.mode != wm {
				return res, vt.Failf("C12/mode-differs", "item %q: %q restored with mode %o, expected %o (source %o, PreservePermissions=%v, umask %o)", it.Name, p, g.mode, wm, w.mode, c.Preserve, umask)
			}
		}
		for p := range got {
			if _, ok := want[p]; !ok {
				return res, vt.Failf("C12/extra-path", "item %q: the restored tree has %q, the source does not", it.Name, p)
			}
		}
	}
	if materialised == 0 {
		return res, vt.Failf("C12/nothing-restored", "no item materialised")
	}
	// unnamed nodes with IgnoreNoName
	if c.IgnoreNoName {
		if ok, _ := dst.Exists(ctx, manifest); ok {
			return res, vt.Failf("C12/ignorenoname-kept-manifest", "IgnoreNoName: the unnamed manifest is present")
		}
	}

	// checksum verified on unpack (metamorphic)
	for i, it := range c.Items {
		if !it.IsDir || c.SkipUnpack {
			continue
		}
		bad := layers[i]
		bad.Annotations = map[string]string{}
		for k, v := range layers[i].Annotations {
			bad.Annotations[k] = v
		}
		bad.Annotations[file.AnnotationDigest] = digest.FromString("something else").String()
		store2 := memory.New()
		gz, _ := content.FetchAll(ctx, src, layers[i])
		store2.Push(ctx, bad, bytes.NewReader(gz))
		m2, err := oras.PackManifest(ctx, store2, oras.PackManifestVersion1_1, "application/vnd.verif.roundtrip", oras.PackManifestOptions{Layers: []ocispec.Descriptor{bad}})
		if err != nil {
			return res, vt.Failf("harness/pack2", "%v", err)
		}
		dst2, err := file.New(filepath.Join(root, "dst2"))
		if err != nil {
			return res, vt.Failf("harness/file-new", "%v", err)
		}
		cerr := oras.CopyGraph(ctx, store2, dst2, m2, oras.DefaultCopyGraphOptions)
		ok, _ := dst2.Exists(ctx, bad)
		dst2.Close()
		if cerr == nil {
			return res, vt.Failf("C12/uncompressed-digest-not-verified", "item %q: a layer whose recorded uncompressed digest is wrong was unpacked without error", it.Name)
		}
		if ok {
			return res, vt.Failf("C12/bad-layer-visible", "item %q: the copy failed (%v) but the layer exists in the destination", it.Name, cerr)
		}
		res.Classes = append(res.Classes, "checksum-metamorphic-checked")
		break
	}

	// reproducibility
	if c.Reproducible {
		alt := filepath.Join(root, "src2")
		for _, it := range c.Items {
			if err := materialise(alt, it, true, 12345); err != nil {
				return res, vt.Failf("harness/materialise", "%v", err)
			}
		}
		src2, err := file.New(alt)
		if err != nil {
			return res, vt.Failf("harness/file-new", "%v", err)
		}
		defer src2.Close()
		src2.TarReproducible = true
		for i, it := range c.Items {
			d2, err := src2.Add(ctx, it.Name, it.MT, "")
			if err != nil {
				return res, vt.Failf("C12/add-failed", "%v", err)
			}
			if d2.Digest != layers[i].Digest || d2.Size != layers[i].Size || d2.Annotations[file.AnnotationDigest] != layers[i].Annotations[file.AnnotationDigest] {
				return res, vt.Failf("C12/not-reproducible", "item %q: two trees equal in names, modes, link targets and contents but with different timestamps gave descriptors %s and %s", it.Name, layers[i].Digest, d2.Digest)
			}
		}
		res.Classes = append(res.Classes, "reproducibility-checked")
	}
	return res, nil
}

func hasChild(tree []FNode, dir string) bool {
	for _, n := range tree {
		if strings.HasPrefix(n.Path, dir+"/") {
			return true
		}
	}
	return false
}

func isASCII(s string) bool {
	for i := 0; i < len(s); i++ {
		if s[i] >= 0x80 {
			return false
		}
	}
	return true
}

func sameContentItems(items []Item) bool {
	for i := range items {
		if dupOfEarlier(items, i) {
			return true
		}
	}
	return false
}

func sameBytes(a, b Item) bool {
	return !a.IsDir && !b.IsDir && a.File.Size == b.File.Size && (a.File.Seed == b.File.Seed || a.File.Size == 0)
}

func hasTwin(items []Item, i int) bool {
	for j := range items {
		if j != i && sameBytes(items[i], items[j]) {
			return true
		}
	}
	return false
}

func twinRestored(items []Item, i int, dstDir string) bool {
	for j := range items {
		if j != i && sameBytes(items[i], items[j]) {
			if _, err := os.Lstat(filepath.Join(dstDir, filepath.FromSlash(items[j].Name))); err == nil {
				return true
			}
		}
	}
	return false
}

func dupOfEarlier(items []Item, i int) bool {
	if items[i].IsDir {
		return false
	}
	for j := 0; j < i; j++ {
		if !items[j].IsDir && items[j].File.Size == items[i].File.Size && (items[j].File.Seed == items[i].File.Seed || items[i].File.Size == 0) {
			return true
		}
	}
	return false
}

func TestMain(m *testing.M) {
	syscall.Umask(umask)
	vt.Main(m, "C12", vt.NewLeg("main", 400, 1500, 16, genCase, runCase))
}

func TestLegs(t *testing.T)   { vt.TestLegs(t) }
func TestReplay(t *testing.T) { vt.TestReplay(t) }

// lutimes sets the access and modification time of path itself, not of what a
// symbolic link at path points to (utimensat with AT_SYMLINK_NOFOLLOW).
func lutimes(path string, sec int64) error {
	p, err := syscall.BytePtrFromString(path)
	if err != nil {
		return err
	}
	ts := [2]syscall.Timespec{{Sec: sec}, {Sec: sec}}
	const atFdCwd, atSymlinkNoFollow = -100, 0x100
	fd := atFdCwd
	_, _, e := syscall.Syscall6(syscall.SYS_UTIMENSAT, uintptr(fd), uintptr(unsafe.Pointer(p)), uintptr(unsafe.Pointer(&ts[0])), atSymlinkNoFollow, 0, 0)
	if e != 0 {
		return e
	}
	return nil
}
