#!/usr/bin/env python3
"""seedsave.py <ID> <k> <pkgdir> <TestName> <detected-by> <needs...>  -- archive a confirmed seeded change under /verif/seeded/."""
import sys, os, shutil, json, glob
ID,k,pkg,tn,det=sys.argv[1:6]; needs=" ".join(sys.argv[6:])
src="/tmp/seed/%s-out"%ID
dst="/verif/seeded/%s-%s"%(ID,k)
os.makedirs(dst,exist_ok=True)
shutil.copy(src+"/patch%s.diff"%k,dst+"/patch.diff")
for f in glob.glob(src+"/demo%s*"%k):
    if os.path.isdir(f): shutil.copytree(f,dst+"/"+os.path.basename(f),dirs_exist_ok=True)
    else: shutil.copy(f,dst+"/"+os.path.basename(f).replace("_test.go","_test.go.txt"))
if os.path.exists(src+"/README%s.txt"%k): shutil.copy(src+"/README%s.txt"%k,dst+"/README.txt")
meta={"property":ID[:3],"round":(7 if ID.endswith("g") else 6 if ID.endswith("f") else 5 if ID.endswith("e") else 4 if ID.endswith("d") else 3 if ID.endswith("c") else 2 if ID.endswith("b") else 1),"seed":int(k),"origin":"independent sub-agent given only the property text and a scratch worktree",
 "needs_to_manifest":needs,
 "demo":{"package_dir":pkg,"test":tn,"file":"demo%s_test.go.txt (rename to *_test.go inside package_dir)"%k},
 "confirmed":"in scratch worktree /tmp/seed/%s via /verif/seedrun.sh: demo passes on the unchanged tree, fails with patch.diff applied; go build ./... and the existing tests of the touched packages and the root package pass with the patch"%ID,
 "detected_by":det,"base_commit":("9cca367 (the pinned commit plus the fix: commits up to it)" if ID[-1]=="g" else "4d73db3 (the pinned commit plus the fix: commits up to it)" if ID[-1]=="c" else "0f42d54 or 9cca367 (the pinned commit plus the fix: commits up to it)" if ID[-1]=="f" else "6a9ec4c (the pinned commit plus the fix: commits up to it)" if ID[-1]=="e" else "5e682fa (the pinned commit plus the fix: commits up to it)" if ID[-1]=="d" else "870eb69 (the pinned commit plus the fix: commits up to it)" if ID[-1]=="b" else "the /repo HEAD at the time of round 1 (before fix 870eb69)")}
json.dump(meta,open(dst+"/meta.json","w"),indent=1)
print("saved",dst)
