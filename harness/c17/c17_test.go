package c17

import (
	"bytes"
	"context"
	"errors"
	"fmt"
	"io"
	"math"
	"net"
	"net/http"
	"strconv"
	"strings"
	"sync"
	"testing"
	"time"

	"oras.land/oras-go/v2/registry/remote/auth"
	"oras.land/oras-go/v2/registry/remote/retry"
	"pgregory.net/rapid"

	"verif/harness/gen"
	"verif/harness/vt"
)

// ---------------------------------------------------------------------------------
// leg "policy": GenericPolicy + ExponentialBackoff as pure functions

type PolicyCase struct {
	Attempt    int     `json:"attempt"`
	BaseNs     int64   `json:"baseNs"`
	Factor     float64 `json:"factor"`
	Jitter     float64 `json:"jitter"`
	MinNs      int64   `json:"minNs"`
	MaxNs      int64   `json:"maxNs"`
	MaxRetry   int     `json:"maxRetry"`
	Status     int     `json:"status"`
	RetryAfter string  `json:"retryAfter,omitempty"`
	UseDefault bool    `json:"useDefaultBackoff,omitempty"`
}

func genPolicy(t *rapid.T) PolicyCase {
	c := PolicyCase{}
	c.Attempt = rapid.SampledFrom([]int{0, 1, 2, 3, 5, 10, 20, 34, 35, 36, 40, 62, 63, 64, 80}).Draw(t, "attempt")
	c.BaseNs = rapid.SampledFrom([]int64{0, 1, 1000, int64(time.Millisecond), int64(250 * time.Millisecond), int64(time.Second), int64(time.Hour)}).Draw(t, "base")
	c.Factor = rapid.SampledFrom([]float64{1, 1.5, 2, 4}).Draw(t, "factor")
	c.Jitter = rapid.SampledFrom([]float64{0, 0.000001, 0.1, 0.5, 0.999}).Draw(t, "jitter")
	c.MinNs = rapid.SampledFrom([]int64{0, 1, int64(time.Microsecond), int64(200 * time.Millisecond)}).Draw(t, "min")
	c.MaxNs = c.MinNs + rapid.SampledFrom([]int64{0, 1, int64(time.Millisecond), int64(3 * time.Second), int64(time.Hour)}).Draw(t, "maxDelta")
	c.MaxRetry = c.Attempt + rapid.IntRange(1, 3).Draw(t, "maxRetryDelta")
	c.Status = rapid.SampledFrom([]int{429, 429, 503, 500, 408, 504, 0}).Draw(t, "status")
	if rapid.Bool().Draw(t, "hasRetryAfter") {
		c.RetryAfter = rapid.SampledFrom([]string{"1", "0", "-3", "2", "3600", "9223372036854775807", "abc", "1.5", " 7"}).Draw(t, "retryAfter")
	}
	c.UseDefault = rapid.IntRange(0, 3).Draw(t, "useDefault") == 0
	return c
}

func runPolicy(c PolicyCase) (res vt.Result, fail *vt.Fail) {
	backoff := retry.ExponentialBackoff(time.Duration(c.BaseNs), c.Factor, c.Jitter)
	if c.UseDefault {
		backoff = retry.DefaultBackoff
	}
	p := &retry.GenericPolicy{Retryable: retry.DefaultPredicate, Backoff: backoff, MinWait: time.Duration(c.MinNs), MaxWait: time.Duration(c.MaxNs), MaxRetry: c.MaxRetry}
	resp := &http.Response{StatusCode: c.Status, Header: http.Header{}}
	if c.RetryAfter != "" {
		resp.Header.Set("Retry-After", c.RetryAfter)
	}
	var d time.Duration
	var err error
	var pv any
	func() {
		defer func() { pv = recover() }()
		d, err = p.Retry(c.Attempt, resp, nil)
	}()
	res.NonTrivial = true
	res.Classes = []string{fmt.Sprintf("status-%d", c.Status)}
	if pv != nil {
		key := "C17/policy-panics"
		return res, vt.Failf(key, "GenericPolicy.Retry(attempt=%d) with ExponentialBackoff(base=%v, factor=%v, jitter=%v) panicked: %v", c.Attempt, time.Duration(c.BaseNs), c.Factor, c.Jitter, pv)
	}
	if err != nil {
		return res, vt.Failf("C17/policy-error", "Retry returned error %v for a retryable status", err)
	}
	if d < 0 {
		return res, vt.Failf("C17/policy-gives-up-early", "Retry(attempt %d < MaxRetry %d, status %d) = %v", c.Attempt, c.MaxRetry, c.Status, d)
	}
	if d < p.MinWait || d > p.MaxWait {
		return res, vt.Failf("C17/pause-out-of-bounds", "pause %v outside [%v, %v] (attempt %d, base %v, factor %v, jitter %v)", d, p.MinWait, p.MaxWait, c.Attempt, time.Duration(c.BaseNs), c.Factor, c.Jitter)
	}
	if c.Status == 429 {
		if n, perr := strconv.ParseInt(c.RetryAfter, 10, 64); perr == nil && n > 0 && n < math.MaxInt64/int64(time.Second) {
			want := time.Duration(n) * time.Second
			if want < p.MinWait {
				want = p.MinWait
			}
			if want > p.MaxWait {
				want = p.MaxWait
			}
			if d != want {
				return res, vt.Failf("C17/retry-after-not-honoured", "429 with Retry-After %q: pause %v, expected %v (bounds [%v,%v])", c.RetryAfter, d, want, p.MinWait, p.MaxWait)
			}
			res.Classes = append(res.Classes, "retry-after-honoured")
		}
	}
	// beyond MaxRetry: no retry
	if d2, _ := p.Retry(c.MaxRetry, resp, nil); d2 >= 0 {
		return res, vt.Failf("C17/retries-beyond-maxretry", "Retry(attempt == MaxRetry %d) = %v, expected no retry", c.MaxRetry, d2)
	}
	// non-retryable answers
	for _, st := range []int{200, 201, 400, 401, 404} {
		if d3, _ := p.Retry(0, &http.Response{StatusCode: st, Header: http.Header{}}, nil); d3 >= 0 {
			return res, vt.Failf("C17/retries-non-retryable", "status %d is retried", st)
		}
	}
	return res, nil
}

// ---------------------------------------------------------------------------------
// leg "stack": auth client over retrying transport against a scripted server

type StackCase struct {
	Script   []string `json:"script"`   // behaviour per attempt, last one repeats
	Partial  []bool   `json:"partial"`  // server reads only half of the body before answering
	BodyKind string   `json:"bodyKind"` // none, nobody, replayable, custom-getbody, oneshot
	Size     int      `json:"size"`
	Unknown  bool     `json:"unknownLength,omitempty"`
	// Undeclared: ContentLength is left 0 with a non-nil Body, which is what
	// http.NewRequest produces for any reader it does not know (length unknown)
	Undeclared bool   `json:"undeclaredLength,omitempty"`
	MaxRetry   int    `json:"maxRetry"`
	Layer      string `json:"layer"` // auth+retry, retry, auth
	// Warm: an earlier request already cached a bearer token for the scope the
	// registry challenges with (so a 401 is first answered with the cached token,
	// and only then with a freshly fetched one: three sends)
	Warm bool `json:"warm,omitempty"`
	// Paced: the policy's pauses are milliseconds long, and the registry checks
	// that no attempt arrives earlier than the pause the policy asked for
	Paced bool `json:"paced,omitempty"`
}

// pacedPolicy remembers when the transport asked for the pause before the next
// attempt, and how long it was to be.
type pacedPolicy struct {
	retry.Policy
	mu   sync.Mutex
	at   time.Time
	wait time.Duration
}

func (p *pacedPolicy) Retry(attempt int, resp *http.Response, err error) (time.Duration, error) {
	d, rerr := p.Policy.Retry(attempt, resp, err)
	p.mu.Lock()
	p.at, p.wait = time.Now(), 0
	if rerr == nil && d > 0 {
		p.wait = d
	}
	p.mu.Unlock()
	return d, rerr
}

// early reports how much too early an attempt arrives now (0 = not early).
func (p *pacedPolicy) early() (time.Duration, time.Duration) {
	p.mu.Lock()
	defer p.mu.Unlock()
	if p.wait == 0 {
		return 0, 0
	}
	w, el := p.wait, time.Since(p.at)
	p.wait = 0
	if el < w {
		return w - el, w
	}
	return 0, w
}

// "temperr": a net.Error that is Temporary() but not Timeout() (e.g. a DNS SERVFAIL):
// the documented predicate does not retry it
var alphabet = []string{"401basic", "401bearer", "408", "429", "500", "502", "503", "504", "timeout", "dialtimeout", "neterr", "temperr", "200", "201", "404", "400"}

func genStack(t *rapid.T) StackCase {
	c := StackCase{}
	n := rapid.IntRange(1, 7).Draw(t, "n")
	for i := 0; i < n; i++ {
		c.Script = append(c.Script, rapid.SampledFrom(alphabet).Draw(t, "sym"))
		c.Partial = append(c.Partial, rapid.IntRange(0, 3).Draw(t, "partial") == 0)
	}
	c.Script = append(c.Script, "200")
	c.Partial = append(c.Partial, false)
	c.BodyKind = rapid.SampledFrom([]string{"none", "nobody", "replayable", "replayable", "custom-getbody", "closable-getbody", "getbody-fails", "oneshot", "oneshot"}).Draw(t, "bodyKind")
	c.Size = rapid.SampledFrom([]int{0, 1, 17, 4096, 70000, 262144}).Draw(t, "size")
	c.Unknown = rapid.IntRange(0, 3).Draw(t, "unknown") == 0
	c.Undeclared = !c.Unknown && rapid.IntRange(0, 3).Draw(t, "undeclared") == 0
	c.MaxRetry = rapid.IntRange(0, 6).Draw(t, "maxRetry")
	c.Layer = rapid.SampledFrom([]string{"auth+retry", "auth+retry", "retry", "auth"}).Draw(t, "layer")
	c.Paced = c.Layer != "auth" && rapid.IntRange(0, 15).Draw(t, "paced") == 7
	if c.Layer != "retry" && rapid.Bool().Draw(t, "warm") {
		c.Warm = true
		if rapid.Bool().Draw(t, "staleToken") {
			// the cached token has gone stale: 401 without token, 401 with the cached one
			c.Script[0] = "401bearer"
			if len(c.Script) > 2 {
				c.Script[1] = "401bearer"
			}
		}
	}
	return c
}

type timeoutErr struct{}

func (timeoutErr) Error() string   { return "verif: i/o timeout" }
func (timeoutErr) Timeout() bool   { return true }
func (timeoutErr) Temporary() bool { return true }

// closable is a body that, like a file, cannot be read after Close.
type closable struct {
	r      io.Reader
	closed bool
}

func (c *closable) Read(p []byte) (int, error) {
	if c.closed {
		return 0, errors.New("verif: read of closed body")
	}
	return c.r.Read(p)
}
func (c *closable) Close() error { c.closed = true; return nil }

// respBody is a response body that cannot be read once it was closed (what a real
// connection does); the response a call returns must still be readable.
type respBody struct {
	mu     sync.Mutex
	r      *strings.Reader
	closed bool
}

func (b *respBody) Read(p []byte) (int, error) {
	b.mu.Lock()
	defer b.mu.Unlock()
	if b.closed {
		return 0, errors.New("verif: read on closed response body")
	}
	return b.r.Read(p)
}
func (b *respBody) Close() error { b.mu.Lock(); b.closed = true; b.mu.Unlock(); return nil }

type tempErr struct{}

func (tempErr) Error() string   { return "verif: temporary failure in name resolution" }
func (tempErr) Timeout() bool   { return false }
func (tempErr) Temporary() bool { return true }

type attempt struct {
	send    int
	body    []byte
	full    bool // the server read the whole body
	length  int64
	hadBody bool
	auth    string
	path    string
}

type server struct {
	mu       sync.Mutex
	script   []string
	partial  []bool
	attempts []attempt
	onAnswer func(i int, sym string)
	paced    *pacedPolicy
	tooEarly string
	warm     bool // warm-up phase: challenge anonymous requests, accept the rest, record nothing
}

type sendKey struct{}

func (s *server) RoundTrip(req *http.Request) (*http.Response, error) {
	if req.URL.Path == "/token" {
		return &http.Response{StatusCode: 200, Status: "200 OK", Proto: "HTTP/1.1", ProtoMajor: 1, ProtoMinor: 1, Header: http.Header{"Content-Type": []string{"application/json"}},
			Body: io.NopCloser(strings.NewReader(`{"token":"tok"}`)), ContentLength: 15, Request: req}, nil
	}
	s.mu.Lock()
	if s.paced != nil && !s.warm {
		if short, want := s.paced.early(); short > 0 && s.tooEarly == "" {
			s.tooEarly = fmt.Sprintf("attempt %d arrived %v before the end of the %v pause the policy had asked for", len(s.attempts), short, want)
		}
	}
	if s.warm {
		s.mu.Unlock()
		h, st := http.Header{}, 200
		if req.Header.Get("Authorization") == "" {
			st = 401
			h.Set("Www-Authenticate", `Bearer realm="https://srv.test/token",service="srv.test",scope="repository:a:pull"`)
		}
		return &http.Response{StatusCode: st, Status: fmt.Sprintf("%d %s", st, http.StatusText(st)), Proto: "HTTP/1.1", ProtoMajor: 1, ProtoMinor: 1,
			Header: h, Body: io.NopCloser(strings.NewReader("{}")), ContentLength: 2, Request: req}, nil
	}
	i := len(s.attempts)
	sym := s.script[len(s.script)-1]
	part := false
	if i < len(s.script) {
		sym, part = s.script[i], s.partial[i]
	}
	s.mu.Unlock()
	at := attempt{length: req.ContentLength, auth: req.Header.Get("Authorization"), path: req.URL.Path}
	at.send, _ = req.Context().Value(sendKey{}).(int)
	if req.Body != nil && req.Body != http.NoBody {
		at.hadBody = true
		if part {
			buf := make([]byte, 8)
			n, _ := io.ReadFull(req.Body, buf)
			at.body = buf[:n]
		} else {
			b, _ := io.ReadAll(req.Body)
			at.body, at.full = b, true
		}
		req.Body.Close()
	} else {
		at.full = true
	}
	s.mu.Lock()
	s.attempts = append(s.attempts, at)
	cb := s.onAnswer
	s.mu.Unlock()
	if cb != nil {
		cb(i, sym)
	}
	mk := func(status int, h http.Header) (*http.Response, error) {
		if h == nil {
			h = http.Header{}
		}
		return &http.Response{StatusCode: status, Status: fmt.Sprintf("%d %s", status, http.StatusText(status)), Proto: "HTTP/1.1", ProtoMajor: 1, ProtoMinor: 1,
			Header: h, Body: &respBody{r: strings.NewReader("{}")}, ContentLength: 2, Request: req}, nil
	}
	switch sym {
	case "401basic":
		return mk(401, http.Header{"Www-Authenticate": []string{`Basic realm="x"`}})
	case "401bearer":
		return mk(401, http.Header{"Www-Authenticate": []string{`Bearer realm="https://srv.test/token",service="srv.test",scope="repository:a:pull"`}})
	case "timeout":
		return nil, timeoutErr{}
	case "neterr":
		return nil, errors.New("verif: connection reset")
	case "temperr":
		return nil, tempErr{}
	case "dialtimeout":
		return nil, &net.OpError{Op: "dial", Net: "tcp", Err: timeoutErr{}}
	case "429":
		return mk(429, http.Header{"Retry-After": []string{"0"}})
	}
	st, _ := strconv.Atoi(sym)
	return mk(st, nil)
}

type sendMarker struct {
	base http.RoundTripper
	mu   sync.Mutex
	n    int
}

func (m *sendMarker) RoundTrip(req *http.Request) (*http.Response, error) {
	m.mu.Lock()
	m.n++
	id := m.n
	m.mu.Unlock()
	return m.base.RoundTrip(req.WithContext(context.WithValue(req.Context(), sendKey{}, id)))
}

type oneShot struct{ r io.Reader }

func (o *oneShot) Read(p []byte) (int, error) { return o.r.Read(p) }

func retryable(sym string) bool {
	switch sym {
	case "408", "429", "500", "502", "503", "504", "timeout", "dialtimeout":
		return true
	}
	return false
}

func runStack(c StackCase) (res vt.Result, fail *vt.Fail) {
	fin, dump := vt.Watch(30*time.Second, func() { res, fail = runStackInner(c) })
	if !fin {
		vt.ReportHang("stack", vt.MustJSON(c), vt.Failf("C17/hang", "request did not return"), dump)
	}
	return res, fail
}

func runStackInner(c StackCase) (res vt.Result, fail *vt.Fail) {
	srv := &server{script: c.Script, partial: c.Partial}
	policy := &retry.GenericPolicy{Retryable: retry.DefaultPredicate, Backoff: func(int, *http.Response) time.Duration { return time.Microsecond }, MinWait: time.Microsecond, MaxWait: 50 * time.Microsecond, MaxRetry: c.MaxRetry}
	var tr http.RoundTripper = srv
	if c.Layer != "auth" {
		rt := retry.NewTransport(srv)
		rt.Policy = func() retry.Policy { return policy }
		if c.Paced {
			policy.Backoff = func(int, *http.Response) time.Duration { return 1500 * time.Microsecond }
			policy.MinWait, policy.MaxWait = time.Millisecond, 2*time.Millisecond
			pp := &pacedPolicy{Policy: policy}
			srv.paced = pp
			rt.Policy = func() retry.Policy { return pp }
		}
		tr = rt
	}
	marker := &sendMarker{base: tr}
	hc := &http.Client{Transport: marker}
	var do func(*http.Request) (*http.Response, error) = hc.Do
	if c.Layer != "retry" {
		ac := &auth.Client{Client: hc, Cache: auth.NewCache(), Credential: auth.StaticCredential("srv.test", auth.Credential{Username: "u", Password: "p"})}
		do = ac.Do
		if c.Warm {
			srv.warm = true
			wreq, _ := http.NewRequest(http.MethodGet, "https://srv.test/v2/a/tags/list", nil)
			wresp, werr := ac.Do(wreq)
			if werr != nil || wresp.StatusCode != 200 {
				return res, vt.Failf("harness/warm-up", "warm-up request: %v %v", wresp, werr)
			}
			wresp.Body.Close()
			srv.mu.Lock()
			srv.warm = false
			srv.mu.Unlock()
			marker.mu.Lock()
			marker.n = 0
			marker.mu.Unlock()
		}
	}
	payload := gen.BlobBytes(3, c.Size)
	var body io.Reader
	switch c.BodyKind {
	case "nobody":
		body = http.NoBody
	case "replayable":
		body = bytes.NewReader(payload)
	case "custom-getbody", "oneshot", "getbody-fails":
		body = &oneShot{bytes.NewReader(payload)}
	case "closable-getbody":
		body = &closable{r: bytes.NewReader(payload)}
	}
	req, err := http.NewRequest(http.MethodPut, "https://srv.test/v2/a/blobs/uploads/x?digest=sha256:00", body)
	if err != nil {
		return res, vt.Failf("harness/newrequest", "%v", err)
	}
	hasBody := c.BodyKind == "replayable" || c.BodyKind == "custom-getbody" || c.BodyKind == "oneshot" || c.BodyKind == "getbody-fails" || c.BodyKind == "closable-getbody"
	if c.BodyKind == "closable-getbody" {
		// like an *os.File: unreadable once closed, GetBody opens it again
		req.GetBody = func() (io.ReadCloser, error) { return &closable{r: bytes.NewReader(payload)}, nil }
		req.ContentLength = int64(len(payload))
	}
	if c.BodyKind == "getbody-fails" {
		// nominally replayable, but the body cannot be produced again (a spool file
		// that is gone): like a one-shot body, it must never be re-sent truncated
		req.GetBody = func() (io.ReadCloser, error) { return nil, errors.New("verif: body cannot be reopened") }
		req.ContentLength = int64(len(payload))
	}
	if c.BodyKind == "custom-getbody" {
		req.GetBody = func() (io.ReadCloser, error) { return io.NopCloser(bytes.NewReader(payload)), nil }
		req.ContentLength = int64(len(payload))
	}
	if c.BodyKind == "oneshot" {
		req.ContentLength = int64(len(payload))
	}
	if c.Unknown && hasBody && c.BodyKind != "replayable" {
		req.ContentLength = -1
	}
	if c.Undeclared && hasBody && c.BodyKind != "replayable" {
		req.ContentLength = 0
	}
	resp, derr := do(req)
	var unusable string
	if resp != nil {
		if derr == nil {
			// "the call stops with the last response": a response that is handed back is
			// one the caller can still read
			if b, rerr := io.ReadAll(resp.Body); rerr != nil || string(b) != "{}" {
				unusable = fmt.Sprintf("the returned response (status %d) cannot be read: body %q, err %v (script %v, body kind %s, layer %s)", resp.StatusCode, b, rerr, c.Script, c.BodyKind, c.Layer)
			}
		}
		resp.Body.Close()
	}
	if unusable != "" {
		return res, vt.Failf("C17/returned-response-unusable", "%s", unusable)
	}
	srv.mu.Lock()
	atts := append([]attempt(nil), srv.attempts...)
	tooEarly := srv.tooEarly
	srv.mu.Unlock()
	if tooEarly != "" {
		return res, vt.Failf("C17/attempt-before-end-of-pause", "%s (script %v)", tooEarly, c.Script)
	}
	res.NonTrivial = len(atts) >= 2 && hasBody && c.Size > 0
	res.Classes = []string{"layer-" + c.Layer, "body-" + c.BodyKind}
	if c.Warm {
		res.Classes = append(res.Classes, "token-cached-by-an-earlier-request")
	}
	if len(atts) >= 2 {
		res.Classes = append(res.Classes, "re-sent")
	}
	// 1. whole body on every attempt
	withBody := 0
	for i, at := range atts {
		if !hasBody || c.Size == 0 {
			if len(at.body) > 0 {
				return res, vt.Failf("C17/unexpected-body", "attempt %d carried %d body bytes for a request without body", i, len(at.body))
			}
			continue
		}
		if at.hadBody {
			withBody++
		}
		if at.full {
			if !bytes.Equal(at.body, payload) {
				return res, vt.Failf("C17/resent-body-incomplete", "attempt %d (send %d, after %s) carried %d of %d body bytes (body kind %s, layer %s)", i, at.send, prevSym(c, i), len(at.body), len(payload), c.BodyKind, c.Layer)
			}
		} else if !bytes.HasPrefix(payload, at.body) {
			return res, vt.Failf("C17/resent-body-wrong", "attempt %d: the bytes the server read are not a prefix of the original body", i)
		}
		if at.length >= 0 && at.length != int64(len(payload)) && !(at.length == 0 && c.Undeclared && c.BodyKind != "replayable") {
			return res, vt.Failf("C17/content-length-wrong", "attempt %d declared Content-Length %d for a %d byte body", i, at.length, len(payload))
		}
	}
	if (c.BodyKind == "oneshot" || c.BodyKind == "getbody-fails") && c.Size > 0 && withBody > 1 {
		return res, vt.Failf("C17/oneshot-body-resent", "a body that cannot be replayed was sent on %d attempts", withBody)
	}
	// 2. bounded: attempts per send <= MaxRetry+1
	perSend := map[int]int{}
	for _, at := range atts {
		perSend[at.send]++
	}
	for s, n := range perSend {
		limit := c.MaxRetry + 1
		if c.Layer == "auth" {
			limit = 1
		}
		if n > limit {
			return res, vt.Failf("C17/too-many-attempts", "send %d was attempted %d times, MaxRetry=%d", s, n, c.MaxRetry)
		}
	}
	if len(perSend) == 3 && hasBody && c.Size > 0 {
		res.Classes = append(res.Classes, "three-sends-with-a-body")
	}
	if len(perSend) > 3 {
		return res, vt.Failf("C17/too-many-sends", "%d sends for one Do", len(perSend))
	}
	// 3. a non-retryable answer ends its send at once
	for i := 0; i+1 < len(atts); i++ {
		sym := c.Script[min(i, len(c.Script)-1)]
		if atts[i].send == atts[i+1].send && !retryable(sym) {
			return res, vt.Failf("C17/non-retryable-retried", "attempt %d answered %s (not retryable) and the same send was attempted again", i, sym)
		}
	}
	_ = derr
	return res, nil
}

func prevSym(c StackCase, i int) string {
	if i == 0 {
		return "start"
	}
	return c.Script[min(i-1, len(c.Script)-1)]
}

// ---------------------------------------------------------------------------------
// leg "cancel": cancelling during a pause ends the call with the context's error

type CancelCase struct {
	After int    `json:"after"` // cancel once this (0-based) attempt has been answered
	Sym   string `json:"sym"`
}

func genCancel(t *rapid.T) CancelCase {
	return CancelCase{After: rapid.IntRange(0, 3).Draw(t, "after"), Sym: rapid.SampledFrom([]string{"503", "429", "timeout", "500", "408"}).Draw(t, "sym")}
}

func runCancel(c CancelCase) (res vt.Result, fail *vt.Fail) {
	fin, dump := vt.Watch(20*time.Second, func() { res, fail = runCancelInner(c) })
	if !fin {
		vt.ReportHang("cancel", vt.MustJSON(c), vt.Failf("C17/cancel-ignored", "the call did not return after its context was cancelled during a 30 s pause"), dump)
	}
	return res, fail
}

func runCancelInner(c CancelCase) (res vt.Result, fail *vt.Fail) {
	ctx, cancel := context.WithCancel(context.Background())
	defer cancel()
	script := make([]string, 0, 8)
	for i := 0; i < 8; i++ {
		script = append(script, c.Sym)
	}
	srv := &server{script: script, partial: make([]bool, 8)}
	srv.onAnswer = func(i int, sym string) {
		if i == c.After {
			cancel()
		}
	}
	wait := 30 * time.Second
	calls := 0
	policy := &retry.GenericPolicy{Retryable: retry.DefaultPredicate, Backoff: retry.DefaultBackoff, MinWait: wait, MaxWait: wait, MaxRetry: 6}
	fast := &retry.GenericPolicy{Retryable: retry.DefaultPredicate, Backoff: retry.DefaultBackoff, MinWait: time.Microsecond, MaxWait: time.Microsecond, MaxRetry: 6}
	rt := retry.NewTransport(srv)
	rt.Policy = func() retry.Policy {
		return policyFunc(func(attempt int, resp *http.Response, err error) (time.Duration, error) {
			calls++
			if attempt < c.After {
				return fast.Retry(attempt, resp, err)
			}
			return policy.Retry(attempt, resp, err)
		})
	}
	req, _ := http.NewRequestWithContext(ctx, http.MethodGet, "https://srv.test/v2/", nil)
	start := time.Now()
	resp, err := (&http.Client{Transport: rt}).Do(req)
	if resp != nil {
		resp.Body.Close()
	}
	res.NonTrivial = true
	if time.Since(start) > 10*time.Second {
		return res, vt.Failf("C17/cancel-ignored", "the call took %v although its context was cancelled during the pause", time.Since(start))
	}
	if err == nil || !errors.Is(err, context.Canceled) {
		return res, vt.Failf("C17/cancel-wrong-error", "cancelled during the pause after attempt %d: err = %v", c.After, err)
	}
	srv.mu.Lock()
	n := len(srv.attempts)
	srv.mu.Unlock()
	if n != c.After+1 {
		return res, vt.Failf("C17/attempt-after-cancel", "%d attempts reached the server; the context was cancelled after attempt %d", n, c.After)
	}
	return res, nil
}

type policyFunc func(attempt int, resp *http.Response, err error) (time.Duration, error)

func (f policyFunc) Retry(attempt int, resp *http.Response, err error) (time.Duration, error) {
	return f(attempt, resp, err)
}

func TestMain(m *testing.M) {
	vt.Main(m, "C17",
		vt.NewLeg("policy", 6000, 20000, 4, genPolicy, runPolicy),
		vt.NewLeg("stack", 2500, 8000, 8, genStack, runStack),
		vt.NewLeg("cancel", 60, 200, 2, genCancel, runCancel),
		vt.NewLeg("repo", 1500, 5000, 4, genRepo, runRepo),
	)
}

func TestLegs(t *testing.T)   { vt.TestLegs(t) }
func TestReplay(t *testing.T) { vt.TestReplay(t) }
