#!/bin/sh
# Offline warm build of the harness against /repo's working tree.
set -e
cd "$(dirname "$0")/harness"
export GOFLAGS=-mod=mod GOPROXY=off GOSUMDB=off GOTOOLCHAIN=local
[ -f go.sum ] || cp /repo/go.sum go.sum
mkdir -p ../.scratch ../replays ../evidence
go build ./... 
go vet ./... >/dev/null 2>&1 || true
go test -count=1 -run '^$' ./... >/dev/null
echo setup ok
