package c13

import "github.com/opencontainers/go-digest"

func digestOf(b []byte) digest.Digest { return digest.FromBytes(b) }
