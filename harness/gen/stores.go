package gen

import (
	"bytes"
	"context"
	"fmt"
	"io"
	"sort"

	ocispec "github.com/opencontainers/image-spec/specs-go/v1"
	"oras.land/oras-go/v2/content"
)

// PushDesc is the descriptor a node is pushed with: the plain triple plus the title
// annotation when the node has a file-store name.
func (n *Node) PushDesc() ocispec.Descriptor {
	d := n.Desc
	if n.Spec.Title != "" {
		d.Annotations = map[string]string{ocispec.AnnotationTitle: n.Spec.Title}
	}
	return d
}

// PushNode pushes one node.
func PushNode(ctx context.Context, p content.Pusher, n *Node) error {
	return p.Push(ctx, n.PushDesc(), bytes.NewReader(n.Bytes))
}

// ChildrenFirst returns the canonical ids of set in an order where every node comes
// after its successors.
func (d *DAG) ChildrenFirst(set map[int]bool) []int {
	ids := SortedKeys(set)
	sort.Ints(ids) // ids are topologically ordered by construction
	return ids
}

// ReadBack reads a node through Fetch without oras-go's verifying helpers.
func ReadBack(ctx context.Context, f content.Fetcher, desc ocispec.Descriptor) ([]byte, error) {
	rc, err := f.Fetch(ctx, desc)
	if err != nil {
		return nil, err
	}
	defer rc.Close()
	return io.ReadAll(rc)
}

// TripleSetString renders a multiset of descriptors for messages.
func TripleSetString(ds []ocispec.Descriptor) string {
	var s []string
	for _, d := range ds {
		s = append(s, fmt.Sprintf("%s@%.19s/%d", shortMT(d.MediaType), d.Digest, d.Size))
	}
	sort.Strings(s)
	return fmt.Sprint(s)
}

func shortMT(mt string) string {
	if len(mt) > 28 {
		return "…" + mt[len(mt)-27:]
	}
	return mt
}
