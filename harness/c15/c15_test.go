package c15

import (
	"bytes"
	"context"
	"errors"
	"fmt"
	"io"
	"net/http"
	"net/url"
	"os"
	"path/filepath"
	"sort"
	"strings"
	"testing"

	ocispec "github.com/opencontainers/image-spec/specs-go/v1"
	"oras.land/oras-go/v2/content/oci"
	"oras.land/oras-go/v2/errdef"
	"oras.land/oras-go/v2/registry/remote"
	"pgregory.net/rapid"

	"verif/harness/fsx"
	"verif/harness/gen"
	"verif/harness/regmodel"
	"verif/harness/vt"
)

const host = "list.test"
const repoName = "ns/repo"

// Case is one listing scenario.
type Case struct {
	Kind       string `json:"kind"` // tags, catalog, referrers, oci-tags
	Items      int    `json:"items"`
	PageCap    int    `json:"pageCap,omitempty"`
	ClientN    int    `json:"clientN,omitempty"`
	LastMode   int    `json:"lastMode"` // 0 "", 1 an element, 2 between elements, 3 beyond the end
	LastIdx    int    `json:"lastIdx,omitempty"`
	LinkStyle  int    `json:"linkStyle"`
	EmptyLast  bool   `json:"emptyLastPage,omitempty"`
	OmitEmpty  bool   `json:"omitEmptyList,omitempty"` // the empty last page leaves the list member out
	FilterReq  bool   `json:"filterRequested,omitempty"`
	FilterMode int    `json:"filterMode,omitempty"`
	MaxMeta    int    `json:"maxMeta,omitempty"`  // 0 = default
	PadDelta   int    `json:"padDelta,omitempty"` // document length relative to MaxMeta (when MaxMeta > 0)
	FailAt     int    `json:"failAt,omitempty"`   // callback fails at this (1-based) invocation; 0 = never
	PlainHTTP  bool   `json:"plainHTTP,omitempty"`
	View       string `json:"view,omitempty"`    // oci-tags: live, fs, tar
	Chunked    bool   `json:"chunked,omitempty"` // listing documents without Content-Length
	// TagSchema (referrers): the client is told the registry has no Referrers API,
	// the referrers are listed by the index tagged sha256-<hex of the subject>
	TagSchema bool `json:"tagSchema,omitempty"`
	// FailWrapsNotFound: the callback's failure wraps errdef.ErrNotFound (e.g. a
	// callback that fetches a listed item that is gone)
	FailWrapsNotFound bool `json:"failWrapsNotFound,omitempty"`
	// Via: the registry answers the first listing request with a redirect to another
	// host, which serves (and paginates) the listing; a relative next link is
	// relative to that host
	Via bool `json:"via,omitempty"`
	// Trail: every listing document is followed by a few KiB of white space (legal
	// after a JSON value); the document itself is what has to fit the limit, and
	// nothing beyond the limit may be read
	Trail bool `json:"trail,omitempty"`
}

var errCallback = errors.New("verif: callback failure")

func genCase(t *rapid.T) Case {
	c := Case{Kind: rapid.SampledFrom([]string{"tags", "tags", "catalog", "referrers", "referrers", "oci-tags"}).Draw(t, "kind")}
	c.Items = rapid.IntRange(0, 40).Draw(t, "items")
	if c.Kind == "referrers" {
		c.Items = rapid.IntRange(0, 14).Draw(t, "refItems")
	}
	c.PageCap = rapid.SampledFrom([]int{0, 0, 1, 2, 3, 7, c.Items, c.Items + 1}).Draw(t, "pageCap")
	c.ClientN = rapid.SampledFrom([]int{0, 0, 1, 2, 5, c.Items}).Draw(t, "clientN")
	c.LastMode = rapid.IntRange(0, 3).Draw(t, "lastMode")
	c.LastIdx = rapid.IntRange(0, 40).Draw(t, "lastIdx")
	c.LinkStyle = rapid.IntRange(0, 5).Draw(t, "linkStyle")
	c.EmptyLast = rapid.IntRange(0, 3).Draw(t, "emptyLast") == 0
	c.OmitEmpty = c.EmptyLast && rapid.Bool().Draw(t, "omitEmpty")
	c.PlainHTTP = rapid.Bool().Draw(t, "plainHTTP")
	c.Chunked = rapid.IntRange(0, 2).Draw(t, "chunked") == 0
	if c.Kind == "referrers" {
		c.FilterReq = rapid.Bool().Draw(t, "filterReq")
		c.FilterMode = rapid.IntRange(0, 2).Draw(t, "filterMode")
		c.LastMode = 0
	}
	if c.Kind != "oci-tags" && rapid.IntRange(0, 2).Draw(t, "limitMode") == 0 {
		c.MaxMeta = rapid.IntRange(300, 900).Draw(t, "maxMeta")
		c.PadDelta = rapid.SampledFrom([]int{-40, -1, 0, 1, 2, 300}).Draw(t, "padDelta")
	}
	if rapid.IntRange(0, 4).Draw(t, "failMode") == 0 {
		c.FailAt = rapid.IntRange(1, 4).Draw(t, "failAt")
		c.FailWrapsNotFound = rapid.Bool().Draw(t, "failWrapsNotFound")
	}
	if c.Kind == "referrers" && rapid.IntRange(0, 3).Draw(t, "tagSchema") == 0 {
		c.TagSchema = true
		if c.FailAt > 1 {
			c.FailAt = 1 // one callback at most
		}
	}
	if c.Kind == "oci-tags" {
		c.View = rapid.SampledFrom([]string{"live", "fs", "tar"}).Draw(t, "view")
	} else if !c.TagSchema {
		c.Via = rapid.IntRange(0, 3).Draw(t, "via") == 2
		c.Trail = rapid.IntRange(0, 3).Draw(t, "trail") == 1
	}
	return c
}

func itemName(i int) string { return fmt.Sprintf("t%03d", i*2) }

type referrer struct {
	digest string
	at     string
}

func runCase(c Case) (res vt.Result, fail *vt.Fail) {
	ctx := context.Background()
	var items []string
	for i := 0; i < c.Items; i++ {
		items = append(items, itemName(i))
	}
	last := ""
	switch c.LastMode {
	case 1:
		if len(items) > 0 {
			last = items[c.LastIdx%len(items)]
		}
	case 2:
		last = fmt.Sprintf("t%03d", (c.LastIdx%(c.Items+1))*2+1)
	case 3:
		last = "zzz"
	}
	res.Classes = []string{"kind-" + c.Kind, fmt.Sprintf("link-style-%d", c.LinkStyle)}
	if c.Kind == "oci-tags" {
		return runOCITags(ctx, c, items, last, res)
	}
	reg := regmodel.New(host, regmodel.Profile{NoDigestHeader: c.TagSchema && c.Items%2 == 1, ReferrersAPI: true, PageCap: c.PageCap, LinkStyle: c.LinkStyle, EmptyLastPage: c.EmptyLast, OmitEmptyList: c.OmitEmpty, FilterMode: c.FilterMode, ChunkedLists: c.Chunked})
	if c.PlainHTTP {
		reg.Scheme = "http"
	}
	limit := int64(4 * 1024 * 1024)
	if c.MaxMeta > 0 {
		limit = int64(c.MaxMeta)
		reg.PadJSON = c.MaxMeta + c.PadDelta
	}
	rp := reg.Repo(repoName)
	// a listing that keeps asking for pages is cut off (and then judged as failed)
	nreq := 0
	reg.Pre = func(req *http.Request, rec *regmodel.ReqRecord) (*http.Response, error) {
		nreq++
		if nreq > 200 {
			return nil, fmt.Errorf("verif: more than 200 page requests for %d items: the listing does not terminate", c.Items)
		}
		if c.Via && req.URL.Host == host && req.Method == http.MethodGet {
			loc := *req.URL
			loc.Host = "mirror.test"
			return regmodel.Response(req, 307, http.Header{"Location": []string{loc.String()}}, nil, false, rec.BodyRead), nil
		}
		return nil, nil
	}
	docLens := map[*regmodel.ReqRecord]int64{}
	if c.Trail {
		reg.Post = func(req *http.Request, resp *http.Response) *http.Response {
			if resp == nil || resp.StatusCode != 200 || req.Method != http.MethodGet || strings.Contains(req.URL.Path, "/manifests/") || strings.Contains(req.URL.Path, "/blobs/") {
				return resp
			}
			doc, _ := io.ReadAll(resp.Body)
			resp.Body.Close()
			rec := reg.Log[len(reg.Log)-1]
			*rec.BodyRead = 0
			docLens[rec] = int64(len(doc))
			h := resp.Header.Clone()
			h.Del("Content-Length")
			return regmodel.Response(req, 200, h, append(doc, bytes.Repeat([]byte(" \n"), 3000)...), true, rec.BodyRead)
		}
	}
	client := &http.Client{Transport: reg}
	var expected []string
	var got []string
	// the callback keeps the page slices it is handed and reads them only after the
	// listing has returned (a caller is free to do that)
	var kept [][]string
	calls := 0
	cb := func(page []string) error {
		calls++
		if c.FailAt > 0 && calls == c.FailAt {
			if c.FailWrapsNotFound {
				return fmt.Errorf("%w: item is gone: %w", errCallback, errdef.ErrNotFound)
			}
			return errCallback
		}
		kept = append(kept, page)
		return nil
	}
	flatten := func() {
		got = nil
		for _, p := range kept {
			got = append(got, p...)
		}
	}
	var err error
	var subjectDigest string
	switch c.Kind {
	case "tags":
		man := []byte(`{"schemaVersion":2,"mediaType":"application/vnd.oci.image.manifest.v1+json","config":{"mediaType":"application/vnd.oci.empty.v1+json","digest":"sha256:44136fa355b3678a1146ad16f7e8649e94fb4fc21fe77e8310c060f61caaff8a","size":2},"layers":[]}`)
		dg := regmodel.DigestOf("sha256", man)
		rp.Manifests[dg] = &regmodel.Manifest{Bytes: man, MediaType: gen.MTImage}
		for _, it := range items {
			rp.Tags[it] = dg
		}
		for _, it := range items {
			if last == "" || it > last {
				expected = append(expected, it)
			}
		}
		repo, _ := remote.NewRepository(host + "/" + repoName)
		repo.Client, repo.PlainHTTP, repo.TagListPageSize, repo.MaxMetadataBytes = client, c.PlainHTTP, c.ClientN, int64(c.MaxMeta)
		err = repo.Tags(ctx, last, cb)
	case "catalog":
		delete(reg.Repos, repoName)
		reg.Catalog = items
		for _, it := range items {
			if last == "" || it > last {
				expected = append(expected, it)
			}
		}
		r, _ := remote.NewRegistry(host)
		r.Client, r.PlainHTTP, r.RepositoryListPageSize, r.MaxMetadataBytes = client, c.PlainHTTP, c.ClientN, int64(c.MaxMeta)
		err = r.Repositories(ctx, last, cb)
	case "referrers":
		subj := []byte(`{"schemaVersion":2,"mediaType":"application/vnd.oci.image.manifest.v1+json","config":{"mediaType":"application/vnd.oci.empty.v1+json","digest":"sha256:44136fa355b3678a1146ad16f7e8649e94fb4fc21fe77e8310c060f61caaff8a","size":2},"layers":[],"annotations":{"s":"1"}}`)
		subjectDigest = regmodel.DigestOf("sha256", subj)
		rp.Manifests[subjectDigest] = &regmodel.Manifest{Bytes: subj, MediaType: gen.MTImage}
		var refs []referrer
		for i := 0; i < c.Items; i++ {
			at := []string{"application/vnd.a+json", "application/vnd.b"}[i%2]
			b := []byte(fmt.Sprintf(`{"schemaVersion":2,"mediaType":"application/vnd.oci.image.manifest.v1+json","artifactType":%q,"config":{"mediaType":"application/vnd.oci.empty.v1+json","digest":"sha256:44136fa355b3678a1146ad16f7e8649e94fb4fc21fe77e8310c060f61caaff8a","size":2},"layers":[],"subject":{"mediaType":"application/vnd.oci.image.manifest.v1+json","digest":%q,"size":%d},"annotations":{"i":"%d"}}`, at, subjectDigest, len(subj), i))
			dg := regmodel.DigestOf("sha256", b)
			rp.Manifests[dg] = &regmodel.Manifest{Bytes: b, MediaType: gen.MTImage}
			refs = append(refs, referrer{dg, at})
		}
		sort.Slice(refs, func(i, j int) bool { return refs[i].digest < refs[j].digest })
		filter := ""
		if c.FilterReq {
			filter = "application/vnd.a+json"
		}
		for _, r := range refs {
			if filter == "" || r.at == filter {
				expected = append(expected, r.digest)
			}
		}
		repo, _ := remote.NewRepository(host + "/" + repoName)
		repo.Client, repo.PlainHTTP, repo.ReferrerListPageSize, repo.MaxMetadataBytes = client, c.PlainHTTP, c.ClientN, int64(c.MaxMeta)
		repo.SetReferrersCapability(!c.TagSchema)
		if c.TagSchema {
			res.Classes = append(res.Classes, "referrers-by-tag-schema")
			var entries []string
			for _, r := range refs {
				entries = append(entries, fmt.Sprintf(`{"mediaType":%q,"digest":%q,"size":%d,"artifactType":%q}`, gen.MTImage, r.digest, len(rp.Manifests[r.digest].Bytes), r.at))
			}
			idx := []byte(`{"schemaVersion":2,"mediaType":"application/vnd.oci.image.index.v1+json","manifests":[` + strings.Join(entries, ",") + `]}`)
			if len(refs) > 0 || c.Items%2 == 0 {
				// (with no referrers the index may or may not exist)
				idg := regmodel.DigestOf("sha256", idx)
				rp.Manifests[idg] = &regmodel.Manifest{Bytes: idx, MediaType: "application/vnd.oci.image.index.v1+json"}
				rp.Tags[strings.Replace(subjectDigest, ":", "-", 1)] = idg
			}
		}
		err = repo.Referrers(ctx, ocispec.Descriptor{MediaType: gen.MTImage, Digest: digestOfString(subjectDigest), Size: int64(len(subj))}, filter, func(rs []ocispec.Descriptor) error {
			var page []string
			for _, r := range rs {
				page = append(page, r.Digest.String())
			}
			return cb(page)
		})
	}
	flatten()
	// analysis of the exchange
	reg.Lock()
	log := append([]*regmodel.ReqRecord(nil), reg.Log...)
	viol := append([]string(nil), reg.Violations...)
	reg.Unlock()
	if len(viol) > 0 {
		return res, vt.Failf("C15/request-not-spec-conformant", "%v", viol)
	}
	if c.Via {
		// only the very first request goes to the host the caller named: every next
		// link is relative to (or names) the host that served the page
		res.Classes = append(res.Classes, "listing-served-by-a-redirect-target")
		var served []*regmodel.ReqRecord
		for i, rec := range log {
			if rec.Host == host && i > 0 {
				return res, vt.Failf("C15/next-page-url", "request %d (%s) went back to %s although the previous page was served by mirror.test, which its Link (style %d) is relative to", i+1, rec.URL, host, c.LinkStyle)
			}
			if rec.Status != 307 {
				served = append(served, rec)
			}
		}
		log = served
	}
	pages := len(log)
	overLimit := false
	for _, rec := range log {
		if *rec.BodyRead > limit {
			return res, vt.Failf("C15/metadata-over-read", "%s %s: %d bytes of the response were read, MaxMetadataBytes is %d", rec.Method, rec.URL, *rec.BodyRead, limit)
		}
		bl := rec.BodyLen
		if dl, ok := docLens[rec]; ok {
			bl = dl // the document, without the white space after it
		}
		if bl > limit {
			overLimit = true
		}
	}
	res.NonTrivial = pages >= 3 || (c.MaxMeta > 0 && c.PadDelta >= -1 && c.PadDelta <= 2) || last != ""
	if pages >= 3 {
		res.Classes = append(res.Classes, "three-or-more-pages")
	}
	if overLimit {
		res.Classes = append(res.Classes, "document-exceeds-limit")
	}
	// follow-up requests must target the Link of the previous response
	for i := 1; i < len(log); i++ {
		prev, _ := url.Parse(log[i-1].URL)
		cur, _ := url.Parse(log[i].URL)
		if cur.Host != prev.Host || cur.Path != prev.Path || cur.Scheme != prev.Scheme {
			return res, vt.Failf("C15/next-page-url", "page %d was requested from %s, the Link of page %d (requested from %s) points to the same path on the same host", i+1, log[i].URL, i, log[i-1].URL)
		}
		q := cur.Query()
		if c.LinkStyle == 5 {
			if q.Get("marker") == "" {
				return res, vt.Failf("C15/next-page-url", "page %d request %s lost the continuation parameter of the Link", i+1, log[i].URL)
			}
		} else if q.Get("last") == "" {
			return res, vt.Failf("C15/next-page-url", "page %d request %s lost the 'last' parameter of the Link", i+1, log[i].URL)
		}
		if c.LinkStyle == 4 && q.Get("extra") != "1" {
			return res, vt.Failf("C15/next-page-url", "page %d request %s lost a parameter of the Link target", i+1, log[i].URL)
		}
	}
	if c.FailAt > 0 && calls >= c.FailAt {
		if !errors.Is(err, errCallback) {
			return res, vt.Failf("C15/callback-error-not-returned", "callback failed at invocation %d but the listing returned %v", c.FailAt, err)
		}
		// no later page may have been requested: requests == pages consumed so far
		if len(log) > calls+emptyPages(c, log) {
			return res, vt.Failf("C15/requested-after-callback-failure", "%d requests were made although the callback failed at its invocation %d", len(log), c.FailAt)
		}
		res.Classes = append(res.Classes, "callback-failed")
		return res, nil
	}
	if overLimit {
		if err == nil {
			return res, vt.Failf("C15/oversized-document-accepted", "a listing document larger than MaxMetadataBytes=%d was accepted (got %d items)", limit, len(got))
		}
		// items of complete earlier pages are fine; nothing from the oversized page
		for _, g := range got {
			_ = g
		}
		if len(got) > len(expected) || !isPrefix(got, expected) {
			return res, vt.Failf("C15/truncated-result-delivered", "items %v were delivered although the document did not fit the limit", got)
		}
		return res, nil
	}
	if err != nil {
		return res, vt.Failf("C15/listing-failed", "%s listing failed: %v (log: %d requests)", c.Kind, err, len(log))
	}
	if fmt.Sprint(got) != fmt.Sprint(expected) {
		return res, vt.Failf("C15/items-differ", "%s(last=%q): delivered %d items %v, the registry holds %d after last: %v", c.Kind, last, len(got), abbreviate(got), len(expected), abbreviate(expected))
	}
	return res, nil
}

func emptyPages(c Case, log []*regmodel.ReqRecord) int {
	// referrers callbacks are skipped for empty pages; tags/catalog call back once per page
	if c.Kind == "referrers" {
		return len(log)
	}
	return 0
}

func isPrefix(a, b []string) bool {
	if len(a) > len(b) {
		return false
	}
	for i := range a {
		if a[i] != b[i] {
			return false
		}
	}
	return true
}

func abbreviate(xs []string) []string {
	var out []string
	for _, x := range xs {
		if len(x) > 16 {
			x = x[7:15]
		}
		out = append(out, x)
	}
	return out
}

// runOCITags checks the OCI-layout Tags listing: sorted, exactly the tags > last.
func runOCITags(ctx context.Context, c Case, items []string, last string, res vt.Result) (vt.Result, *vt.Fail) {
	root := vt.Scratch("c15-")
	defer os.RemoveAll(root)
	dir := filepath.Join(root, "l")
	s, err := oci.New(dir)
	if err != nil {
		return res, vt.Failf("harness/oci", "%v", err)
	}
	blob := []byte("x")
	desc := ocispec.Descriptor{MediaType: "application/octet-stream", Digest: digestOfString(regmodel.DigestOf("sha256", blob)), Size: 1}
	if err := s.Push(ctx, desc, strings.NewReader("x")); err != nil {
		return res, vt.Failf("harness/oci", "%v", err)
	}
	// tag in a scrambled order
	for i := range items {
		it := items[len(items)-1-i] // descending, so ordering is the store's work
		if err := s.Tag(ctx, desc, it); err != nil {
			return res, vt.Failf("harness/oci", "%v", err)
		}
	}
	var lister interface {
		Tags(ctx context.Context, last string, fn func(tags []string) error) error
	} = s
	switch c.View {
	case "fs":
		v, err := oci.NewFromFS(ctx, os.DirFS(dir))
		if err != nil {
			return res, vt.Failf("C15/reopen-failed", "%v", err)
		}
		lister = v
	case "tar":
		tp := filepath.Join(root, "l.tar")
		if err := fsx.TarDir(dir, tp, "pax", false); err != nil {
			return res, vt.Failf("harness/tar", "%v", err)
		}
		v, err := oci.NewFromTar(ctx, tp)
		if err != nil {
			return res, vt.Failf("C15/reopen-failed", "%v", err)
		}
		lister = v
	}
	var got, expected []string
	seen := map[string]bool{}
	for _, it := range items {
		if !seen[it] && (last == "" || it > last) {
			expected = append(expected, it)
		}
		seen[it] = true
	}
	sort.Strings(expected)
	calls := 0
	err = lister.Tags(ctx, last, func(p []string) error {
		calls++
		if c.FailAt == 1 {
			return errCallback
		}
		got = append(got, p...)
		return nil
	})
	res.NonTrivial = last != "" && len(items) > 2
	res.Classes = append(res.Classes, "oci-view-"+c.View)
	if c.FailAt == 1 {
		if !errors.Is(err, errCallback) {
			return res, vt.Failf("C15/callback-error-not-returned", "oci Tags returned %v", err)
		}
		return res, nil
	}
	if err != nil {
		return res, vt.Failf("C15/listing-failed", "oci Tags: %v", err)
	}
	if fmt.Sprint(got) != fmt.Sprint(expected) {
		return res, vt.Failf("C15/items-differ", "oci(%s) Tags(last=%q) = %v, expected %v", c.View, last, got, expected)
	}
	return res, nil
}

func TestMain(m *testing.M) {
	vt.Main(m, "C15", vt.NewLeg("main", 3000, 10000, 16, genCase, runCase))
}

func TestLegs(t *testing.T)   { vt.TestLegs(t) }
func TestReplay(t *testing.T) { vt.TestReplay(t) }
