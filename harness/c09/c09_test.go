package c09

import (
	"context"
	"fmt"
	"os"
	"path/filepath"
	"sort"
	"strings"
	"sync"
	"testing"
	"time"

	"oras.land/oras-go/v2/content/oci"
	"pgregory.net/rapid"

	"verif/harness/gen"
	"verif/harness/model"
	"verif/harness/orc"
	"verif/harness/vt"
)

const watchdog = 20 * time.Second

// Op is one step of the history.
type Op struct {
	Op  string `json:"op"` // push, tag, untag, delete, gc, reopen, cpush
	N   int    `json:"n,omitempty"`
	Ref string `json:"ref,omitempty"`
	// cpush: these nodes are pushed at the same moment, one goroutine each
	Ns []int `json:"ns,omitempty"`
	// Poll (gc): a first GC runs under a context that is cancelled at its Poll-th poll
	Poll int `json:"poll,omitempty"`
}

// Stray is a file dropped directly under blobs/.
type Stray struct {
	Alg  string `json:"alg"`
	Name string `json:"name"`
}

// Case is one generated C09 case.
type Case struct {
	Specs  []gen.NodeSpec `json:"specs"`
	AutoGC bool           `json:"autoGC"`
	Strays []Stray        `json:"strays,omitempty"`
	Ops    []Op           `json:"ops"`
}

var refNames = []string{"latest", "v1", "sig", "t/x:1"}

func hexName(seed, n int) string {
	const hx = "0123456789abcdef"
	var sb strings.Builder
	x := uint32(seed)*2654435761 + 99
	for i := 0; i < n; i++ {
		x = x*1664525 + 1013904223
		sb.WriteByte(hx[(x>>24)&15])
	}
	return sb.String()
}

func genAlias(t *rapid.T) Case {
	if rapid.IntRange(0, 5).Draw(t, "manifestAsBlob") == 2 {
		return manifestAsBlobCase(t)
	}
	return genCaseOpt(t, true)
}

// manifestAsBlobCase: a tagged root R lists, as a plain blob, a verbatim copy of an
// image manifest M, and reaches M itself one or two levels further down (through an
// index, its subject or a manifest list). M is untagged; then GC runs. Everything M
// links to is reachable from the tagged R and must stay.
func manifestAsBlobCase(t *rapid.T) Case {
	c := Case{AutoGC: rapid.Bool().Draw(t, "autoGC")}
	add := func(s gen.NodeSpec) int { c.Specs = append(c.Specs, s); return len(c.Specs) - 1 }
	cfg := add(gen.NodeSpec{Kind: gen.KBlob, Seed: 801, Size: 9, MT: "application/vnd.oci.image.config.v1+json"})
	layer := add(gen.NodeSpec{Kind: gen.KBlob, Seed: 802, Size: 21, MT: "application/vnd.oci.image.layer.v1.tar"})
	m := add(gen.NodeSpec{Kind: gen.KImage, Config: &gen.Ref{N: cfg}, Layers: []gen.Ref{{N: layer}}})
	via := add(gen.NodeSpec{Kind: gen.KIndex, Layers: []gen.Ref{{N: m}}})
	if rapid.Bool().Draw(t, "twoLevels") {
		via = add(gen.NodeSpec{Kind: gen.KIndex, Layers: []gen.Ref{{N: via}}})
	}
	copyOfM := add(gen.NodeSpec{Kind: gen.KBlob, MT: "application/octet-stream", Alias: m + 1})
	cfg2 := add(gen.NodeSpec{Kind: gen.KBlob, Seed: 803, Size: 7, MT: "application/vnd.oci.image.config.v1+json"})
	var root int
	if rapid.Bool().Draw(t, "viaSubject") {
		root = add(gen.NodeSpec{Kind: gen.KImage, Config: &gen.Ref{N: cfg2}, Layers: []gen.Ref{{N: copyOfM}}, Subject: &gen.Ref{N: via}, ArtifactType: "application/vnd.verif.attestation"})
	} else {
		att := add(gen.NodeSpec{Kind: gen.KImage, Config: &gen.Ref{N: cfg2}, Layers: []gen.Ref{{N: copyOfM}}})
		root = add(gen.NodeSpec{Kind: gen.KIndex, Layers: []gen.Ref{{N: att}, {N: via}}})
	}
	for _, id := range rapid.Permutation(seq(len(c.Specs))).Draw(t, "order") {
		c.Ops = append(c.Ops, Op{Op: "push", N: id})
	}
	c.Ops = append(c.Ops, Op{Op: "tag", N: root, Ref: "latest"})
	mTagged := rapid.Bool().Draw(t, "mTagged")
	if mTagged {
		c.Ops = append(c.Ops, Op{Op: "tag", N: m, Ref: "image"})
	}
	for i := rapid.IntRange(1, 2).Draw(t, "gcs"); i > 0; i-- {
		c.Ops = append(c.Ops, Op{Op: "gc"})
	}
	if mTagged && rapid.Bool().Draw(t, "deleteRoot") {
		// the tagged image stays whatever happens to the manifests that list a copy of it
		c.Ops = append(c.Ops, Op{Op: "delete", N: root})
	}
	c.Ops = append(c.Ops, Op{Op: rapid.SampledFrom([]string{"reopen", "gc"}).Draw(t, "last")})
	return c
}
func genCase(t *rapid.T) Case  { return genCaseOpt(t, false) }

// chainCase: referrers that are reachable only through other referrers - a tagged
// image A, an index S{subject: A} over manifests M1..Mk, referrers R_i{subject: M_i}
// (and referrers of those), everything untagged except A; then GC, more than once.
func chainCase(t *rapid.T) Case {
	c := Case{AutoGC: rapid.Bool().Draw(t, "autoGC")}
	add := func(s gen.NodeSpec) int { c.Specs = append(c.Specs, s); return len(c.Specs) - 1 }
	blob := func() int {
		return add(gen.NodeSpec{Kind: gen.KBlob, Seed: 600 + len(c.Specs), Size: 5 + len(c.Specs), MT: "application/octet-stream"})
	}
	cfg := blob()
	a := add(gen.NodeSpec{Kind: gen.KImage, Config: &gen.Ref{N: cfg}, Layers: []gen.Ref{{N: blob()}}})
	k := rapid.IntRange(1, 3).Draw(t, "children")
	var kids []gen.Ref
	var ms []int
	for i := 0; i < k; i++ {
		m := add(gen.NodeSpec{Kind: gen.KImage, Config: &gen.Ref{N: cfg}, Layers: []gen.Ref{{N: blob()}}})
		kids = append(kids, gen.Ref{N: m})
		ms = append(ms, m)
	}
	add(gen.NodeSpec{Kind: gen.KIndex, Layers: kids, Subject: &gen.Ref{N: a}, ArtifactType: "application/vnd.verif.sig"})
	for _, m := range ms {
		depth := rapid.IntRange(1, 3).Draw(t, "chainDepth")
		subj := m
		for j := 0; j < depth; j++ {
			kind := rapid.SampledFrom([]string{gen.KImage, gen.KArtifact}).Draw(t, "refKind")
			sp := gen.NodeSpec{Kind: kind, Subject: &gen.Ref{N: subj}, ArtifactType: "application/vnd.verif.sbom"}
			if kind == gen.KImage {
				sp.Config = &gen.Ref{N: cfg}
				sp.Layers = []gen.Ref{{N: blob()}}
			} else {
				sp.Layers = []gen.Ref{{N: blob()}}
			}
			subj = add(sp)
		}
	}
	// an unrelated untagged manifest (garbage) and an orphan referrer chain
	add(gen.NodeSpec{Kind: gen.KImage, Config: &gen.Ref{N: cfg}, Layers: []gen.Ref{{N: blob()}}})
	order := rapid.Permutation(seq(len(c.Specs))).Draw(t, "order")
	for _, id := range order {
		c.Ops = append(c.Ops, Op{Op: "push", N: id})
	}
	c.Ops = append(c.Ops, Op{Op: "tag", N: a, Ref: "latest"})
	for i := rapid.IntRange(1, 3).Draw(t, "gcs"); i > 0; i-- {
		c.Ops = append(c.Ops, Op{Op: "gc"})
		if rapid.Bool().Draw(t, "reopenBetween") {
			c.Ops = append(c.Ops, Op{Op: "reopen"})
		}
	}
	return c
}

func seq(n int) []int {
	out := make([]int, n)
	for i := range out {
		out[i] = i
	}
	return out
}

func genCaseOpt(t *rapid.T, alias bool) Case {
	if !alias && rapid.IntRange(0, 7).Draw(t, "chainShape") == 0 {
		return chainCase(t)
	}
	max := 12
	steps := 14
	if vt.Thorough() {
		max = 20
		steps = 24
	}
	o := gen.DAGOpts{MaxNodes: max, Referrers: true, NoBigBlobs: true, NoAbsent: true, SingleMT: rapid.IntRange(0, 2).Draw(t, "singleMT") != 0}
	if alias {
		o.SingleMT, o.FewBytes, o.NoForeign = false, true, true
	}
	c := Case{Specs: gen.Specs(t, o), AutoGC: rapid.IntRange(0, 3).Draw(t, "autoGC") != 0}
	d := gen.Build(c.Specs)
	ids := d.CanonIDs()
	ns := rapid.IntRange(0, 3).Draw(t, "nStrays")
	for i := 0; i < ns; i++ {
		switch rapid.IntRange(0, 4).Draw(t, "strayKind") {
		case 0:
			c.Strays = append(c.Strays, Stray{"sha256", hexName(i+1, 64)})
		case 1:
			c.Strays = append(c.Strays, Stray{"sha512", hexName(i+7, 128)})
		case 2:
			c.Strays = append(c.Strays, Stray{"sha256", "not-a-digest"})
		case 3:
			c.Strays = append(c.Strays, Stray{"md5", hexName(i+3, 32)})
		default:
			c.Strays = append(c.Strays, Stray{"sha256", hexName(i+5, 63)})
		}
	}
	// push phase: most nodes, children first or shuffled
	var order []int
	for _, id := range ids {
		if rapid.IntRange(0, 9).Draw(t, "pushIt") != 0 {
			order = append(order, id)
		}
	}
	if rapid.Bool().Draw(t, "shuffle") {
		order = rapid.Permutation(order).Draw(t, "perm")
	}
	for _, id := range order {
		c.Ops = append(c.Ops, Op{Op: "push", N: id})
	}
	n := rapid.IntRange(1, steps).Draw(t, "nOps")
	for i := 0; i < n; i++ {
		var op Op
		switch r := rapid.IntRange(0, 99).Draw(t, "opRoll"); {
		case r < 30:
			op = Op{Op: "tag", N: rapid.SampledFrom(ids).Draw(t, "tagN"), Ref: rapid.SampledFrom(refNames).Draw(t, "ref")}
		case r < 38:
			op = Op{Op: "untag", Ref: rapid.SampledFrom(refNames).Draw(t, "uref")}
		case r < 68:
			op = Op{Op: "delete", N: rapid.SampledFrom(ids).Draw(t, "delN")}
		case r < 82:
			op = Op{Op: "gc"}
			if rapid.IntRange(0, 2).Draw(t, "gcInterrupted") == 1 {
				op.Poll = rapid.IntRange(1, 14).Draw(t, "gcPoll")
			}
		case r < 88:
			op = Op{Op: "reopen"}
		default:
			op = Op{Op: "push", N: rapid.SampledFrom(ids).Draw(t, "pushN")}
		}
		c.Ops = append(c.Ops, op)
	}
	return c
}

// genWide: 3-8 wide manifests over one pool of blobs pushed at the same moment, then
// all but some of them deleted (auto-GC) or garbage-collected: what the survivors
// link to must stay.
func genWide(t *rapid.T) Case {
	c := Case{AutoGC: rapid.IntRange(0, 3).Draw(t, "autoGC") != 0}
	m := rapid.IntRange(8, 14).Draw(t, "poolSize")
	if rapid.IntRange(0, 2).Draw(t, "veryWide") == 0 {
		m = rapid.IntRange(64, 72).Draw(t, "poolSizeXL")
	}
	for i := 0; i < m+1; i++ {
		c.Specs = append(c.Specs, gen.NodeSpec{Kind: gen.KBlob, Seed: 500 + i, Size: 2 + i%17, MT: "application/octet-stream"})
	}
	p := rapid.IntRange(3, 8).Draw(t, "wideParents")
	var parents, blobs []int
	for i := 0; i < m+1; i++ {
		blobs = append(blobs, i)
	}
	for i := 0; i < p; i++ {
		w := m
		if rapid.Bool().Draw(t, "partial") {
			w = rapid.IntRange(m/2+1, m).Draw(t, "width")
		}
		var layers []gen.Ref
		for _, b := range rapid.Permutation(blobs[:m]).Draw(t, "layers")[:w] {
			layers = append(layers, gen.Ref{N: b})
		}
		c.Specs = append(c.Specs, gen.NodeSpec{Kind: gen.KImage, Config: &gen.Ref{N: m}, Layers: layers})
		parents = append(parents, len(c.Specs)-1)
	}
	if rapid.Bool().Draw(t, "childrenFirst") {
		c.Ops = append(c.Ops, Op{Op: "cpush", Ns: blobs})
	}
	c.Ops = append(c.Ops, Op{Op: "cpush", Ns: parents})
	if !rapid.Bool().Draw(t, "childrenFirstAgain") {
		c.Ops = append(c.Ops, Op{Op: "cpush", Ns: blobs})
	}
	keep := rapid.IntRange(0, p-1).Draw(t, "keep")
	if rapid.Bool().Draw(t, "tagKept") {
		c.Ops = append(c.Ops, Op{Op: "tag", N: parents[keep], Ref: "latest"})
	}
	for i, pr := range rapid.Permutation(parents).Draw(t, "delOrder") {
		if pr == parents[keep] {
			continue
		}
		c.Ops = append(c.Ops, Op{Op: "delete", N: pr})
		if i%3 == 2 && rapid.Bool().Draw(t, "gcBetween") {
			c.Ops = append(c.Ops, Op{Op: "gc"})
		}
	}
	c.Ops = append(c.Ops, Op{Op: rapid.SampledFrom([]string{"gc", "reopen", "gc"}).Draw(t, "last")})
	return c
}

// omitsOnlyUnlisted reports whether every difference between the store's
// Predecessors and the ground truth is a missing predecessor that is a stored
// manifest which no index.json entry reaches.
func omitsOnlyUnlisted(ctx context.Context, pf orc.PredFinder, d *gen.DAG, stored map[int]bool, dir string) bool {
	indexed, err := orc.IndexedSet(dir, d, stored)
	if err != nil {
		return false
	}
	parents := d.Parents()
	byKey := map[string]int{}
	for _, id := range d.CanonIDs() {
		byKey[gen.TripleKey(d.Nodes[id].Desc)] = id
	}
	differs := false
	for _, id := range d.CanonIDs() {
		got, err := pf.Predecessors(ctx, d.Nodes[id].Desc)
		if err != nil {
			return false
		}
		have := map[int]bool{}
		for _, g := range got {
			p, ok := byKey[gen.TripleKey(g)]
			if !ok {
				return false
			}
			have[p] = true
		}
		want := map[int]bool{}
		for _, p := range parents[id] {
			if stored[p] {
				want[p] = true
			}
		}
		for p := range have {
			if !want[p] {
				return false // an extra predecessor is a different matter
			}
		}
		for p := range want {
			if !have[p] {
				if indexed[p] {
					return false // a listed manifest is missing: a different matter
				}
				differs = true
			}
		}
	}
	return differs
}

func strayPath(dir string, s Stray) string { return filepath.Join(dir, "blobs", s.Alg, s.Name) }

func validDigestName(alg, name string) bool {
	want := map[string]int{"sha256": 64, "sha384": 96, "sha512": 128}[alg]
	if want == 0 || len(name) != want {
		return false
	}
	for _, ch := range name {
		if !strings.ContainsRune("0123456789abcdef", ch) {
			return false
		}
	}
	return true
}

// expectedBlobFiles is the reference listing of blobs/.
func expectedBlobFiles(m *model.OCI, strays map[Stray]bool) []string {
	set := map[string]bool{}
	for id := range m.Stored {
		dg := m.D.Nodes[id].Desc.Digest
		set[dg.Algorithm().String()+"/"+dg.Encoded()] = true
	}
	for s, alive := range strays {
		if alive {
			set[s.Alg+"/"+s.Name] = true
		}
	}
	var out []string
	for k := range set {
		out = append(out, k)
	}
	sort.Strings(out)
	return out
}

func runCase(c Case) (res vt.Result, fail *vt.Fail) {
	ctx := context.Background()
	d := gen.Build(c.Specs)
	root := vt.Scratch("c09-")
	defer os.RemoveAll(root)
	dir := filepath.Join(root, "layout")
	s, err := oci.New(dir)
	if err != nil {
		return res, vt.Failf("harness/oci-new", "%v", err)
	}
	s.AutoGC = c.AutoGC
	m := model.NewOCI(d)
	strays := map[Stray]bool{}
	for _, st := range c.Strays {
		p := strayPath(dir, st)
		if err := os.MkdirAll(filepath.Dir(p), 0o755); err != nil {
			return res, vt.Failf("harness/stray", "%v", err)
		}
		if err := os.WriteFile(p, []byte("stray "+st.Name), 0o644); err != nil {
			return res, vt.Failf("harness/stray", "%v", err)
		}
		strays[st] = true
	}
	classes := map[string]bool{}
	// The same bytes under two media types: oras-go's graph is keyed by (media type,
	// digest, size) while the layout stores one file per digest, and the statement's
	// "node" is ambiguous there. For such DAGs only the harm the statement clearly
	// forbids is judged (see reducedCheck); the exact-set oracle needs one media
	// type per digest.
	aliased := false
	for _, id := range d.CanonIDs() {
		if d.Nodes[id].DCanon != id {
			aliased = true
		}
	}
	if aliased {
		classes["same-bytes-two-media-types(reduced-oracle)"] = true
	}
	existsSet := func() map[int]bool {
		out := map[int]bool{}
		for _, id := range d.CanonIDs() {
			if ok, err := s.Exists(ctx, d.Nodes[id].Desc); err == nil && ok {
				out[id] = true
			}
		}
		return out
	}
	// reducedCheck: after a Delete/GC no surviving stored manifest may have lost a
	// successor that was present before, and every tag whose target still exists
	// must still resolve to it.
	reducedCheck := func(before map[int]bool, tagsBefore map[string]int, target int, when string) *vt.Fail {
		after := existsSet()
		for id := range after {
			if !d.IsManifest(id) {
				continue
			}
			for _, e := range d.Nodes[id].Edges {
				if target >= 0 && d.Nodes[e.To].DCanon == d.Nodes[target].DCanon {
					continue // the content the caller asked to delete
				}
				if subj, ok := subjectOf(d, e.To); ok && d.IsManifest(e.To) && !after[subj] {
					// a referrer whose subject was removed, listed by a surviving
					// node: the two halves of the statement disagree - not judged
					continue
				}
				if before[e.To] && !after[e.To] {
					return vt.Failf("C09/live-successor-removed", "%s: manifest %d survives but its %s successor %d (present before) was removed", when, id, e.Role, e.To)
				}
			}
		}
		for ref, id := range tagsBefore {
			if !after[id] {
				continue
			}
			desc, err := s.Resolve(ctx, ref)
			if err != nil || desc.Digest != d.Nodes[id].Desc.Digest {
				return vt.Failf("C09/surviving-node-lost-tag", "%s: tag %q of surviving node %d no longer resolves to it (%v)", when, ref, id, err)
			}
		}
		return nil
	}
	// resync makes the model follow the store (aliased DAGs: outcome not modelled)
	resync := func() {
		ex := existsSet()
		m.Stored = map[int]bool{}
		for id := range ex {
			m.Stored[d.Nodes[id].DCanon] = true
		}
		for ref := range m.Tags {
			if _, err := s.Resolve(ctx, ref); err != nil {
				delete(m.Tags, ref)
			}
		}
	}
	if len(c.Strays) > 0 {
		classes["stray-files"] = true
	}
	movedTag := false
	js := func() []byte { return vt.MustJSON(c) }

	// unindexed: blobs that were stored but linked by nothing when the store was last
	// reopened. The reloaded graph does not know them as nodes; a manifest pushed
	// afterwards links them, and the auto-GC cascade then passes them over (known
	// finding C09/unindexed-blob-survives-autogc).
	unindexed := map[int]bool{}
	reopened := false
	checkAll := func(when string) *vt.Fail {
		if c.AutoGC {
			for id := range unindexed {
				if m.Has(id) {
					continue
				}
				if ok, err := s.Exists(ctx, d.Nodes[id].Desc); err == nil && ok {
					return vt.Failf("C09/unindexed-blob-survives-autogc", "%s: blob node %d lost its last predecessor in an auto-GC cascade but was not removed: it was stored (linked by nothing) before the store was reopened, so the reloaded graph never recorded it as a node, and graph.Remove only reports dangling successors it knows as nodes", when, id)
				}
				delete(unindexed, id)
			}
		}
		if f := orc.CheckOCIState(ctx, s, m, "C09", when); f != nil {
			if f.Key == "C09/predecessors-mismatch" && reopened && omitsOnlyUnlisted(ctx, s, d, m.StoredTriples(), dir) {
				// same root cause as C07/C08's known finding: a store opened from the
				// directory knows only what index.json reaches
				return vt.Failf("C09/reopen-omits-unindexed-manifest", "%s: the reopened store omits, as predecessors, stored manifests that no index.json entry reaches (and nothing else differs): %s", when, f.Msg)
			}
			return f
		}
		got, err := orc.BlobFiles(dir)
		if err != nil {
			return vt.Failf("harness/blobfiles", "%v", err)
		}
		want := expectedBlobFiles(m, strays)
		if fmt.Sprint(got) != fmt.Sprint(want) {
			return vt.Failf("C09/blob-files-mismatch", "%s: blobs/ holds %v, reference says %v", when, short(got), short(want))
		}
		return nil
	}

	for i, op := range c.Ops {
		// operations address content through the first descriptor generated for its
		// digest; aliases (same bytes under another media type) only occur as
		// descriptors embedded in manifests, which is how they arise in practice
		op.N = d.Nodes[d.Nodes[op.N].Canon].DCanon
		when := fmt.Sprintf("after step %d (%s n=%d ref=%q)", i, op.Op, op.N, op.Ref)
		switch op.Op {
		case "cpush":
			var wg sync.WaitGroup
			start := make(chan struct{})
			errs := make([]error, len(op.Ns))
			for i, id := range op.Ns {
				if m.Has(id) {
					continue
				}
				wg.Add(1)
				go func(i, id int) {
					defer wg.Done()
					<-start
					errs[i] = gen.PushNode(ctx, s, d.Nodes[id])
				}(i, id)
			}
			close(start)
			wg.Wait()
			for i, id := range op.Ns {
				if errs[i] != nil {
					return res, vt.Failf("C09/push-failed", "%s: concurrent push of node %d: %v", when, id, errs[i])
				}
				if !m.Has(id) {
					m.Push(id)
				}
			}
			classes["concurrent-push"] = true
		case "push":
			if m.Has(op.N) {
				continue
			}
			if err := gen.PushNode(ctx, s, d.Nodes[op.N]); err != nil {
				return res, vt.Failf("C09/push-failed", "%s: %v", when, err)
			}
			m.Push(op.N)
		case "tag":
			if !m.Has(op.N) {
				continue
			}
			if old, ok := m.Tags[op.Ref]; ok && d.Nodes[old].Desc.Digest != d.Nodes[op.N].Desc.Digest {
				movedTag = true
			}
			if err := s.Tag(ctx, d.Nodes[op.N].Desc, op.Ref); err != nil {
				return res, vt.Failf("C09/tag-failed", "%s: %v", when, err)
			}
			m.Tag(op.N, op.Ref)
			if _, isRef := subjectOf(d, op.N); isRef {
				classes["tagged-referrer"] = true
			}
		case "untag":
			if _, ok := m.Tags[op.Ref]; !ok {
				continue
			}
			if err := s.Untag(ctx, op.Ref); err != nil {
				return res, vt.Failf("C09/untag-failed", "%s: %v", when, err)
			}
			m.Untag(op.Ref)
		case "reopen":
			s2, err := oci.New(dir)
			if err != nil {
				return res, vt.Failf("C09/reopen-failed", "%s: %v", when, err)
			}
			s2.AutoGC = c.AutoGC
			s = s2
			reopened = true
			classes["reopen"] = true
			{
				parents := d.Parents()
				for _, id := range d.CanonIDs() {
					if d.IsManifest(id) || !m.Has(id) {
						continue
					}
					linked := false
					for _, p := range parents[id] {
						if m.Has(p) {
							linked = true
						}
					}
					if !linked {
						unindexed[id] = true
					}
				}
			}
		case "delete":
			if !m.Has(op.N) {
				// deleting absent content must fail and change nothing
				var derr error
				fin, dump := vt.Watch(watchdog, func() { derr = s.Delete(ctx, d.Nodes[op.N].Desc) })
				if !fin {
					vt.ReportHang("main", js(), vt.Failf("C09/delete-hang", "%s: Delete did not return", when), dump)
				}
				if derr == nil {
					return res, vt.Failf("C09/delete-absent-succeeded", "%s: Delete of absent node %d returned nil", when, op.N)
				}
				classes["delete-absent"] = true
				break
			}
			if aliased {
				beforeSet := existsSet()
				tagsBefore := map[string]int{}
				for r, id := range m.Tags {
					if id != m.D.Nodes[op.N].DCanon {
						tagsBefore[r] = id
					}
				}
				var derr error
				fin, dump := vt.Watch(watchdog, func() { derr = s.Delete(ctx, d.Nodes[op.N].Desc) })
				if !fin {
					vt.ReportHang("main", js(), vt.Failf("C09/delete-hang", "%s: Delete did not return", when), dump)
				}
				if derr != nil {
					return res, vt.Failf("C09/delete-failed", "%s: Delete of stored node %d: %v", when, op.N, derr)
				}
				if f := reducedCheck(beforeSet, tagsBefore, op.N, when); f != nil {
					res.Classes = keys(classes)
					return res, f
				}
				// the exact outcome is not modelled: follow the store and go on
				resync()
				classes["delete"] = true
				continue
			}
			before := len(m.Stored)
			judged := true
			if c.AutoGC {
				size := m.CascadeSize(op.N)
				judged = m.DeleteAutoGC(op.N)
				if judged && size > 1 {
					classes["cascade>1"] = true
					res.NonTrivial = true
				}
				if judged && size > 2 {
					classes["cascade>2"] = true
				}
			} else {
				m.DeletePlain(op.N)
			}
			if !judged {
				classes["stopped-at-unjudged-delete"] = true
				res.Classes = keys(classes)
				return res, nil
			}
			_ = before
			var derr error
			fin, dump := vt.Watch(watchdog, func() { derr = s.Delete(ctx, d.Nodes[op.N].Desc) })
			if !fin {
				vt.ReportHang("main", js(), vt.Failf("C09/delete-hang", "%s: Delete did not return", when), dump)
			}
			if derr != nil {
				return res, vt.Failf("C09/delete-failed", "%s: Delete of stored node %d: %v", when, op.N, derr)
			}
			classes["delete"] = true
			if movedTag {
				classes["delete-after-moved-tag"] = true
			}
		case "gc":
			if aliased {
				beforeSet := existsSet()
				tagsBefore := map[string]int{}
				for r, id := range m.Tags {
					tagsBefore[r] = id
				}
				var gerr error
				fin, dump := vt.Watch(watchdog, func() { gerr = s.GC(ctx) })
				if !fin {
					vt.ReportHang("main", js(), vt.Failf("C09/gc-hang", "%s: GC did not return", when), dump)
				}
				if gerr != nil {
					return res, vt.Failf("C09/gc-failed", "%s: GC: %v", when, gerr)
				}
				// tagged nodes are live: they and everything they reach must survive
				after := existsSet()
				for _, id := range tagsBefore {
					if beforeSet[id] && !after[id] {
						return res, vt.Failf("C09/gc-removed-tagged-node", "%s: GC removed tagged node %d", when, id)
					}
				}
				if f := reducedCheck(beforeSet, tagsBefore, -1, when); f != nil {
					res.Classes = keys(classes)
					return res, f
				}
				resync()
				classes["gc"] = true
				continue
			}
			if m.GCWouldBeUnjudged() {
				classes["stopped-at-unjudged-gc"] = true
				res.Classes = keys(classes)
				return res, nil
			}
			removed := m.GC()
			for st := range strays {
				if strays[st] && validDigestName(st.Alg, st.Name) {
					strays[st] = false
					classes["gc-removes-stray"] = true
				}
			}
			if len(removed) > 0 && len(m.Stored) > 0 {
				res.NonTrivial = true
				classes["gc-removes-and-keeps"] = true
			}
			if op.Poll > 0 {
				// a first GC whose context is cancelled at its N-th poll (while the
				// index is rebuilt, or during the sweep): whatever it got done, the GC
				// that follows must end in the state one GC produces
				cd := &countdownCtx{Context: ctx, left: op.Poll, done: make(chan struct{})}
				var ierr error
				fin, dump := vt.Watch(watchdog, func() { ierr = s.GC(cd) })
				if !fin {
					vt.ReportHang("main", js(), vt.Failf("C09/gc-hang", "%s: GC under a context cancelled at poll %d did not return", when, op.Poll), dump)
				}
				if ierr != nil {
					classes["gc-interrupted-then-repeated"] = true
				}
			}
			var gerr error
			fin, dump := vt.Watch(watchdog, func() { gerr = s.GC(ctx) })
			if !fin {
				vt.ReportHang("main", js(), vt.Failf("C09/gc-hang", "%s: GC did not return", when), dump)
			}
			if gerr != nil {
				return res, vt.Failf("C09/gc-failed", "%s: GC: %v", when, gerr)
			}
			classes["gc"] = true
		}
		if !aliased && (op.Op == "delete" || op.Op == "gc" || op.Op == "reopen" || i == len(c.Ops)-1) {
			if f := checkAll(when); f != nil {
				res.Classes = keys(classes)
				return res, f
			}
		}
	}
	if movedTag {
		classes["moved-tag"] = true
	}
	res.Classes = keys(classes)
	return res, nil
}

// countdownCtx is cancelled when it is asked for Done() or Err() the left-th time.
type countdownCtx struct {
	context.Context
	mu    sync.Mutex
	left  int
	fired bool
	done  chan struct{}
}

func (c *countdownCtx) tick() bool {
	c.mu.Lock()
	defer c.mu.Unlock()
	if !c.fired {
		c.left--
		if c.left <= 0 {
			c.fired = true
			close(c.done)
		}
	}
	return c.fired
}

func (c *countdownCtx) Done() <-chan struct{} { c.tick(); return c.done }

func (c *countdownCtx) Err() error {
	if c.tick() {
		return context.Canceled
	}
	return nil
}

func subjectOf(d *gen.DAG, id int) (int, bool) {
	for _, e := range d.Nodes[id].Edges {
		if e.Role == "subject" {
			return e.To, true
		}
	}
	return 0, false
}

func keys(m map[string]bool) []string {
	var out []string
	for k := range m {
		out = append(out, k)
	}
	sort.Strings(out)
	return out
}

func short(xs []string) []string {
	var out []string
	for _, x := range xs {
		if len(x) > 24 {
			x = x[:24] + "…"
		}
		out = append(out, x)
	}
	return out
}

func TestMain(m *testing.M) {
	vt.ReplayRepeat["tagrace"] = 100
	vt.ReplayRepeat["gcrace"] = 60
	vt.ReplayRepeat["main"], vt.ReplayRepeat["alias"] = 20, 20
	vt.Main(m, "C09",
		vt.NewLeg("main", 2500, 6000, 16, genCase, runCase),
		vt.NewLeg("alias", 1200, 4000, 8, genAlias, runCase),
		vt.NewLeg("wide", 300, 1200, 4, genWide, runCase),
		vt.NewLeg("tagrace", 300, 1500, 4, genTagRace, runTagRace),
		vt.NewLeg("delfault", 400, 2000, 4, genDelFault, runDelFault),
		vt.NewLeg("gcrace", 300, 1500, 4, genGCRace, runGCRace),
	)
}

func TestLegs(t *testing.T)   { vt.TestLegs(t) }
func TestReplay(t *testing.T) { vt.TestReplay(t) }
