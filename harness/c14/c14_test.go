package c14

import (
	"bytes"
	"context"
	"encoding/json"
	"errors"
	"fmt"
	"net/http"
	"regexp"
	"sort"
	"strings"
	"sync"
	"testing"
	"time"

	"github.com/opencontainers/go-digest"
	ocispec "github.com/opencontainers/image-spec/specs-go/v1"
	"oras.land/oras-go/v2/errdef"
	"oras.land/oras-go/v2/registry/remote"
	"pgregory.net/rapid"

	"verif/harness/gen"
	"verif/harness/regmodel"
	"verif/harness/vt"
)

const host = "refs.test"
const repoName = "team/app"

// RefSpec describes one referrer manifest.
type RefSpec struct {
	Subject int               `json:"subject"`
	Kind    string            `json:"kind"` // image, image-config-at, artifact, index
	AT      string            `json:"at,omitempty"`
	Ann     map[string]string `json:"ann,omitempty"`
	// SubjAlt: the manifest describes its subject with another media type (same
	// digest and size): still the same subject, the same referrers tag
	SubjAlt bool `json:"subjAlt,omitempty"`
	// Big: the manifest is larger than the Repository's MaxMetadataBytes (when the
	// case sets one): its push must be refused and leave nothing behind
	Big bool `json:"big,omitempty"`
}

// PhaseOp is one operation of a concurrent phase.
type PhaseOp struct {
	Op  string `json:"op"` // push, delete
	Ref int    `json:"ref"`
}

// Fault is an injected failure on an index exchange.
type Fault struct {
	On   string `json:"on"` // index-get, index-put, index-delete
	Nth  int    `json:"nth"`
	Mode string `json:"mode"` // http500, transport
}

// Case is one C14 case.
type Case struct {
	NSubjects     int         `json:"nSubjects"`
	SubjectAbsent []bool      `json:"subjectAbsent"`
	Refs          []RefSpec   `json:"refs"`
	Pre           []int       `json:"pre"`               // per subject: 0 none, 1 valid, 2 with duplicates, 3 with zero-value entries, 4 with dead entries
	PreLive       []int       `json:"preLive,omitempty"` // referrers that are live (and listed) before the first phase
	SkipGC        bool        `json:"skipGC,omitempty"`
	Phases        [][]PhaseOp `json:"phases"`
	Gate          int         `json:"gate"`
	GateSeed      int         `json:"gateSeed,omitempty"`
	Fault         *Fault      `json:"fault,omitempty"`
	MaxMeta       int         `json:"maxMetadataBytes,omitempty"`
}

var ats = []string{"application/vnd.verif.sig", "application/vnd.verif.sbom"}

func genCase(t *rapid.T) Case {
	c := Case{NSubjects: rapid.IntRange(1, 3).Draw(t, "nSubjects")}
	for i := 0; i < c.NSubjects; i++ {
		c.SubjectAbsent = append(c.SubjectAbsent, rapid.IntRange(0, 4).Draw(t, "absent") == 0)
		// pre-existing index content: as the statement quantifies (valid, duplicates,
		// empty entries); entries for manifests that do not exist are outside it
		c.Pre = append(c.Pre, rapid.IntRange(0, 3).Draw(t, "pre"))
	}
	n := rapid.IntRange(3, 10).Draw(t, "nRefs")
	for i := 0; i < n; i++ {
		r := RefSpec{Subject: rapid.IntRange(0, c.NSubjects-1).Draw(t, "subj"), Kind: rapid.SampledFrom([]string{"image", "image", "image-config-at", "artifact", "index"}).Draw(t, "kind")}
		if rapid.IntRange(0, 1).Draw(t, "majority") == 0 {
			r.Subject = 0 // contention on one subject
		}
		r.AT = rapid.SampledFrom(ats).Draw(t, "at")
		if rapid.Bool().Draw(t, "ann") {
			r.Ann = map[string]string{"k": fmt.Sprint(i)}
		}
		r.SubjAlt = rapid.IntRange(0, 3).Draw(t, "subjAlt") == 0
		c.Refs = append(c.Refs, r)
	}
	if rapid.IntRange(0, 3).Draw(t, "maxMeta") == 0 {
		c.MaxMeta = 16384
		for i := range c.Refs {
			c.Refs[i].Big = rapid.IntRange(0, 3).Draw(t, "big") == 0
		}
	}
	for i := range c.Refs {
		if c.Pre[c.Refs[i].Subject] != 0 && rapid.IntRange(0, 2).Draw(t, "preLive") == 0 {
			c.PreLive = append(c.PreLive, i)
		}
	}
	if c.MaxMeta > 0 {
		// an oversized manifest cannot have been pushed through such a Repository
		var keep []int
		for _, i := range c.PreLive {
			if !c.Refs[i].Big {
				keep = append(keep, i)
			}
		}
		c.PreLive = keep
	}
	c.SkipGC = rapid.IntRange(0, 3).Draw(t, "skipGC") == 0
	live := map[int]bool{}
	for _, i := range c.PreLive {
		live[i] = true
	}
	np := rapid.IntRange(1, 4).Draw(t, "nPhases")
	for p := 0; p < np; p++ {
		var ph []PhaseOp
		touched := map[int]bool{}
		k := rapid.IntRange(1, 8).Draw(t, "k")
		for j := 0; j < k; j++ {
			ref := rapid.IntRange(0, n-1).Draw(t, "ref")
			op := "push"
			if live[ref] && !c.Refs[ref].Big {
				op = "delete"
			}
			if touched[ref] {
				// a duplicate of what this phase already does with the manifest
				for _, o := range ph {
					if o.Ref == ref {
						op = o.Op
					}
				}
			}
			touched[ref] = true
			ph = append(ph, PhaseOp{Op: op, Ref: ref})
		}
		for ref := range touched {
			for _, o := range ph {
				if o.Ref == ref {
					live[ref] = o.Op == "push"
				}
			}
		}
		c.Phases = append(c.Phases, ph)
	}
	c.Gate = rapid.IntRange(0, 3).Draw(t, "gate")
	c.GateSeed = rapid.IntRange(1, 1000).Draw(t, "gateSeed")
	if rapid.IntRange(0, 3).Draw(t, "hasFault") == 0 {
		c.Fault = &Fault{On: rapid.SampledFrom([]string{"index-get", "index-put", "index-delete"}).Draw(t, "faultOn"), Nth: rapid.IntRange(0, 4).Draw(t, "faultNth"), Mode: rapid.SampledFrom([]string{"http500", "transport"}).Draw(t, "faultMode")}
	}
	return c
}

type built struct {
	desc  ocispec.Descriptor
	bytes []byte
	at    string
	ann   map[string]string
}

func emptyCfg() ocispec.Descriptor {
	return ocispec.Descriptor{MediaType: "application/vnd.oci.empty.v1+json", Digest: digest.FromBytes([]byte("{}")), Size: 2}
}

func buildSubject(i int) built {
	m := ocispec.Manifest{MediaType: gen.MTImage, Config: emptyCfg(), Layers: []ocispec.Descriptor{}, Annotations: map[string]string{"subject": fmt.Sprint(i)}}
	m.SchemaVersion = 2
	b, _ := json.Marshal(m)
	return built{desc: ocispec.Descriptor{MediaType: gen.MTImage, Digest: digest.FromBytes(b), Size: int64(len(b))}, bytes: b}
}

func buildRef(i int, r RefSpec, subj ocispec.Descriptor) built {
	ann := map[string]string{"ref": fmt.Sprint(i)}
	for k, v := range r.Ann {
		ann[k] = v
	}
	var body any
	mt := gen.MTImage
	at := r.AT
	switch r.Kind {
	case "image":
		m := ocispec.Manifest{MediaType: gen.MTImage, ArtifactType: r.AT, Config: emptyCfg(), Layers: []ocispec.Descriptor{}, Subject: &subj, Annotations: ann}
		m.SchemaVersion = 2
		body = m
	case "image-config-at":
		cfg := emptyCfg()
		cfg.MediaType = r.AT
		m := ocispec.Manifest{MediaType: gen.MTImage, Config: cfg, Layers: []ocispec.Descriptor{}, Subject: &subj, Annotations: ann}
		m.SchemaVersion = 2
		body = m
	case "artifact":
		mt = gen.MTArtifact
		body = map[string]any{"mediaType": mt, "artifactType": r.AT, "subject": subj, "annotations": ann}
	default:
		mt = gen.MTIndex
		m := ocispec.Index{MediaType: gen.MTIndex, ArtifactType: r.AT, Manifests: []ocispec.Descriptor{}, Subject: &subj, Annotations: ann}
		m.SchemaVersion = 2
		body = m
	}
	b, _ := json.Marshal(body)
	return built{desc: ocispec.Descriptor{MediaType: mt, Digest: digest.FromBytes(b), Size: int64(len(b))}, bytes: b, at: at, ann: ann}
}

var reIndexTag = regexp.MustCompile(`/manifests/(sha256|sha512)-[0-9a-f]+$`)

func entryKey(d ocispec.Descriptor) string {
	var ks []string
	for k, v := range d.Annotations {
		ks = append(ks, k+"="+v)
	}
	sort.Strings(ks)
	return fmt.Sprintf("%s|%s|%d|%s|%v", d.MediaType, d.Digest, d.Size, d.ArtifactType, ks)
}

func runCase(c Case) (res vt.Result, fail *vt.Fail) {
	fin, dump := vt.Watch(60*time.Second, func() { res, fail = runInner(c) })
	if !fin {
		vt.ReportHang("main", vt.MustJSON(c), vt.Failf("C14/hang", "concurrent referrer operations did not return"), dump)
	}
	return res, fail
}

func runInner(c Case) (res vt.Result, fail *vt.Fail) {
	ctx := context.Background()
	reg := regmodel.New(host, regmodel.Profile{ReferrersAPI: false})
	rp := reg.Repo(repoName)
	subjects := make([]built, c.NSubjects)
	for i := range subjects {
		subjects[i] = buildSubject(i)
		if !c.SubjectAbsent[i] {
			rp.Manifests[subjects[i].desc.Digest.String()] = &regmodel.Manifest{Bytes: subjects[i].bytes, MediaType: gen.MTImage}
		}
	}
	refs := make([]built, len(c.Refs))
	refDigests := map[string]int{}
	for i, r := range c.Refs {
		sd := subjects[r.Subject].desc
		if r.SubjAlt {
			sd.MediaType = gen.MTIndex
		}
		if r.Big {
			if r.Ann == nil {
				r.Ann = map[string]string{}
			}
			r.Ann["pad"] = strings.Repeat("p", 17000)
		}
		refs[i] = buildRef(i, r, sd)
		refDigests[refs[i].desc.Digest.String()] = i
	}
	entry := func(i int) ocispec.Descriptor {
		d := refs[i].desc
		d.ArtifactType = refs[i].at
		d.Annotations = refs[i].ann
		return d
	}
	live := map[int]bool{}
	// pre-existing state
	for _, i := range c.PreLive {
		rp.Manifests[refs[i].desc.Digest.String()] = &regmodel.Manifest{Bytes: refs[i].bytes, MediaType: refs[i].desc.MediaType}
		live[i] = true
	}
	for s := range subjects {
		if c.Pre[s] == 0 {
			continue
		}
		var ms []ocispec.Descriptor
		for _, i := range c.PreLive {
			if c.Refs[i].Subject == s {
				ms = append(ms, entry(i))
			}
		}
		switch c.Pre[s] {
		case 2:
			if len(ms) > 0 {
				ms = append(ms, ms[0])
			}
		case 3:
			ms = append([]ocispec.Descriptor{{}}, ms...)
		case 4:
			ms = append(ms, ocispec.Descriptor{MediaType: gen.MTImage, Digest: digest.FromString(fmt.Sprintf("dead%d", s)), Size: 7, ArtifactType: "application/vnd.dead"})
		}
		if len(ms) == 0 {
			// an empty pre-existing index would be the same manifest for every
			// subject (one digest under several referrers tags) - not a state the
			// client's own maintenance produces
			continue
		}
		// one index manifest per referrers tag: two subjects whose pre-existing
		// indexes were byte-identical (only a zero-value or dead entry) would share
		// one digest, and deleting the superseded index of the first would make the
		// second's deletion fail with not-found - a registry state, not a client fault
		idx := ocispec.Index{MediaType: gen.MTIndex, Manifests: ms, Annotations: map[string]string{"verif.subject": fmt.Sprint(s)}}
		idx.SchemaVersion = 2
		b, _ := json.Marshal(idx)
		dg := regmodel.DigestOf("sha256", b)
		rp.Manifests[dg] = &regmodel.Manifest{Bytes: b, MediaType: gen.MTIndex}
		sd := subjects[s].desc.Digest
		rp.Tags[sd.Algorithm().String()+"-"+sd.Encoded()] = dg
	}

	// gates and faults
	var mu sync.Mutex
	counts := map[string]int{}
	faultHit := false
	faultOn := ""
	oracle := false // set while the harness itself lists referrers: no faults, no counting
	classify := func(req *http.Request) string {
		if reIndexTag.MatchString(req.URL.Path) {
			if req.Method == http.MethodGet {
				return "index-get"
			}
			if req.Method == http.MethodPut {
				return "index-put"
			}
		}
		if req.Method == http.MethodDelete && strings.Contains(req.URL.Path, "/manifests/") {
			dg := req.URL.Path[strings.LastIndexByte(req.URL.Path, '/')+1:]
			if _, isRef := refDigests[dg]; !isRef {
				return "index-delete"
			}
		}
		return "other"
	}
	reg.Pre = func(req *http.Request, rec *regmodel.ReqRecord) (*http.Response, error) {
		cls := classify(req)
		mu.Lock()
		if oracle {
			mu.Unlock()
			return nil, nil
		}
		n := counts[cls]
		counts[cls] = n + 1
		hit := c.Fault != nil && c.Fault.On == cls && c.Fault.Nth == n
		if hit {
			faultHit = true
			faultOn = cls
		}
		mu.Unlock()
		// schedule perturbation (bounded sleeps only)
		h := uint32(c.GateSeed)*2654435761 + uint32(n)*40503 + uint32(len(cls))*97
		switch c.Gate {
		case 1:
			if cls == "index-get" {
				time.Sleep(time.Duration(1+h%3) * time.Millisecond) // let joiners pile up before commit
			}
		case 2:
			if cls == "index-put" {
				time.Sleep(time.Duration(1+h%3) * time.Millisecond) // joiners arrive after commit -> pending batch
			}
		case 3:
			time.Sleep(time.Duration(h%1500) * time.Microsecond)
		}
		if hit {
			if c.Fault.Mode == "transport" {
				return nil, errors.New("verif: injected transport error")
			}
			return regmodel.Response(req, 500, http.Header{"Content-Type": []string{"application/json"}}, []byte(`{"errors":[{"code":"UNKNOWN","message":"injected"}]}`), false, nil), nil
		}
		return nil, nil
	}

	repo, err := remote.NewRepository(host + "/" + repoName)
	if err != nil {
		return res, vt.Failf("harness/newrepo", "%v", err)
	}
	repo.Client = &http.Client{Transport: reg}
	repo.SkipReferrersGC = c.SkipGC
	if c.MaxMeta > 0 {
		repo.MaxMetadataBytes = int64(c.MaxMeta)
	}

	limbo := map[int]bool{}   // a Delete reported an index-delete error: the index no longer lists the manifest, the manifest itself was not deleted
	touched := map[int]bool{} // subjects whose index this Repository has rewritten
	pushFailed := map[int]bool{}
	deleteFailed := map[int]bool{}
	batching := false
	for pi, ph := range c.Phases {
		reg.Lock()
		logStart := len(reg.Log)
		reg.Unlock()
		errs := make([]error, len(ph))
		var wg sync.WaitGroup
		for j, op := range ph {
			wg.Add(1)
			go func(j int, op PhaseOp) {
				defer wg.Done()
				if op.Op == "push" {
					pd := refs[op.Ref].desc
					if (pi+j)%3 == 1 {
						// the caller's descriptor carries metadata of its own (as one taken
						// from an OCI layout's index.json does); what gets listed is the
						// manifest's artifact type and annotations all the same
						pd.ArtifactType = "application/vnd.caller.says"
						pd.Annotations = map[string]string{"org.opencontainers.image.ref.name": "t", "verif.caller": "1"}
					}
					errs[j] = repo.Push(ctx, pd, bytes.NewReader(refs[op.Ref].bytes))
				} else {
					errs[j] = repo.Delete(ctx, refs[op.Ref].desc)
				}
			}(j, op)
		}
		wg.Wait()
		// outcome per manifest
		perRef := map[int][]error{}
		kind := map[int]string{}
		for j, op := range ph {
			perRef[op.Ref] = append(perRef[op.Ref], errs[j])
			kind[op.Ref] = op.Op
		}
		mu.Lock()
		fh := faultHit
		fo := faultOn
		mu.Unlock()
		realNil := map[int]bool{}
		oversizeRefused := map[int]bool{}
		for ref, es := range perRef {
			anyNil := false
			for _, e := range es {
				var re *remote.ReferrersError
				if e == nil {
					anyNil = true
					realNil[ref] = true
					continue
				}
				if errors.As(e, &re) && re.IsReferrersIndexDelete() {
					if !(fh && fo == "index-delete") {
						return res, vt.Failf("C14/unexpected-index-delete-error", "phase %d: %s of referrer %d reported an index-delete error without an injected index delete failure: %v", pi, kind[ref], ref, e)
					}
					anyNil = true // the update itself took effect
					if kind[ref] == "delete" {
						limbo[ref] = true
					}
					continue
				}
				if kind[ref] == "delete" && len(es) > 1 && strings.Contains(e.Error(), "not found") {
					continue // the loser of two concurrent deletes of the same manifest
				}
				if kind[ref] == "push" && c.Refs[ref].Big && c.MaxMeta > 0 {
					if !errors.Is(e, errdef.ErrSizeExceedsLimit) {
						return res, vt.Failf("C14/oversized-push-wrong-error", "phase %d: push of referrer %d (%d bytes, MaxMetadataBytes %d) failed with %v, expected size-exceeds-limit", pi, ref, len(refs[ref].bytes), c.MaxMeta, e)
					}
					oversizeRefused[ref] = true
					continue
				}
				if !fh {
					return res, vt.Failf("C14/operation-failed", "phase %d: %s of referrer %d failed without any injected fault: %v", pi, kind[ref], ref, e)
				}
			}
			// a subject's index counts as rewritten by this Repository once an update
			// went through. A Delete that ends with an index-delete error is not
			// counted: when it empties the list, deleting the old index IS the update,
			// and the old index (duplicates and all) is still what the tag points to
			if anyNil && !(kind[ref] == "delete" && limbo[ref] && !realNil[ref]) {
				touched[c.Refs[ref].Subject] = true
			}
			if kind[ref] == "push" {
				live[ref] = true
				if !anyNil {
					pushFailed[ref] = true
				} else {
					delete(pushFailed, ref)
				}
			} else {
				if anyNil {
					delete(live, ref)
					delete(deleteFailed, ref)
				} else {
					deleteFailed[ref] = true
				}
			}
		}
		// what the registry actually holds
		reg.Lock()
		for i := range refs {
			_, has := rp.Manifests[refs[i].desc.Digest.String()]
			if has {
				live[i] = true
			} else {
				delete(live, i)
			}
		}
		// batching evidence from the request log
		puts := map[string]int{}
		for _, rec := range reg.Log[logStart:] {
			if rec.Method == http.MethodPut && reIndexTag.MatchString(rec.Path) && rec.Status == 201 {
				puts[rec.Path]++
			}
		}
		opsOnSubject := map[int]int{}
		for _, op := range ph {
			opsOnSubject[c.Refs[op.Ref].Subject]++
		}
		for s, k := range opsOnSubject {
			sd := subjects[s].desc.Digest
			p := puts["/v2/"+repoName+"/manifests/"+sd.Algorithm().String()+"-"+sd.Encoded()]
			if k >= 3 && (p >= 2 || (p == 1 && k >= 2)) {
				batching = true
			}
		}
		viol := append([]string(nil), reg.Violations...)
		reg.Unlock()
		if len(viol) > 0 {
			return res, vt.Failf("C14/request-not-spec-conformant", "%v", viol)
		}

		// the listing, per subject
		mu.Lock()
		oracle = true
		mu.Unlock()
		for s := range subjects {
			var got []string
			seen := map[string]int{}
			err := repo.Referrers(ctx, subjects[s].desc, "", func(rs []ocispec.Descriptor) error {
				for _, r := range rs {
					got = append(got, entryKey(r))
					seen[r.Digest.String()]++
				}
				return nil
			})
			if err != nil {
				return res, vt.Failf("C14/referrers-failed", "phase %d: Referrers(subject %d): %v", pi, s, err)
			}
			for dg, k := range seen {
				if k > 1 && (touched[s] || c.Pre[s] < 2) {
					return res, vt.Failf("C14/referrer-listed-twice", "phase %d: subject %d lists %s %d times", pi, s, dg, k)
				}
			}
			var want []string
			for i := range refs {
				if c.Refs[i].Subject == s && live[i] {
					want = append(want, entryKey(entry(i)))
				}
			}
			sort.Strings(got)
			sort.Strings(want)
			if !fh {
				// also the differential: what a registry with the Referrers API lists
				reg.Lock()
				api := reg.ReferrersOf(repoName, subjects[s].desc.Digest.String())
				reg.Unlock()
				if len(api) != len(want) {
					return res, vt.Failf("harness/twin", "model twin lists %d, harness expects %d", len(api), len(want))
				}
				if !touched[s] && c.Pre[s] >= 2 {
					// an index with duplicate / empty entries that this Repository has
					// not rewritten yet is listed as found; it is cleaned on the first
					// update (the statement speaks of the state after pushes/deletes)
					continue
				}
				if fmt.Sprint(got) != fmt.Sprint(want) {
					return res, vt.Failf("C14/referrers-listing-wrong", "phase %d (ops %v): Referrers(subject %d) lists %d entries %v; the live manifests naming it are %d: %v", pi, ph, s, len(got), short(got), len(want), short(want))
				}
				continue
			}
			// with an injected fault: no silent loss
			gotSet := map[string]bool{}
			for _, g := range got {
				gotSet[g] = true
			}
			wantSet := map[string]bool{}
			for _, w := range want {
				wantSet[w] = true
			}
			for i := range refs {
				if c.Refs[i].Subject != s {
					continue
				}
				k := entryKey(entry(i))
				if live[i] && !gotSet[k] && !pushFailed[i] && !limbo[i] {
					return res, vt.Failf("C14/silent-loss", "phase %d: referrer %d is live, its push returned nil, but it is not listed for subject %d (fault %+v)", pi, i, s, c.Fault)
				}
				if !live[i] && gotSet[k] && limbo[i] {
					// the Delete reported an index-delete error: either the update took
					// effect (the manifest may then go, it is no longer listed) or deleting
					// the old index WAS the update and failed (then the manifest stays)
					return res, vt.Failf("C14/index-delete-error-but-manifest-gone-and-listed", "phase %d: Delete of referrer %d reported a referrers-index-delete error; its manifest is gone from the registry, yet subject %d still lists it (a retry of the Delete ends with not-found)", pi, i, s)
				}
				if !live[i] && gotSet[k] && deleteFailed[i] && !limbo[i] && (c.Fault.On == "index-get" || c.Fault.On == "index-put") {
					// a Delete that failed because the index could not be fetched or
					// written must not have removed the manifest: it would stay listed
					// for good (a retry of the Delete ends with not-found)
					return res, vt.Failf("C14/failed-delete-removed-manifest", "phase %d: Delete of referrer %d returned an error (fault %+v), yet its manifest is gone from the registry while subject %d still lists it", pi, i, c.Fault, s)
				}
				if !live[i] && gotSet[k] && !deleteFailed[i] && !(fh && c.Fault.On != "index-get") {
					return res, vt.Failf("C14/deleted-still-listed", "phase %d: referrer %d was deleted (nil) but is still listed for subject %d", pi, i, s)
				}
			}
		}
		mu.Lock()
		oracle = false
		mu.Unlock()
		// dangling index manifests
		if !fh {
			reg.Lock()
			current := map[string]bool{}
			for t, dg := range rp.Tags {
				if strings.HasPrefix(t, "sha256-") || strings.HasPrefix(t, "sha512-") {
					current[dg] = true
				}
			}
			stale := 0
			for dg, m := range rp.Manifests {
				if _, isRef := refDigests[dg]; isRef || m.MediaType != gen.MTIndex {
					continue
				}
				if !current[dg] {
					stale++
				}
			}
			reg.Unlock()
			if !c.SkipGC && stale > 0 {
				return res, vt.Failf("C14/superseded-index-not-deleted", "phase %d: %d superseded referrers index manifest(s) remain in the registry", pi, stale)
			}
		}
	}
	// capability never flips
	if err := repo.SetReferrersCapability(true); err == nil {
		reg.Lock()
		usedTagSchema := false
		for _, rec := range reg.Log {
			if rec.Method == http.MethodPut && reIndexTag.MatchString(rec.Path) {
				usedTagSchema = true
			}
		}
		reg.Unlock()
		if usedTagSchema {
			return res, vt.Failf("C14/capability-flipped", "the repository maintained referrers indexes (capability: unsupported) and still accepted SetReferrersCapability(true)")
		}
	} else if !errors.Is(err, remote.ErrReferrersCapabilityAlreadySet) {
		return res, vt.Failf("C14/capability-error-class", "%v", err)
	}
	res.NonTrivial = batching
	res.Classes = []string{fmt.Sprintf("gate-%d", c.Gate)}
	if batching {
		res.Classes = append(res.Classes, "batching-or-queuing-observed")
	}
	if c.Fault != nil {
		mu.Lock()
		if faultHit {
			res.Classes = append(res.Classes, "fault-fired-"+c.Fault.On)
		}
		mu.Unlock()
	}
	if c.SkipGC {
		res.Classes = append(res.Classes, "skip-referrers-gc")
	}
	return res, nil
}

func short(xs []string) []string {
	var out []string
	for _, x := range xs {
		if i := strings.Index(x, "sha256:"); i >= 0 && len(x) > i+15 {
			x = x[i+7 : i+15]
		}
		out = append(out, x)
	}
	return out
}

func TestMain(m *testing.M) {
	vt.Main(m, "C14",
		vt.NewLeg("main", 600, 2500, 16, genCase, runCase),
		vt.NewLeg("capability", 150, 600, 2, genCap, runCap),
	)
}

func TestLegs(t *testing.T)   { vt.TestLegs(t) }
func TestReplay(t *testing.T) { vt.TestReplay(t) }
