// Package vt is the glue between generated cases, oracles, rapid, the evidence
// file and the ./check driver.
//
// A property package declares legs. A leg is a generator (all random choices are
// drawn up front through rapid into a plain JSON-serialisable case value) plus a
// runner that executes the case against the real oras-go code and returns a
// classification and, when the oracle is not satisfied, a *Fail with a root-cause
// key. The same runner serves rapid runs and --replay runs.
package vt

import (
	"crypto/sha256"
	"encoding/hex"
	"encoding/json"
	"flag"
	"fmt"
	"os"
	"path/filepath"
	"runtime"
	"runtime/debug"
	"sort"
	"strconv"
	"strings"
	"sync"
	"testing"
	"time"

	"pgregory.net/rapid"
)

// Fail describes an oracle failure. Key identifies the root cause (matched against
// KNOWN_FINDINGS.txt), Msg is the human readable detail.
type Fail struct {
	Key string
	Msg string
}

// Failf builds a Fail.
func Failf(key, format string, args ...any) *Fail {
	return &Fail{Key: key, Msg: fmt.Sprintf(format, args...)}
}

func (f *Fail) Error() string { return f.Key + ": " + f.Msg }

// Result classifies an executed case for the evidence file.
type Result struct {
	NonTrivial bool
	Classes    []string
	// Excluded counts shapes the generator avoided (or the runner normalised away)
	// because of a listed known finding.
	Excluded int
	// Extra evaluations carried out inside this case (e.g. crash points); the case
	// itself counts as one when Evals is 0.
	Evals int
	// SubNonTrivial lists fingerprints of non-trivial sub-cases (used by
	// enumerating legs where one generated case fans out).
	SubNonTrivial []string
}

// Leg is one campaign of a property.
type Leg interface {
	LegName() string
	Counts() (quick, thorough, shards int)
	check(t *testing.T)
	replay(raw json.RawMessage) (Result, *Fail)
	fuzzProp() func(*rapid.T)
}

type leg[C any] struct {
	name            string
	quick, thorough int
	shards          int
	gen             func(*rapid.T) C
	run             func(C) (Result, *Fail)
}

// NewLeg declares a rapid-driven leg. quick/thorough are rapid check counts per
// process; shards is the number of processes used in the thorough tier.
func NewLeg[C any](name string, quick, thorough, shards int, gen func(*rapid.T) C, run func(C) (Result, *Fail)) Leg {
	return &leg[C]{name: name, quick: quick, thorough: thorough, shards: shards, gen: gen, run: run}
}

func (l *leg[C]) LegName() string         { return l.name }
func (l *leg[C]) Counts() (int, int, int) { return l.quick, l.thorough, l.shards }
func (l *leg[C]) replay(raw json.RawMessage) (Result, *Fail) {
	var c C
	if err := json.Unmarshal(raw, &c); err != nil {
		return Result{}, &Fail{Key: "harness/replay-decode", Msg: err.Error()}
	}
	return safeRun(l.run, c)
}

// safeRun converts a panic into a Fail: a panic raised below oras-go frames while
// processing an in-domain case is a failure of the property being exercised; a
// panic with no oras-go frame on the stack is a harness fault.
func safeRun[C any](run func(C) (Result, *Fail), c C) (res Result, f *Fail) {
	defer func() {
		if pv := recover(); pv != nil {
			st := string(debug.Stack())
			msg := fmt.Sprintf("panic: %v\n%s", pv, st)
			if ps, ok := pv.(PanicWithStack); ok {
				st = ps.Stack
				msg = fmt.Sprintf("panic: %v\n%s", ps.Value, st)
			}
			if strings.Contains(st, "oras.land/oras-go/v2") {
				f = &Fail{Key: col.prop + "/panic", Msg: msg}
			} else {
				f = &Fail{Key: "harness/panic", Msg: msg}
			}
		}
	}()
	return run(c)
}

// PanicWithStack transports a panic (and the stack of the goroutine that raised
// it) across goroutines.
type PanicWithStack struct {
	Value any
	Stack string
}

// fuzzProp is the leg's property in the form rapid.MakeFuzz wants: the fuzzer's
// bytes drive the leg's own generator, the leg's own runner is the oracle.
func (l *leg[C]) fuzzProp() func(*rapid.T) {
	return func(rt *rapid.T) {
		c := l.gen(rt)
		js, err := json.Marshal(c)
		if err != nil {
			panic("harness: case not serialisable: " + err.Error())
		}
		_, f := safeRun(l.run, c)
		if f == nil || IsKnown(f.Key) {
			return
		}
		if strings.HasPrefix(f.Key, "harness/") {
			fmt.Printf("VERIF-INFRA %s\n", oneLine(f.Error()))
			rt.Skip("harness fault")
		}
		if os.Getenv("VERIF_FUZZ_SAVE") != "" {
			reportFailure(l.name, &failRec{caseJSON: js, fail: f})
		}
		rt.Fatalf("%s", f.Error())
	}
}

func (l *plainLeg) fuzzProp() func(*rapid.T) { return nil }

// FuzzLeg turns a registered rapid leg into a native fuzz target.
func FuzzLeg(f *testing.F, name string) {
	for _, l := range registry {
		if l.LegName() == name && l.fuzzProp() != nil {
			f.Fuzz(rapid.MakeFuzz(l.fuzzProp()))
			return
		}
	}
	f.Skip("no such leg: " + name)
}

func (l *leg[C]) check(t *testing.T) {
	var last *failRec
	defer func() {
		if last != nil {
			reportFailure(l.name, last)
		}
	}()
	rapid.Check(t, func(rt *rapid.T) {
		c := l.gen(rt)
		js, err := json.Marshal(c)
		if err != nil {
			panic("harness: case not serialisable: " + err.Error())
		}
		saveCurrent(l.name, js)
		res, f := safeRun(l.run, c)
		if f != nil && strings.HasPrefix(f.Key, "harness/") {
			infra(f.Error())
		}
		if f != nil && IsKnown(f.Key) {
			col.knownHit(f.Key, f.Msg, js)
			f = nil
		}
		col.record(l.name, js, res, f != nil)
		if f != nil {
			last = &failRec{caseJSON: js, fail: f}
			rt.Fatalf("%s", f.Error())
		}
	})
}

// PlainLeg is a leg that drives its own enumeration (exhaustive sweeps, crash
// runner). The function calls Record for each evaluated case and returns the
// first failure.
type plainLeg struct {
	name string
	fn   func(t *testing.T, env Env) (caseJSON []byte, f *Fail)
	rep  func(raw json.RawMessage) (Result, *Fail)
	sh   int
}

// Env is what a plain leg learns about the run.
type Env struct {
	Tier    string
	Seed    int64
	Shard   int
	NShards int
}

func NewPlainLeg(name string, shards int, fn func(t *testing.T, env Env) ([]byte, *Fail), rep func(json.RawMessage) (Result, *Fail)) Leg {
	return &plainLeg{name: name, fn: fn, rep: rep, sh: shards}
}
func (l *plainLeg) LegName() string         { return l.name }
func (l *plainLeg) Counts() (int, int, int) { return -1, -1, l.sh }
func (l *plainLeg) replay(raw json.RawMessage) (Result, *Fail) {
	return l.rep(raw)
}
func (l *plainLeg) check(t *testing.T) {
	js, f := l.fn(t, CurrentEnv())
	if f != nil {
		if strings.HasPrefix(f.Key, "harness/") {
			infra(f.Error())
		}
		reportFailure(l.name, &failRec{caseJSON: js, fail: f})
		t.Fatalf("%s", f.Error())
	}
	fmt.Printf("VERIF-PLAIN-OK leg=%s\n", l.name)
}

// Record lets plain legs account for evaluated cases. It also filters known
// findings: the returned Fail is nil when the failure is a listed known finding.
func Record(legName string, caseJSON []byte, res Result, f *Fail) *Fail {
	if f != nil && IsKnown(f.Key) {
		col.knownHit(f.Key, f.Msg, caseJSON)
		f = nil
	}
	col.record(legName, caseJSON, res, f != nil)
	return f
}

type failRec struct {
	caseJSON []byte
	fail     *Fail
}

// ---------------------------------------------------------------------------------
// environment

func CurrentEnv() Env {
	e := Env{Tier: os.Getenv("VERIF_TIER"), Seed: 1, NShards: 1}
	if e.Tier == "" {
		e.Tier = "quick"
	}
	if s, err := strconv.ParseInt(os.Getenv("VERIF_SEED_EFF"), 10, 64); err == nil {
		e.Seed = s
	}
	if s, err := strconv.Atoi(os.Getenv("VERIF_SHARD")); err == nil {
		e.Shard = s
	}
	if s, err := strconv.Atoi(os.Getenv("VERIF_NSHARDS")); err == nil && s > 0 {
		e.NShards = s
	}
	return e
}

// Thorough reports whether the thorough tier is running.
func Thorough() bool { return os.Getenv("VERIF_TIER") == "thorough" }

// Root is /verif.
func Root() string {
	if r := os.Getenv("VERIF_ROOT"); r != "" {
		return r
	}
	return "/verif"
}

// Scratch returns a fresh directory under the run's scratch area.
func Scratch(prefix string) string {
	base := os.Getenv("TMPDIR")
	if base == "" {
		base = filepath.Join(Root(), ".scratch")
		_ = os.MkdirAll(base, 0o755)
	}
	d, err := os.MkdirTemp(base, prefix)
	if err != nil {
		infra("mkdtemp: " + err.Error())
	}
	return d
}

func infra(msg string) {
	fmt.Printf("VERIF-INFRA %s\n", msg)
	col.flush()
	os.Exit(2)
}

// Infra aborts the run with exit code 2 (infrastructure trouble, never a violation).
func Infra(format string, args ...any) { infra(fmt.Sprintf(format, args...)) }

// ---------------------------------------------------------------------------------
// known findings

var (
	kfOnce sync.Once
	kfKeys map[string]string
)

func loadKnown() {
	kfKeys = map[string]string{}
	b, err := os.ReadFile(filepath.Join(Root(), "KNOWN_FINDINGS.txt"))
	if err != nil {
		return
	}
	for _, line := range strings.Split(string(b), "\n") {
		line = strings.TrimSpace(line)
		if !strings.HasPrefix(line, "finding:") {
			continue
		}
		var key string
		for _, f := range strings.Fields(line) {
			if strings.HasPrefix(f, "key=") {
				key = strings.TrimPrefix(f, "key=")
			}
		}
		if key != "" {
			kfKeys[key] = line
		}
	}
}

// IsKnown reports whether a root-cause key is listed as a known finding.
func IsKnown(key string) bool {
	kfOnce.Do(loadKnown)
	_, ok := kfKeys[key]
	return ok
}

// ---------------------------------------------------------------------------------
// evidence collector

type collector struct {
	mu        sync.Mutex
	prop      string
	evals     int64
	nontriv   map[string]struct{}
	classes   map[string]int64
	legs      map[string]int64
	samples   []json.RawMessage
	sampleLeg map[string]int
	excluded  int64
	known     map[string]*knownRec
	failed    int64
	start     time.Time
}

type knownRec struct {
	Key  string          `json:"key"`
	Msg  string          `json:"msg"`
	Hits int64           `json:"hits"`
	Case json.RawMessage `json:"case,omitempty"`
}

var col = &collector{nontriv: map[string]struct{}{}, classes: map[string]int64{}, legs: map[string]int64{}, sampleLeg: map[string]int{}, known: map[string]*knownRec{}, start: time.Now()}

func fp(b []byte) string {
	h := sha256.Sum256(b)
	return hex.EncodeToString(h[:8])
}

func (c *collector) record(legName string, js []byte, r Result, failed bool) {
	c.mu.Lock()
	defer c.mu.Unlock()
	n := int64(1)
	if r.Evals > 0 {
		n = int64(r.Evals)
	}
	c.evals += n
	c.legs[legName] += n
	c.excluded += int64(r.Excluded)
	if failed {
		c.failed++
	}
	for _, cl := range r.Classes {
		c.classes[cl]++
	}
	if r.NonTrivial {
		c.nontriv[fp(js)] = struct{}{}
	}
	for _, s := range r.SubNonTrivial {
		c.nontriv[fp([]byte(s))] = struct{}{}
	}
	if (r.NonTrivial || len(r.SubNonTrivial) > 0) && c.sampleLeg[legName] < 3 && len(js) < 6000 {
		c.sampleLeg[legName]++
		wrapped, _ := json.Marshal(map[string]any{"leg": legName, "classes": r.Classes, "case": json.RawMessage(js)})
		c.samples = append(c.samples, wrapped)
	}
}

func (c *collector) knownHit(key, msg string, js []byte) {
	c.mu.Lock()
	defer c.mu.Unlock()
	k := c.known[key]
	if k == nil {
		k = &knownRec{Key: key, Msg: msg}
		if len(js) < 6000 {
			k.Case = js
		}
		c.known[key] = k
	}
	k.Hits++
}

// KnownHit lets a runner report that a listed finding was reproduced without
// failing the case.
func KnownHit(key, msg string) {
	col.knownHit(key, msg, nil)
}

type side struct {
	Prop     string            `json:"prop"`
	Evals    int64             `json:"evals"`
	NonTriv  []string          `json:"nontriv"`
	Classes  map[string]int64  `json:"classes"`
	Legs     map[string]int64  `json:"legs"`
	Samples  []json.RawMessage `json:"samples"`
	Excluded int64             `json:"excluded"`
	Known    []*knownRec       `json:"known"`
	Failed   int64             `json:"failed"`
	WallS    float64           `json:"wall_s"`
}

func (c *collector) flush() {
	path := os.Getenv("VERIF_EV")
	c.mu.Lock()
	defer c.mu.Unlock()
	s := side{Prop: c.prop, Evals: c.evals, Classes: c.classes, Legs: c.legs, Samples: c.samples, Excluded: c.excluded, Failed: c.failed, WallS: time.Since(c.start).Seconds()}
	for k := range c.nontriv {
		s.NonTriv = append(s.NonTriv, k)
	}
	sort.Strings(s.NonTriv)
	var keys []string
	for k := range c.known {
		keys = append(keys, k)
	}
	sort.Strings(keys)
	for _, k := range keys {
		s.Known = append(s.Known, c.known[k])
		fmt.Printf("VERIF-KNOWN key=%s hits=%d %s\n", k, c.known[k].Hits, oneLine(c.known[k].Msg))
	}
	if path == "" {
		return
	}
	b, _ := json.Marshal(s)
	_ = os.WriteFile(path, b, 0o644)
}

func oneLine(s string) string {
	s = strings.ReplaceAll(s, "\n", " | ")
	if len(s) > 300 {
		s = s[:300] + "…"
	}
	return s
}

// ---------------------------------------------------------------------------------
// failure reporting / replay

type replayFile struct {
	Property string          `json:"property"`
	Leg      string          `json:"leg"`
	Key      string          `json:"key"`
	Msg      string          `json:"msg"`
	Case     json.RawMessage `json:"case"`
}

func reportFailure(legName string, fr *failRec) {
	dir := filepath.Join(Root(), "replays")
	_ = os.MkdirAll(dir, 0o755)
	rf := replayFile{Property: col.prop, Leg: legName, Key: fr.fail.Key, Msg: fr.fail.Msg, Case: fr.caseJSON}
	b, _ := json.MarshalIndent(rf, "", " ")
	path := filepath.Join(dir, fmt.Sprintf("%s-%s-%s.json", col.prop, legName, fp(fr.caseJSON)))
	if err := os.WriteFile(path, b, 0o644); err != nil {
		fmt.Printf("VERIF-INFRA cannot write replay: %v\n", err)
	}
	fmt.Printf("VERIF-FAIL property=%s leg=%s key=%s replay=%s msg=%s\n", col.prop, legName, fr.fail.Key, path, oneLine(fr.fail.Msg))
}

// FuzzReport is the failure path of native fuzz targets. Known findings are passed
// over (the campaign continues). When $VERIF_FUZZ_SAVE is set (the driver re-runs a
// saved crasher that way) the failing case is written as an ordinary replay file of
// the named leg, so that `check --replay` reproduces it without the fuzzer.
func FuzzReport(t *testing.T, legName string, c any, f *Fail) {
	if f == nil {
		return
	}
	if IsKnown(f.Key) {
		return
	}
	if os.Getenv("VERIF_FUZZ_SAVE") != "" {
		reportFailure(legName, &failRec{fail: f, caseJSON: MustJSON(c)})
	}
	t.Fatalf("%s", f.Error())
}

// saveCurrent records the case about to run, so that a crash of the whole process
// (a panic in a goroutine started by the code under test cannot be recovered) still
// leaves a replayable case behind for the driver.
func saveCurrent(legName string, js []byte) {
	path := os.Getenv("VERIF_EV")
	if path == "" {
		return
	}
	rf := replayFile{Property: col.prop, Leg: legName, Key: col.prop + "/crash", Msg: "process crashed while running this case", Case: js}
	b, _ := json.Marshal(rf)
	_ = os.WriteFile(path+".current", b, 0o644)
}

// ReportHang is used by watchdogs: the case cannot be shrunk, so it is saved as is
// and the process exits with the violation recorded.
func ReportHang(legName string, caseJSON []byte, f *Fail, dump string) {
	if IsKnown(f.Key) {
		col.knownHit(f.Key, f.Msg, caseJSON)
		col.flush()
		fmt.Printf("VERIF-HANG-KNOWN key=%s\n", f.Key)
		os.Exit(0)
	}
	reportFailure(legName, &failRec{caseJSON: caseJSON, fail: f})
	dir := filepath.Join(Root(), "replays")
	_ = os.WriteFile(filepath.Join(dir, fmt.Sprintf("%s-%s-%s.goroutines.txt", col.prop, legName, fp(caseJSON))), []byte(dump), 0o644)
	col.flush()
	os.Exit(1)
}

// Stacks returns a dump of all goroutines.
func Stacks() string {
	buf := make([]byte, 1<<20)
	for {
		n := runtime.Stack(buf, true)
		if n < len(buf) {
			return string(buf[:n])
		}
		buf = make([]byte, 2*len(buf))
	}
}

// ---------------------------------------------------------------------------------
// entry points used by each property package

var registry []Leg

// Main is called from TestMain.
func Main(m *testing.M, prop string, legs ...Leg) {
	col.prop = prop
	registry = legs
	if os.Getenv("VERIF_LIST") != "" {
		type li struct {
			Name     string `json:"name"`
			Quick    int    `json:"quick"`
			Thorough int    `json:"thorough"`
			Shards   int    `json:"shards"`
		}
		var out []li
		for _, l := range legs {
			q, th, sh := l.Counts()
			out = append(out, li{l.LegName(), q, th, sh})
		}
		b, _ := json.Marshal(out)
		fmt.Printf("VERIF-LEGS %s\n", b)
		os.Exit(0)
	}
	if !flag.Parsed() {
		flag.Parse()
	}
	code := m.Run()
	col.flush()
	os.Exit(code)
}

// TestLegs runs every registered leg as a sub-test (the driver selects one with
// -test.run).
func TestLegs(t *testing.T) {
	if os.Getenv("VERIF_REPLAY") != "" {
		t.Skip("replay mode")
	}
	for _, l := range registry {
		l := l
		t.Run(l.LegName(), func(t *testing.T) { l.check(t) })
	}
}

// TestReplay runs the case stored in $VERIF_REPLAY through its leg's runner.
// ReplayRepeat names legs whose failures depend on the goroutine schedule: a replay
// runs the saved case up to that many times and stops at the first failure.
var ReplayRepeat = map[string]int{}

func TestReplay(t *testing.T) {
	path := os.Getenv("VERIF_REPLAY")
	if path == "" {
		t.Skip("no replay requested")
	}
	b, err := os.ReadFile(path)
	if err != nil {
		infra("replay file: " + err.Error())
	}
	var rf replayFile
	if err := json.Unmarshal(b, &rf); err != nil {
		infra("replay file: " + err.Error())
	}
	for _, l := range registry {
		if l.LegName() != rf.Leg {
			continue
		}
		res, f := l.replay(rf.Case)
		for i := 1; f == nil && i < ReplayRepeat[rf.Leg]; i++ {
			res, f = l.replay(rf.Case)
		}
		if f != nil && IsKnown(f.Key) {
			col.knownHit(f.Key, f.Msg, rf.Case)
			f = nil
		}
		col.record(l.LegName(), rf.Case, res, f != nil)
		if f != nil {
			fmt.Printf("VERIF-FAIL property=%s leg=%s key=%s replay=%s msg=%s\n", col.prop, rf.Leg, f.Key, path, oneLine(f.Msg))
			t.Fatalf("%s", f.Error())
		}
		fmt.Printf("VERIF-REPLAY-OK leg=%s\n", rf.Leg)
		return
	}
	infra("replay file names unknown leg " + rf.Leg)
}

// ---------------------------------------------------------------------------------
// watchdog

// Watch runs fn and reports whether it finished within d. When it does not, the
// goroutine dump is returned; the caller decides (hang of code under test vs.
// infrastructure).
func Watch(d time.Duration, fn func()) (finished bool, dump string) {
	done := make(chan struct{})
	var pv any
	go func() {
		defer func() {
			if r := recover(); r != nil {
				pv = PanicWithStack{Value: r, Stack: string(debug.Stack())}
			}
			close(done)
		}()
		fn()
	}()
	select {
	case <-done:
		if pv != nil {
			panic(pv)
		}
		return true, ""
	case <-time.After(d):
		return false, Stacks()
	}
}

// MustJSON marshals v or panics.
func MustJSON(v any) []byte {
	b, err := json.Marshal(v)
	if err != nil {
		panic(err)
	}
	return b
}
