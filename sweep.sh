#!/bin/bash
# usage: sweep.sh <tier> <seed>...   -- runs every registered check at each seed; prints one line per run.
tier=$1; shift
ids=$(python3 -c "import json;print(' '.join(c['property_id'] for c in json.load(open('MANIFEST.json'))['checks']))")
for seed in "$@"; do
  for id in $ids; do
    out=$(VERIF_SEED=$seed ./check $id --tier $tier 2>&1); rc=$?
    line=$(echo "$out" | grep -E "^C[0-9]+ tier" | tail -1)
    echo "seed=$seed $id rc=$rc $line"
    if [ $rc -ne 0 ]; then echo "$out" | grep -E "VIOLATION|INFRA|  leg" | cut -c1-400; fi
  done
done
