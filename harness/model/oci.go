// Package model holds reference models written from the property statements and
// the public documentation, independent of the code under test.
package model

import (
	"sort"

	"verif/harness/gen"
)

// OCI is the reference model of an OCI-layout store over a fixed DAG universe: a
// set of stored nodes, a reference-name map and the set of manifests that have an
// index entry (every pushed manifest and every tagged node).
type OCI struct {
	D      *gen.DAG
	Stored map[int]bool
	Tags   map[string]int // reference name (not a digest) -> node
	Entry  map[int]bool   // has an index.json entry
}

// NewOCI creates an empty model.
func NewOCI(d *gen.DAG) *OCI {
	return &OCI{D: d, Stored: map[int]bool{}, Tags: map[string]int{}, Entry: map[int]bool{}}
}

// Clone copies the model.
func (m *OCI) Clone() *OCI {
	c := NewOCI(m.D)
	for k, v := range m.Stored {
		if v {
			c.Stored[k] = true
		}
	}
	for k, v := range m.Tags {
		c.Tags[k] = v
	}
	for k, v := range m.Entry {
		if v {
			c.Entry[k] = true
		}
	}
	return c
}

// dc maps a node to the representative of its digest: an OCI layout stores one file
// per digest, so aliases (same bytes under two media types) live and die together.
func (m *OCI) dc(id int) int { return m.D.Nodes[m.D.Nodes[id].Canon].DCanon }

// Has reports whether the content of node id is stored.
func (m *OCI) Has(id int) bool { return m.Stored[m.dc(id)] }

// StoredTriples returns the stored set keyed by triple-canonical ids (what
// descriptor-keyed oracles such as CheckPreds expect).
func (m *OCI) StoredTriples() map[int]bool {
	out := map[int]bool{}
	for _, id := range m.D.CanonIDs() {
		if m.Has(id) {
			out[id] = true
		}
	}
	return out
}

// edges returns the successors of id at digest level.
func (m *OCI) edges(id int) []gen.Edge {
	var out []gen.Edge
	for _, e := range m.D.Nodes[id].Edges {
		e.To = m.dc(e.To)
		out = append(out, e)
	}
	return out
}

// parentsD is Parents() at digest level.
func (m *OCI) parentsD() map[int][]int {
	out := map[int][]int{}
	for _, p := range m.D.CanonIDs() {
		if m.dc(p) != p {
			continue
		}
		seen := map[int]bool{}
		for _, e := range m.edges(p) {
			if !seen[e.To] {
				seen[e.To] = true
				out[e.To] = append(out[e.To], p)
			}
		}
	}
	return out
}

// Push records a successful push.
func (m *OCI) Push(id int) {
	id = m.dc(id)
	m.Stored[id] = true
	if m.D.IsManifest(id) {
		m.Entry[id] = true
	}
}

// Tag records a successful tag.
func (m *OCI) Tag(id int, ref string) {
	id = m.dc(id)
	m.Tags[ref] = id
	m.Entry[id] = true
}

// Untag removes a reference name.
func (m *OCI) Untag(ref string) { delete(m.Tags, ref) }

// Tagged reports whether some reference name resolves to id.
func (m *OCI) Tagged(id int) bool {
	for _, n := range m.Tags {
		if n == id {
			return true
		}
	}
	return false
}

// TagNames returns the sorted reference names.
func (m *OCI) TagNames() []string {
	var out []string
	for k := range m.Tags {
		out = append(out, k)
	}
	sort.Strings(out)
	return out
}

func (m *OCI) remove(id int) {
	delete(m.Stored, id)
	delete(m.Entry, id)
	for ref, n := range m.Tags {
		if n == id {
			delete(m.Tags, ref)
		}
	}
}

// DeletePlain models Delete without automatic GC.
func (m *OCI) DeletePlain(id int) { m.remove(m.dc(id)) }

func (m *OCI) subjectOf(id int) (int, bool) {
	for _, e := range m.edges(id) {
		if e.Role == "subject" {
			return e.To, true
		}
	}
	return 0, false
}

// storedPreds returns the stored canonical parents of id.
func (m *OCI) storedPreds(parents map[int][]int, id int) []int {
	var out []int
	for _, p := range parents[id] {
		if m.Stored[p] {
			out = append(out, p)
		}
	}
	return out
}

// cascade computes the set removed by Delete(x) with automatic GC, straight from
// the statement: x; recursively every untagged stored manifest whose subject was
// removed; every untagged stored node that had a predecessor and lost the last one.
//
//	strictRef:  a referrer of a removed manifest goes even when a surviving node
//	            still links to it (the two halves of the statement disagree there);
//	blobSubj:   the referrer rule also fires when the removed subject is a blob.
func (m *OCI) cascade(x int, strictRef, blobSubj bool) map[int]bool {
	parents := m.parentsD()
	removed := map[int]bool{x: true}
	hadPred := map[int]bool{}
	for id := range m.Stored {
		hadPred[id] = len(m.storedPreds(parents, id)) > 0
	}
	taggedNow := func(id int) bool {
		for _, n := range m.Tags {
			if n == id && n != x {
				return true
			}
		}
		return false
	}
	for changed := true; changed; {
		changed = false
		for _, id := range gen.SortedKeys(m.Stored) {
			if removed[id] || taggedNow(id) {
				continue
			}
			surviving := 0
			for _, p := range m.storedPreds(parents, id) {
				if !removed[p] {
					surviving++
				}
			}
			if m.D.IsManifest(id) {
				if s, ok := m.subjectOf(id); ok && removed[s] && (blobSubj || m.D.IsManifest(s)) {
					if strictRef || surviving == 0 {
						removed[id] = true
						changed = true
						continue
					}
				}
			}
			if hadPred[id] && surviving == 0 {
				removed[id] = true
				changed = true
			}
		}
	}
	return removed
}

func sameSet(a, b map[int]bool) bool {
	if len(a) != len(b) {
		return false
	}
	for k := range a {
		if !b[k] {
			return false
		}
	}
	return true
}

// DeleteAutoGC models Delete with automatic GC. It returns false, leaving the model
// untouched, when the statement does not fix the outcome (its readings disagree).
func (m *OCI) DeleteAutoGC(id int) (judged bool) {
	id = m.dc(id)
	a := m.cascade(id, true, false)
	if !sameSet(a, m.cascade(id, false, false)) || !sameSet(a, m.cascade(id, true, true)) || !sameSet(a, m.cascade(id, false, true)) {
		return false
	}
	for _, r := range gen.SortedKeys(a) {
		m.remove(r)
	}
	return true
}

// CascadeSize reports how many nodes Delete(id) with auto-GC removes (for
// classification), without changing the model.
func (m *OCI) CascadeSize(id int) int {
	return len(m.cascade(m.dc(id), true, false))
}

// closure adds to live everything reachable from id through stored nodes.
func (m *OCI) closure(id int, live map[int]bool) {
	if !m.Stored[id] || live[id] {
		return
	}
	live[id] = true
	for _, e := range m.edges(id) {
		m.closure(e.To, live)
	}
}

// gcLive computes the live set for GC and the referrers that keep an index entry.
// unjudged is set when an untagged entry's subject chain ends in a live node that
// is not a manifest (the statement speaks of chains ending in a reachable manifest).
func (m *OCI) gcLive() (live map[int]bool, keptRef map[int]bool, unjudged bool) {
	live = map[int]bool{}
	keptRef = map[int]bool{}
	parents := m.parentsD()
	for _, id := range m.Tags {
		m.closure(id, live)
	}
	for changed := true; changed; {
		changed = false
		for _, r := range gen.SortedKeys(m.Entry) {
			if m.Tagged(r) || keptRef[r] || !m.Stored[r] || !m.D.IsManifest(r) {
				continue
			}
			cur := r
			for steps := 0; steps <= len(m.D.Nodes); steps++ {
				s, ok := m.subjectOf(cur)
				if !ok {
					break
				}
				if !m.D.IsManifest(s) {
					// a chain ending in a blob: the statement only speaks of chains
					// ending in a reachable manifest; when that blob is linked from
					// a live node the outcome is not judged.
					if live[s] {
						unjudged = true
					}
					for _, p := range parents[s] {
						if live[p] {
							unjudged = true
						}
					}
					break
				}
				if live[s] {
					keptRef[r] = true
					m.closure(r, live)
					changed = true
					break
				}
				if !m.Stored[s] {
					break
				}
				cur = s
			}
		}
	}
	return live, keptRef, unjudged
}

// GCWouldBeUnjudged reports whether the statement leaves GC's outcome open here.
func (m *OCI) GCWouldBeUnjudged() bool {
	_, _, u := m.gcLive()
	return u
}

// GC models GC(): keep exactly what is reachable from a tagged node or from an
// indexed referrer chain ending in a reachable manifest.
func (m *OCI) GC() (removed []int) {
	live, kept, _ := m.gcLive()
	for _, id := range gen.SortedKeys(m.Stored) {
		if !live[id] {
			removed = append(removed, id)
			delete(m.Stored, id)
		}
	}
	entry := map[int]bool{}
	for _, id := range m.Tags {
		entry[id] = true
	}
	for id := range kept {
		entry[id] = true
	}
	m.Entry = entry
	return removed
}

// Reopen models closing and opening the layout again (index saved): nothing changes.
func (m *OCI) Reopen() {}

// ReopenedStored is the stored set as seen by a reopened store.
func (m *OCI) ReopenedStored() map[int]bool { return m.Stored }
