package c20

import (
	"bytes"
	"context"
	"crypto/sha256"
	"encoding/json"
	"errors"
	"fmt"
	"io"
	"net/http"
	"strings"
	"sync"
	"testing"

	_ "crypto/sha512"

	"github.com/opencontainers/go-digest"
	ocispec "github.com/opencontainers/image-spec/specs-go/v1"
	oras "oras.land/oras-go/v2"
	"oras.land/oras-go/v2/errdef"
	"oras.land/oras-go/v2/registry"
	"oras.land/oras-go/v2/registry/remote"
	"pgregory.net/rapid"

	"verif/harness/vt"
)

// ---------------------------------------------------------------------------------
// independent recogniser (no regexp, no net/url)

const (
	acc = iota
	rej
	unj
)

type parts struct {
	Registry, Repository, Reference string
}

func isLowerAlnum(c byte) bool { return (c >= 'a' && c <= 'z') || (c >= '0' && c <= '9') }
func isAlnum(c byte) bool {
	return isLowerAlnum(c) || (c >= 'A' && c <= 'Z')
}

// repoComponent: [a-z0-9]+ ( ('.' | '_' | '__' | '-'+) [a-z0-9]+ )*
func repoComponent(s string) bool {
	i, n := 0, len(s)
	run := func() bool {
		j := i
		for i < n && isLowerAlnum(s[i]) {
			i++
		}
		return i > j
	}
	if !run() {
		return false
	}
	for i < n {
		switch {
		case s[i] == '.':
			i++
		case s[i] == '_':
			i++
			if i < n && s[i] == '_' {
				i++
			}
		case s[i] == '-':
			for i < n && s[i] == '-' {
				i++
			}
		default:
			return false
		}
		if !run() {
			return false
		}
	}
	return true
}

func validRepository(s string) bool {
	if s == "" {
		return false
	}
	for _, c := range strings.Split(s, "/") {
		if !repoComponent(c) {
			return false
		}
	}
	return true
}

func validTag(s string) bool {
	if len(s) < 1 || len(s) > 128 {
		return false
	}
	for i := 0; i < len(s); i++ {
		c := s[i]
		ok := isAlnum(c) || c == '_'
		if i > 0 {
			ok = ok || c == '.' || c == '-'
		}
		if !ok {
			return false
		}
	}
	return true
}

var hexLen = map[string]int{"sha256": 64, "sha384": 96, "sha512": 128}

func validDigest(s string) bool {
	i := strings.IndexByte(s, ':')
	if i <= 0 {
		return false
	}
	alg, enc := s[:i], s[i+1:]
	want, ok := hexLen[alg]
	if !ok || len(enc) != want {
		return false
	}
	for j := 0; j < len(enc); j++ {
		c := enc[j]
		if !((c >= '0' && c <= '9') || (c >= 'a' && c <= 'f')) {
			return false
		}
	}
	return true
}

// registryVerdict is three-valued: accept for host[:port] with a plain DNS-like or
// IPv4 host or a bracketed IPv6 literal and a numeric port; reject for empty, for
// anything containing '@', '?', '#', space or backslash, and for a non-numeric port
// after a single colon; everything else is left to net/url (unjudged).
func registryVerdict(s string) int {
	if s == "" {
		return rej
	}
	if strings.ContainsAny(s, "@?# \\") {
		return rej
	}
	host, port := s, ""
	hasPort := false
	if s[0] == '[' {
		end := strings.IndexByte(s, ']')
		if end < 0 {
			return unj
		}
		lit := s[1:end]
		colons := 0
		for i := 0; i < len(lit); i++ {
			c := lit[i]
			if c == ':' {
				colons++
			} else if !((c >= '0' && c <= '9') || (c >= 'a' && c <= 'f') || (c >= 'A' && c <= 'F')) {
				return unj
			}
		}
		if colons < 2 {
			return unj
		}
		rest := s[end+1:]
		if rest == "" {
			return acc
		}
		if rest[0] != ':' {
			return unj
		}
		port, hasPort = rest[1:], true
		host = "x"
	} else if strings.Count(s, ":") == 1 {
		i := strings.IndexByte(s, ':')
		host, port, hasPort = s[:i], s[i+1:], true
	} else if strings.Count(s, ":") > 1 {
		return unj
	}
	if hasPort {
		for i := 0; i < len(port); i++ {
			if port[i] < '0' || port[i] > '9' {
				if s[0] != '[' {
					return rej
				}
				return unj
			}
		}
		if port == "" {
			return unj
		}
	}
	if host == "" {
		return unj
	}
	for i := 0; i < len(host); i++ {
		c := host[i]
		if !(isAlnum(c) || c == '.' || c == '-' || c == '_') {
			return unj
		}
	}
	return acc
}

// recognise returns the verdict for s and, when accepting, the expected parts.
func recognise(s string) (int, parts) {
	i := strings.IndexByte(s, '/')
	if i < 0 {
		return rej, parts{}
	}
	reg, path := s[:i], s[i+1:]
	var repo, ref string
	refOK := true
	bare := false
	if at := strings.IndexByte(path, '@'); at >= 0 {
		repo, ref = path[:at], path[at+1:]
		if c := strings.IndexByte(repo, ':'); c >= 0 {
			repo = repo[:c] // the tag before a digest is dropped, not validated
		}
		if ref == "" {
			bare = true
		} else {
			refOK = validDigest(ref)
		}
	} else if c := strings.IndexByte(path, ':'); c >= 0 {
		repo, ref = path[:c], path[c+1:]
		if ref == "" {
			bare = true
		} else {
			refOK = validTag(ref)
		}
	} else {
		repo = path
	}
	rv := registryVerdict(reg)
	if rv == rej || !validRepository(repo) || !refOK {
		return rej, parts{}
	}
	if bare || rv == unj {
		return unj, parts{}
	}
	return acc, parts{reg, repo, ref}
}

// judge compares the parser with the recogniser on one string.
func judge(s string) (verdict int, f *vt.Fail) {
	v, want := recognise(s)
	got, err := registry.ParseReference(s)
	switch v {
	case acc:
		if err != nil {
			return v, vt.Failf("C20/rejects-valid", "ParseReference(%q) failed (%v); the grammar accepts it as %+v", s, err, want)
		}
		if got.Registry != want.Registry || got.Repository != want.Repository || got.Reference != want.Reference {
			return v, vt.Failf("C20/wrong-parts", "ParseReference(%q) = %+v, expected %+v", s, got, want)
		}
		// round trip
		back := got.String()
		again, err := registry.ParseReference(back)
		if err != nil || again != got {
			return v, vt.Failf("C20/round-trip", "ParseReference(%q).String() = %q, which parses to %+v (err %v), not %+v", s, back, again, err, got)
		}
		exp := want.Registry + "/" + want.Repository
		if want.Reference != "" {
			if strings.Contains(want.Reference, ":") {
				exp += "@" + want.Reference
			} else {
				exp += ":" + want.Reference
			}
		}
		if back != exp {
			return v, vt.Failf("C20/string-form", "ParseReference(%q).String() = %q, expected %q", s, back, exp)
		}
	case rej:
		if err == nil {
			return v, vt.Failf("C20/accepts-invalid", "ParseReference(%q) = %+v; the grammar rejects it", s, got)
		}
		if !errors.Is(err, errdef.ErrInvalidReference) {
			return v, vt.Failf("C20/rejection-class", "ParseReference(%q): %v is not ErrInvalidReference", s, err)
		}
	}
	return v, nil
}

// ---------------------------------------------------------------------------------
// exhaustive leg

const alphabet = "aA0.-_:@/[]%? "

func exhaustive(t *testing.T, env vt.Env) ([]byte, *vt.Fail) {
	L := 6
	if env.Tier == "thorough" {
		L = 7
	}
	var judged, accepted, interesting int
	var firstFail *vt.Fail
	var failCase []byte
	buf := make([]byte, 0, L)
	var rec func(depth int)
	var samples []string
	rec = func(depth int) {
		if firstFail != nil {
			return
		}
		if len(buf) > 0 {
			s := string(buf)
			// shard by first character in the thorough tier
			v, f := judge(s)
			if v != unj {
				judged++
				// non-trivial: the grammar disagrees with the trivially permissive
				// recogniser "contains a slash", or it is an accepted reference
				if (v == rej) == strings.Contains(s, "/") {
					interesting++
					if len(samples) < 6 && len(s) == L {
						samples = append(samples, s)
					}
				}
				if v == acc {
					accepted++
				}
			}
			if f != nil {
				firstFail = f
				failCase, _ = json.Marshal(map[string]string{"s": s})
				return
			}
		}
		if depth == L {
			return
		}
		for i := 0; i < len(alphabet); i++ {
			if depth == 0 && env.NShards > 1 && i%env.NShards != env.Shard {
				continue
			}
			buf = append(buf, alphabet[i])
			rec(depth + 1)
			buf = buf[:len(buf)-1]
		}
	}
	rec(0)
	sj, _ := json.Marshal(map[string]any{"length_bound": L, "alphabet": alphabet, "judged": judged, "accepted": accepted, "examples": samples})
	var sub []string
	// every judged string is a distinct case; count them without storing each hash
	res := vt.Result{Evals: judged, Classes: []string{fmt.Sprintf("exhaustive-L%d", L)}}
	for i := 0; i < interesting && i < 50000; i++ {
		sub = append(sub, fmt.Sprintf("exh-%d-%d-%d", env.Shard, L, i))
	}
	res.SubNonTrivial = sub
	vt.Record("exhaustive", sj, res, nil)
	if firstFail != nil {
		return failCase, firstFail
	}
	return nil, nil
}

func replayExhaustive(raw json.RawMessage) (vt.Result, *vt.Fail) {
	var c struct {
		S string `json:"s"`
	}
	if err := json.Unmarshal(raw, &c); err != nil {
		return vt.Result{}, vt.Failf("harness/replay", "%v", err)
	}
	_, f := judge(c.S)
	return vt.Result{}, f
}

// ---------------------------------------------------------------------------------
// grammar-directed leg

// GCase is a reference assembled from parts, optionally with one edit.
type GCase struct {
	Registry string `json:"registry"`
	Repo     string `json:"repo"`
	Tag      string `json:"tag,omitempty"`
	Alg      string `json:"alg,omitempty"` // digest algorithm, "" = no digest
	Seed     int    `json:"seed,omitempty"`
	EditKind string `json:"editKind,omitempty"` // "", insert, delete, replace
	EditPos  int    `json:"editPos,omitempty"`
	EditCh   string `json:"editCh,omitempty"`
	BaseReg  string `json:"baseReg,omitempty"` // other registry for the mismatch check
}

var registries = []string{"localhost:5000", "example.com", "reg-a.test", "127.0.0.1:8080", "[::1]:5000", "[2001:db8::1]", "docker.io", "registry-1.docker.io", "a", "REG.Example.COM", "x_y.z"}
var repoParts = []string{"a", "lib", "foo-bar", "foo--bar", "a.b", "a_b", "a__b", "0", "9z"}
// the last three are NOT tags: digits and letters outside ASCII
var tags = []string{"latest", "v1.0.0", "_x", "A", "a.b-c_d", strings.Repeat("t", 128), "0", "v٣", "１.0", "réf"}
var editChars = []string{"a", "A", "0", ".", "-", "_", ":", "@", "/", "[", "]", "%", " ", "\n", "?", "#", "\\", "é", "٣", "３", "५", "𝟗", "Ａ", "ſ", "K"}

func digestFor(alg string, seed int) string {
	h := sha256.Sum256([]byte(fmt.Sprint(seed)))
	hexs := fmt.Sprintf("%x", h[:])
	n := hexLen[alg]
	out := ""
	for len(out) < n {
		out += hexs
	}
	return alg + ":" + out[:n]
}

func genG(t *rapid.T) GCase {
	c := GCase{Registry: rapid.SampledFrom(registries).Draw(t, "registry")}
	n := rapid.IntRange(1, 3).Draw(t, "nRepo")
	var ps []string
	for i := 0; i < n; i++ {
		ps = append(ps, rapid.SampledFrom(repoParts).Draw(t, "repoPart"))
	}
	c.Repo = strings.Join(ps, "/")
	switch rapid.IntRange(0, 3).Draw(t, "form") {
	case 0:
	case 1:
		c.Tag = rapid.SampledFrom(tags).Draw(t, "tag")
	case 2:
		c.Alg = rapid.SampledFrom([]string{"sha256", "sha384", "sha512"}).Draw(t, "alg")
	default:
		c.Tag = rapid.SampledFrom(tags).Draw(t, "tag2")
		c.Alg = rapid.SampledFrom([]string{"sha256", "sha384", "sha512", "md5", "sha1"}).Draw(t, "alg2")
	}
	c.Seed = rapid.IntRange(0, 50).Draw(t, "seed")
	if rapid.IntRange(0, 2).Draw(t, "edit") != 0 {
		c.EditKind = rapid.SampledFrom([]string{"insert", "delete", "replace"}).Draw(t, "editKind")
		c.EditPos = rapid.IntRange(0, 400).Draw(t, "editPos")
		c.EditCh = rapid.SampledFrom(editChars).Draw(t, "editCh")
	}
	c.BaseReg = rapid.SampledFrom(registries).Draw(t, "baseReg")
	return c
}

func (c GCase) build() string {
	s := c.Registry + "/" + c.Repo
	if c.Tag != "" {
		s += ":" + c.Tag
	}
	if c.Alg != "" {
		alg := c.Alg
		if _, ok := hexLen[alg]; !ok {
			s += "@" + alg + ":" + strings.Repeat("a", 32)
		} else {
			s += "@" + digestFor(alg, c.Seed)
		}
	}
	if c.EditKind == "" || len(s) == 0 {
		return s
	}
	// structural boundaries are preferred: positions near separators
	var bounds []int
	for i := 0; i < len(s); i++ {
		if strings.ContainsRune("/:@[].", rune(s[i])) {
			bounds = append(bounds, i, i+1)
		}
	}
	bounds = append(bounds, 0, len(s)-1, len(s))
	pos := c.EditPos % (len(s) + 1)
	if c.EditPos%3 != 0 {
		pos = bounds[c.EditPos%len(bounds)]
	}
	if pos > len(s) {
		pos = len(s)
	}
	switch c.EditKind {
	case "insert":
		return s[:pos] + c.EditCh + s[pos:]
	case "delete":
		if pos >= len(s) {
			pos = len(s) - 1
		}
		return s[:pos] + s[pos+1:]
	default:
		if pos >= len(s) {
			pos = len(s) - 1
		}
		return s[:pos] + c.EditCh + s[pos+1:]
	}
}

type recTransport struct {
	mu   sync.Mutex
	reqs []*http.Request
	// chunked: manifest GETs are answered 200 without Content-Length and without a
	// digest header (the client then has to find out size and digest by other means)
	chunked bool
}

var helperManifest = []byte(`{"schemaVersion":2,"mediaType":"application/vnd.oci.image.manifest.v1+json","config":{"mediaType":"application/vnd.oci.empty.v1+json","digest":"sha256:44136fa355b3678a1146ad16f7e8649e94fb4fc21fe77e8310c060f61caaff8a","size":2},"layers":[]}`)
var helperDesc = ocispec.Descriptor{MediaType: "application/vnd.oci.image.manifest.v1+json", Digest: digest.FromBytes(helperManifest), Size: int64(len(helperManifest))}

func (r *recTransport) RoundTrip(req *http.Request) (*http.Response, error) {
	r.mu.Lock()
	r.reqs = append(r.reqs, req)
	r.mu.Unlock()
	if req.Body != nil {
		io.Copy(io.Discard, req.Body)
		req.Body.Close()
	}
	if r.chunked && req.Method == http.MethodGet && strings.Contains(req.URL.Path, "/manifests/") {
		return &http.Response{StatusCode: 200, Status: "200 OK", Proto: "HTTP/1.1", ProtoMajor: 1, ProtoMinor: 1,
			Header: http.Header{"Content-Type": []string{helperDesc.MediaType}}, Body: io.NopCloser(bytes.NewReader(helperManifest)), ContentLength: -1, TransferEncoding: []string{"chunked"}, Request: req}, nil
	}
	// the helper manifest exists (so that Tag gets as far as its PUT)
	if (req.Method == http.MethodGet || req.Method == http.MethodHead) && strings.HasSuffix(req.URL.Path, "/manifests/"+helperDesc.Digest.String()) {
		h := http.Header{"Content-Type": []string{helperDesc.MediaType}, "Docker-Content-Digest": []string{helperDesc.Digest.String()}, "Content-Length": []string{fmt.Sprint(len(helperManifest))}}
		var body io.ReadCloser = http.NoBody
		if req.Method == http.MethodGet {
			body = io.NopCloser(bytes.NewReader(helperManifest))
		}
		return &http.Response{StatusCode: 200, Status: "200 OK", Proto: "HTTP/1.1", ProtoMajor: 1, ProtoMinor: 1, Header: h, Body: body, ContentLength: int64(len(helperManifest)), Request: req}, nil
	}
	return &http.Response{StatusCode: 404, Status: "404 Not Found", Proto: "HTTP/1.1", ProtoMajor: 1, ProtoMinor: 1,
		Header: http.Header{"Content-Type": []string{"application/json"}}, Body: io.NopCloser(strings.NewReader(`{"errors":[]}`)), ContentLength: 13, Request: req}, nil
}

func runG(c GCase) (res vt.Result, fail *vt.Fail) {
	s := c.build()
	v, f := judge(s)
	res.Classes = []string{map[int]string{acc: "judged-accept", rej: "judged-reject", unj: "unjudged"}[v]}
	if c.EditKind != "" {
		res.Classes = append(res.Classes, "mutant-"+c.EditKind)
	}
	res.NonTrivial = v == acc || (v == rej && strings.Contains(s, "/"))
	if f != nil {
		return res, f
	}
	if v != acc {
		return res, nil
	}
	_, want := recognise(s)
	// Repository.ParseReference: every spelling of the same reference agrees
	repo, err := remote.NewRepository(want.Registry + "/" + want.Repository)
	if err != nil {
		return res, vt.Failf("C20/newrepository-rejects", "NewRepository(%q): %v", want.Registry+"/"+want.Repository, err)
	}
	var forms []string
	if want.Reference != "" {
		isDigest := strings.Contains(want.Reference, ":")
		fq := want.Registry + "/" + want.Repository
		if isDigest {
			forms = []string{want.Reference, "sometag@" + want.Reference, fq + "@" + want.Reference, fq + ":sometag@" + want.Reference}
		} else {
			forms = []string{want.Reference, fq + ":" + want.Reference}
		}
		// a Repository whose own base reference carries a tag or a digest resolves
		// the same forms to the same reference
		bases := []string{fq, fq + ":basetag", fq + "@sha256:" + hex64}
		for bi, base := range bases {
			rp := repo
			if bi > 0 {
				var err error
				rp, err = remote.NewRepository(base)
				if err != nil {
					return res, vt.Failf("C20/newrepository-rejects", "NewRepository(%q): %v", base, err)
				}
			}
			for _, form := range forms {
				got, err := rp.ParseReference(form)
				if err != nil {
					return res, vt.Failf("C20/repository-parse-rejects", "Repository(%s).ParseReference(%q): %v", base, form, err)
				}
				if got.Registry != want.Registry || got.Repository != want.Repository || got.Reference != want.Reference {
					return res, vt.Failf("C20/repository-parse-differs", "Repository(%s).ParseReference(%q) = %+v, expected %+v", base, form, got, want)
				}
			}
		}
		res.Classes = append(res.Classes, "repository-forms-checked")
		// other registry / repository must be refused
		if c.BaseReg != want.Registry {
			other := c.BaseReg + "/" + want.Repository + refSuffix(want.Reference)
			if ov, _ := recognise(other); ov == acc {
				if _, err := repo.ParseReference(other); !errors.Is(err, errdef.ErrInvalidReference) {
					return res, vt.Failf("C20/repository-accepts-other-registry", "Repository(%s).ParseReference(%q) = %v", fq, other, err)
				}
			}
		}
		// docker.io and registry-1.docker.io name the same endpoint but are different
		// registries as far as references go
		if alias := map[string]string{"docker.io": "registry-1.docker.io", "registry-1.docker.io": "docker.io"}[want.Registry]; alias != "" {
			other := alias + "/" + want.Repository + refSuffix(want.Reference)
			if _, err := repo.ParseReference(other); !errors.Is(err, errdef.ErrInvalidReference) {
				return res, vt.Failf("C20/repository-accepts-other-registry", "Repository(%s).ParseReference(%q) = %v", fq, other, err)
			}
			res.Classes = append(res.Classes, "docker-hub-alias-checked")
		}
		otherRepo := want.Registry + "/" + want.Repository + "/x" + refSuffix(want.Reference)
		if _, err := repo.ParseReference(otherRepo); !errors.Is(err, errdef.ErrInvalidReference) {
			return res, vt.Failf("C20/repository-accepts-other-repository", "Repository(%s).ParseReference(%q) = %v", fq, otherRepo, err)
		}
	}
	if _, err := repo.ParseReference(""); err == nil {
		return res, vt.Failf("C20/repository-accepts-empty", "Repository.ParseReference(\"\") succeeded")
	}
	// URL slot
	if want.Reference == "" {
		return res, nil
	}
	rt := &recTransport{}
	repo.Client = &http.Client{Transport: rt}
	repo.PlainHTTP = c.Seed%2 == 0
	ctx := context.Background()
	isDigest := strings.Contains(want.Reference, ":")
	repo.Resolve(ctx, want.Reference)
	if isDigest {
		repo.Manifests().Delete(ctx, descFor(want.Reference))
		repo.Blobs().Resolve(ctx, want.Reference)
		repo.Fetch(ctx, descFor(want.Reference))
		repo.Exists(ctx, descFor(want.Reference))
		repo.SetReferrersCapability(true)
		repo.Referrers(ctx, manifestDescFor(want.Reference), "", func([]ocispec.Descriptor) error { return nil })
	} else {
		repo.FetchReference(ctx, want.Reference)
	}
	repo.Tags(ctx, "", func([]string) error { return nil })
	// every spelling of the reference, through every by-reference entry point (the
	// repository has learnt by now that the registry supports the Referrers API)
	repo.SetReferrersCapability(true)
	for _, form := range forms {
		repo.Resolve(ctx, form)
		repo.FetchReference(ctx, form)
		rt.mu.Lock()
		rt.chunked = true
		rt.mu.Unlock()
		if _, rc, err := repo.FetchReference(ctx, form); err == nil {
			rc.Close()
		}
		rt.mu.Lock()
		rt.chunked = false
		rt.mu.Unlock()
		repo.PushReference(ctx, helperDesc, bytes.NewReader(helperManifest), form)
		repo.Tag(ctx, helperDesc, form)
		oras.Tag(ctx, repo, helperDesc.Digest.String(), form)
	}
	host := want.Registry
	if host == "docker.io" {
		host = "registry-1.docker.io"
	}
	if len(rt.reqs) == 0 {
		return res, vt.Failf("C20/no-request", "no request was issued for %q", s)
	}
	for _, rq := range rt.reqs {
		u := rq.URL
		if u.Host != host {
			return res, vt.Failf("C20/url-host", "request to host %q for reference %q (expected %q): %s", u.Host, s, host, u.String())
		}
		if u.Fragment != "" || u.User != nil {
			return res, vt.Failf("C20/url-extra", "request URL has fragment/user-info: %s", u.String())
		}
		prefix := "/v2/" + want.Repository + "/"
		okPath := false
		for _, kind := range []string{"manifests", "blobs", "referrers"} {
			if u.Path == prefix+kind+"/"+want.Reference && u.EscapedPath() == u.Path {
				okPath = true
			}
		}
		if u.Path == prefix+"tags/list" || u.Path == prefix+"manifests/"+helperDesc.Digest.String() {
			okPath = true
		}
		if !okPath {
			return res, vt.Failf("C20/url-path", "request path %q (escaped %q) is not /v2/%s/<kind>/%s", u.Path, u.EscapedPath(), want.Repository, want.Reference)
		}
		for k := range u.Query() {
			if k != "n" && k != "last" && k != "artifactType" {
				return res, vt.Failf("C20/url-query", "unexpected query parameter %q in %s", k, u.String())
			}
		}
	}
	res.Classes = append(res.Classes, "url-slot-checked")
	return res, nil
}

func refSuffix(ref string) string {
	if strings.Contains(ref, ":") {
		return "@" + ref
	}
	return ":" + ref
}

func descFor(ref string) ocispec.Descriptor {
	d := ocispec.Descriptor{MediaType: "application/octet-stream", Size: 1}
	if strings.Contains(ref, ":") {
		d.Digest = digestOf(ref)
	} else {
		d.Digest = digestOf(digestFor("sha256", 1))
	}
	return d
}

func manifestDescFor(ref string) ocispec.Descriptor {
	d := descFor(ref)
	d.MediaType = "application/vnd.oci.image.manifest.v1+json"
	return d
}

func TestMain(m *testing.M) {
	vt.Main(m, "C20",
		vt.NewPlainLeg("exhaustive", 13, exhaustive, replayExhaustive),
		vt.NewLeg("grammar", 20000, 100000, 16, genG, runG),
	)
}

func TestLegs(t *testing.T)   { vt.TestLegs(t) }
func TestReplay(t *testing.T) { vt.TestReplay(t) }
