package c10

import (
	"context"
	"fmt"
	"os"
	"path/filepath"
	"sync"
	"sync/atomic"
	"time"

	"oras.land/oras-go/v2/content/oci"
	"pgregory.net/rapid"

	"verif/harness/fsx"
	"verif/harness/gen"
	"verif/harness/vt"
)

// Leg "sample": the crash runner kills a process that does ONE thing at a time. Here
// several goroutines tag concurrently while the harness keeps reading index.json: each
// version it sees on disk is what a crash at that moment would leave behind. Every
// such version parses, lists every reference whose Tag call had returned before the
// read began, and lists the reference that is only ever MOVED (between two manifests)
// exactly once. A second part makes one index save fail (a directory sits where the
// replacement file is written) during a manifest push and checks, after the next
// successful save, that every index entry names an existing blob.

type SampleCase struct {
	Taggers  int  `json:"taggers"`
	PerTag   int  `json:"perTagger"`
	Moves    int  `json:"moves"`
	Obstruct bool `json:"obstruct"`
	AutoGC   bool `json:"autoGC"`
}

func genSample(t *rapid.T) SampleCase {
	return SampleCase{Taggers: rapid.IntRange(1, 5).Draw(t, "taggers"), PerTag: rapid.IntRange(2, 12).Draw(t, "perTagger"), Moves: rapid.IntRange(5, 60).Draw(t, "moves"),
		Obstruct: rapid.Bool().Draw(t, "obstruct"), AutoGC: rapid.Bool().Draw(t, "autoGC")}
}

func runSample(c SampleCase) (res vt.Result, fail *vt.Fail) {
	ctx := context.Background()
	root := vt.Scratch("c10s-")
	defer os.RemoveAll(root)
	dir := filepath.Join(root, "layout")
	s, err := oci.New(dir)
	if err != nil {
		return res, vt.Failf("harness/oci", "%v", err)
	}
	s.AutoGC = c.AutoGC
	d := gen.Build([]gen.NodeSpec{
		{Kind: gen.KBlob, Seed: 1, Size: 11, MT: "application/vnd.oci.image.config.v1+json"},
		{Kind: gen.KImage, Config: &gen.Ref{N: 0}, Ann: map[string]string{"v": "1"}},
		{Kind: gen.KImage, Config: &gen.Ref{N: 0}, Ann: map[string]string{"v": "2"}},
		{Kind: gen.KImage, Config: &gen.Ref{N: 0}, Ann: map[string]string{"v": "3"}},
	})
	for _, id := range []int{0, 1, 2} {
		if err := gen.PushNode(ctx, s, d.Nodes[id]); err != nil {
			return res, vt.Failf("harness/push", "%v", err)
		}
	}
	if err := s.Tag(ctx, d.Nodes[1].Desc, "mv"); err != nil {
		return res, vt.Failf("harness/tag", "%v", err)
	}
	done := make([]atomic.Int64, c.Taggers) // per tagger: how many of its Tag calls have returned
	var wg sync.WaitGroup
	var stop atomic.Bool
	errs := make(chan error, c.Taggers+1)
	for g := 0; g < c.Taggers; g++ {
		wg.Add(1)
		go func(g int) {
			defer wg.Done()
			for i := 0; i < c.PerTag; i++ {
				if err := s.Tag(ctx, d.Nodes[1+(g+i)%2].Desc, fmt.Sprintf("t%d-%d", g, i)); err != nil {
					errs <- err
					return
				}
				done[g].Store(int64(i + 1))
			}
		}(g)
	}
	wg.Add(1)
	go func() {
		defer wg.Done()
		for i := 0; i < c.Moves; i++ {
			if err := s.Tag(ctx, d.Nodes[1+(i+1)%2].Desc, "mv"); err != nil {
				errs <- err
				return
			}
		}
	}()
	finished := make(chan struct{})
	go func() { wg.Wait(); close(finished) }()
	samples, distinct := 0, map[string]bool{}
	check := func() *vt.Fail {
		snap := make([]int64, c.Taggers)
		for g := range snap {
			snap[g] = done[g].Load()
		}
		idx, err := fsx.ReadIndex(dir)
		if err != nil {
			return vt.Failf("C10/index-json-unreadable-under-concurrency", "index.json as found on disk while %d goroutines tag: %v", c.Taggers+1, err)
		}
		samples++
		have := map[string]int{}
		for _, m := range idx.Manifests {
			if r := m.Annotations["org.opencontainers.image.ref.name"]; r != "" {
				have[r]++
			}
		}
		distinct[fmt.Sprint(len(idx.Manifests), have["mv"])] = true
		if have["mv"] != 1 {
			return vt.Failf("C10/tag-mapping-half-updated", "an index.json found on disk while the reference \"mv\" was being moved between two manifests lists it %d times: a crash at this moment leaves neither the mapping before nor the one after the move", have["mv"])
		}
		for g := range snap {
			for i := int64(0); i < snap[g]; i++ {
				if have[fmt.Sprintf("t%d-%d", g, i)] != 1 {
					return vt.Failf("C10/returned-effect-lost", "Tag(t%d-%d) had returned before index.json was read, yet the file does not list that reference (a crash now loses it)", g, i)
				}
			}
		}
		return nil
	}
loop:
	for {
		select {
		case <-finished:
			break loop
		default:
		}
		if f := check(); f != nil {
			stop.Store(true)
			<-finished
			return res, f
		}
		if samples%64 == 0 {
			time.Sleep(50 * time.Microsecond)
		}
	}
	select {
	case err := <-errs:
		return res, vt.Failf("C10/tag-failed", "%v", err)
	default:
	}
	if f := check(); f != nil {
		return res, f
	}
	res.Evals = 1
	res.NonTrivial = samples >= 10 && len(distinct) >= 2
	res.Classes = []string{fmt.Sprintf("taggers-%d", c.Taggers)}
	if c.Obstruct {
		obst := filepath.Join(dir, "index.json.tmp")
		if err := os.Mkdir(obst, 0o755); err == nil {
			perr := gen.PushNode(ctx, s, d.Nodes[3])
			os.Remove(obst)
			if perr != nil {
				res.Classes = append(res.Classes, "manifest-push-failed-on-index-save")
			}
			// a Tag whose save fails, then the caller's retry of the very same call: once
			// it returns nil the reference is on disk
			if err := os.Mkdir(obst, 0o755); err == nil {
				terr := s.Tag(ctx, d.Nodes[2].Desc, "retried")
				os.Remove(obst)
				if terr != nil {
					if rerr := s.Tag(ctx, d.Nodes[2].Desc, "retried"); rerr != nil {
						return res, vt.Failf("C10/tag-failed", "retry of a Tag whose index save had failed: %v", rerr)
					}
					res.Classes = append(res.Classes, "tag-retried-after-failed-save")
				}
				idx, ierr := fsx.ReadIndex(dir)
				found := false
				if ierr == nil {
					for _, m := range idx.Manifests {
						if m.Annotations["org.opencontainers.image.ref.name"] == "retried" {
							found = true
						}
					}
				}
				if !found {
					return res, vt.Failf("C10/returned-effect-lost", "Tag(\"retried\") failed on its index save (%v), the retry returned nil, yet index.json does not list the reference (err %v): a crash now loses an operation that had returned", terr, ierr)
				}
			}
			if err := s.Tag(ctx, d.Nodes[1].Desc, "after-the-failed-save"); err != nil {
				return res, vt.Failf("C10/tag-failed", "Tag after a failed index save: %v", err)
			}
			if probs := fsx.ValidateLayout(dir, true); len(probs) > 0 {
				return res, vt.Failf("C10/layout-invalid-after-failed-save/"+probs[0].Kind, "one index save failed during a manifest push (the call returned %v); after the next successful save the layout is invalid: %v", perr, probs)
			}
			if _, err := oci.New(dir); err != nil {
				return res, vt.Failf("C10/reopen-failed-after-failed-save", "%v", err)
			}
		}
	}
	return res, nil
}
