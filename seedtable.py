#!/usr/bin/env python3
"""seedtable.py -- regenerate the table of DESIGN.md section 10.1 from seeded/*/meta.json."""
import json, glob, re
rows = []
for m in glob.glob('/verif/seeded/*/meta.json'):
    d = json.load(open(m)); i = m.split('/')[-2]
    p, k = i.rsplit('-', 1)
    rows.append(((p[:3], p[3:], int(k)), '| %s | %s | %s |' % (i, d['needs_to_manifest'], d['detected_by'])))
rows.sort()
s = open('/verif/DESIGN.md').read()
head = '| change | needs | caught by |\n|--------|-------|-----------|\n'
a = s.index(head) + len(head)
b = s.index('\n\n', a)
s = s[:a] + '\n'.join(r for _, r in rows) + s[b:]
open('/verif/DESIGN.md', 'w').write(s)
print(len(rows), 'rows')
