package c01

import (
	"context"
	"fmt"
	"sync"
	"time"

	ocispec "github.com/opencontainers/image-spec/specs-go/v1"
	"oras.land/oras-go/v2"
	"pgregory.net/rapid"

	"verif/harness/copyx"
	"verif/harness/gen"
	"verif/harness/vt"
)

// Leg "twin": two to three oras.Copy calls of the same root, from the same source
// into the same (empty or pre-populated) destination, at the same time, each under
// its own destination reference. Every call that returns success must find the
// whole graph in the destination and its own reference resolving to the root -
// also when another call pushed the root a moment earlier.

func genTwin(t *rapid.T) copyx.Case {
	c := copyx.GenBase(t, gen.DAGOpts{MaxNodes: 8, NoAbsent: true, NoForeign: true, NoBigBlobs: true}, []string{"memory", "oci"}, []string{"memory", "oci"})
	d := gen.Build(c.Specs)
	c.API = "copy"
	c.Conc = rapid.SampledFrom([]int{1, 2, 0}).Draw(t, "conc")
	c.LatSeed = rapid.IntRange(1, 1<<20).Draw(t, "latSeed")
	c.Depth = rapid.IntRange(2, 3).Draw(t, "callers") // (number of concurrent callers)
	if rapid.IntRange(0, 2).Draw(t, "pre") == 1 {
		c.Pre = copyx.GenPre(t, d, d.Reach(c.Root, true), c.Root)
	}
	return c
}

func runTwin(c copyx.Case) (res vt.Result, fail *vt.Fail) {
	callers := c.Depth
	c.Depth = 0
	e, f := copyx.Setup(&c)
	if f != nil {
		return res, f
	}
	defer e.Close()
	d := e.D
	root := d.Nodes[d.Nodes[c.Root].Canon]
	type out struct {
		desc ocispec.Descriptor
		err  error
	}
	outs := make([]out, callers)
	var wg sync.WaitGroup
	start := make(chan struct{})
	fin, dump := vt.Watch(60*time.Second, func() {
		for g := 0; g < callers; g++ {
			wg.Add(1)
			go func(g int) {
				defer wg.Done()
				<-start
				opts := oras.DefaultCopyOptions
				opts.Concurrency = c.Conc
				desc, err := oras.Copy(context.Background(), e.Src.(oras.ReadOnlyTarget), copyx.SrcRef, e.Dst, fmt.Sprintf("twin-%d", g), opts)
				outs[g] = out{desc, err}
			}(g)
		}
		close(start)
		wg.Wait()
	})
	if !fin {
		vt.ReportHang("twin", vt.MustJSON(c), vt.Failf("C01/hang", "concurrent Copy calls did not return"), dump)
	}
	res.NonTrivial = d.IsManifest(root.ID)
	res.Classes = []string{"src-" + c.SrcKind, "dst-" + c.DstKind, fmt.Sprintf("callers-%d", callers)}
	for g, o := range outs {
		if o.err != nil {
			return res, vt.Failf("C01/fault-free-copy-failed", "caller %d of %d concurrent Copy calls (%s->%s) failed on a well-formed graph without faults: %v", g, callers, c.SrcKind, c.DstKind, o.err)
		}
		if gen.TripleKey(o.desc) != gen.TripleKey(root.Desc) {
			return res, vt.Failf("C01/returned-root-mismatch", "caller %d returned %s, expected %s", g, gen.TripleKey(o.desc), gen.TripleKey(root.Desc))
		}
	}
	if f := e.CheckPresent(d.Reach(c.Root, true), "C01", "after concurrent Copy calls"); f != nil {
		return res, f
	}
	for g := range outs {
		ref := fmt.Sprintf("twin-%d", g)
		got, err := e.RawDst.Resolve(context.Background(), ref)
		if err != nil || got.Digest != root.Desc.Digest {
			return res, vt.Failf("C01/root-not-tagged", "%d Copy calls of one root ran at once and all returned success, but Resolve(%q) on the destination = %s, %v", callers, ref, gen.TripleKey(got), err)
		}
	}
	return res, nil
}
